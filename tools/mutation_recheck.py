#!/usr/bin/env python
"""Re-runs the current quick checks on the mutants the sweep listed as survived / undecided (same mutant, regenerated from its description).

    tools/mutation_recheck.py [--in harmless/MUTATION_SWEEP.jsonl] [--out harmless/MUTATION_RECHECK.jsonl]
"""
import argparse
import ast
import json
import os
import subprocess
import sys

ROOT = os.path.join(os.path.dirname(os.path.abspath(__file__)), "..")
sys.path.insert(0, ROOT)
sys.path.insert(0, os.path.join(ROOT, "tools"))
from mutation_sweep import Mutator  # noqa: E402

WT = "/tmp/mutre"


def main():
    ap = argparse.ArgumentParser()
    ap.add_argument("--inp", default=os.path.join(ROOT, "harmless", "MUTATION_SWEEP.jsonl"))
    ap.add_argument("--out", default=os.path.join(ROOT, "harmless", "MUTATION_RECHECK.jsonl"))
    a = ap.parse_args()
    rows = [json.loads(l) for l in open(a.inp)]
    subprocess.run(["git", "-C", "/repo", "worktree", "remove", "--force", WT], capture_output=True)
    subprocess.run(["git", "-C", "/repo", "worktree", "add", "-q", "--detach", WT, "HEAD"], check=True)
    out = open(a.out, "w")
    for r in rows:
        if r["verdict"] not in ("survived", "undecided"):
            continue
        path = os.path.join("/repo", r["file"])
        src = open(path).read()
        m = Mutator(r["function"])
        m.visit(ast.parse(src))
        code = None
        for k in range(m.count):
            mu = Mutator(r["function"], k)
            new = mu.visit(ast.parse(src))
            if mu.desc == r["mutation"]:
                ast.fix_missing_locations(new)
                code = ast.unparse(new)
                break
        if code is None:
            continue
        subprocess.run(["git", "-C", WT, "checkout", "-q", "--", "."], check=True)
        open(os.path.join(WT, r["file"]), "w").write(code)
        res = {}
        for p in sorted(r["checks"]):
            c = subprocess.run([os.path.join(ROOT, "check"), p, "--no-evidence"], capture_output=True, text=True, env=dict(os.environ, EMINUS_REPO=WT))
            viol = [l.split("replays/")[-1].split(".json")[0] for l in c.stdout.splitlines() if l.startswith("VIOLATION")]
            res[p] = dict(rc=c.returncode, violations=viol[:4])
        verdict = "killed" if any(v["violations"] for v in res.values()) else "error" if any(v["rc"] == 3 for v in res.values()) else \
            "undecided" if any(v["rc"] == 2 for v in res.values()) else "survived"
        rec = dict(file=r["file"], function=r["function"], mutation=r["mutation"], verdict_then=r["verdict"], verdict_now=verdict, checks=res)
        out.write(json.dumps(rec) + "\n")
        out.flush()
        print(verdict, r["file"], r["function"], r["mutation"], flush=True)
    subprocess.run(["git", "-C", "/repo", "worktree", "remove", "--force", WT], capture_output=True)


if __name__ == "__main__":
    main()
