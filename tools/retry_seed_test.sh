#!/bin/sh
# usage: retry_seed_test.sh <seed-name> <pytest node ids / -k expression ...>
# Re-runs, alone, tests of the pinned suite that failed for a seed only by the notebook kernel timeout under load; patches confirm.txt.
NAME="$1"; shift
SD=/verif/seeded/$NAME
WT=/tmp/cs/retry-$NAME
mkdir -p /tmp/cs
git -C /repo worktree remove --force $WT 2>/dev/null
git -C /repo worktree add -q --detach $WT HEAD || exit 2
cd $WT && git apply $SD/patch.diff || exit 2
PYTHONPATH=$WT OMP_NUM_THREADS=3 MKL_NUM_THREADS=3 OPENBLAS_NUM_THREADS=3 /venv/bin/python -m pytest -q -rfE -p no:cacheprovider --timeout=900 "$@" > $SD/suite_patched_retry.log 2>&1; RC=$?
echo "retry of the failed tests alone ($*): rc=$RC: $(tail -n 1 $SD/suite_patched_retry.log)" >> $SD/confirm.txt
if [ $RC -eq 0 ]; then sed -i 's/suite_patched_rc=1/suite_patched_rc=0(after-retry)/' $SD/confirm.txt; fi
cd /; git -C /repo worktree remove --force $WT
