#!/usr/bin/env python
"""Mutation sweep of the machinery itself (not a registered check): single-node AST mutants of the functions under contract are applied to a
scratch worktree (never /repo) and the quick checks of the properties that name the function are run against each.

    tools/mutation_sweep.py [--per-function N] [--seed S] [--only substring] [--out FILE]

Verdict per mutant: killed (a VIOLATION line), undecided (exit 2 only), error (exit 3), survived (exit 0). Survivors are either equivalent
mutants or holes in the contracts: they are listed for review. Nothing here decides a property.
"""
import argparse
import ast
import json
import os
import random
import subprocess
import sys

ROOT = os.path.join(os.path.dirname(os.path.abspath(__file__)), "..")
sys.path.insert(0, ROOT)
WT = "/tmp/mutsweep"


class Mutator(ast.NodeTransformer):
    """Applies the k-th applicable mutation inside one function."""

    def __init__(self, target, k=None):
        self.target, self.k, self.count, self.desc = target, k, 0, None
        self.inside = False

    def hit(self):
        self.count += 1
        return self.k is not None and self.count - 1 == self.k

    def visit_FunctionDef(self, node):
        if node.name == self.target and not self.inside:
            self.inside = True
            self.generic_visit(node)
            self.inside = False
            return node
        if self.inside:
            self.generic_visit(node)
        else:
            for c in node.body:
                if isinstance(c, (ast.FunctionDef, ast.ClassDef)):
                    self.visit(c)
        return node

    def visit_ClassDef(self, node):
        for i, c in enumerate(node.body):
            node.body[i] = self.visit(c)
        return node

    def visit_BinOp(self, node):
        self.generic_visit(node)
        if not self.inside:
            return node
        swaps = {ast.Add: ast.Sub, ast.Sub: ast.Add, ast.Mult: ast.Div, ast.Div: ast.Mult}
        if type(node.op) in swaps and self.hit():
            self.desc = f"line {node.lineno}: `{ast.unparse(node)}`: {type(node.op).__name__} -> {swaps[type(node.op)].__name__}"
            return ast.BinOp(node.left, swaps[type(node.op)](), node.right)
        if isinstance(node.op, (ast.Mult, ast.MatMult)) and self.hit():
            self.desc = f"line {node.lineno}: `{ast.unparse(node)}`: right factor dropped"
            return node.left
        return node

    def visit_Compare(self, node):
        self.generic_visit(node)
        if not self.inside or len(node.ops) != 1:
            return node
        swaps = {ast.Lt: ast.LtE, ast.LtE: ast.Lt, ast.Gt: ast.GtE, ast.GtE: ast.Gt, ast.Eq: ast.NotEq, ast.NotEq: ast.Eq}
        if type(node.ops[0]) in swaps and self.hit():
            self.desc = f"line {node.lineno}: `{ast.unparse(node)}`: {type(node.ops[0]).__name__} -> {swaps[type(node.ops[0])].__name__}"
            return ast.Compare(node.left, [swaps[type(node.ops[0])]()], node.comparators)
        return node

    def visit_Constant(self, node):
        if not self.inside or isinstance(node.value, (str, bytes, bool)) or node.value is None or not isinstance(node.value, (int, float)):
            return node
        if self.hit():
            new = node.value + 1 if isinstance(node.value, int) else node.value * 2.0 if node.value else 1.0
            self.desc = f"line {node.lineno}: constant {node.value!r} -> {new!r}"
            return ast.copy_location(ast.Constant(new), node)
        return node

    def visit_Subscript(self, node):
        self.generic_visit(node)
        if not self.inside:
            return node
        if isinstance(node.slice, ast.Name) and node.slice.id in ("ik", "spin", "ia", "i", "j", "l") and isinstance(node.ctx, ast.Load) and self.hit():
            self.desc = f"line {node.lineno}: `{ast.unparse(node)}`: index {node.slice.id} -> 0"
            return ast.copy_location(ast.Subscript(node.value, ast.Constant(0), node.ctx), node)
        return node

    def visit_Call(self, node):
        self.generic_visit(node)
        if not self.inside:
            return node
        if isinstance(node.func, ast.Attribute) and node.func.attr == "conj" and not node.args and self.hit():
            self.desc = f"line {node.lineno}: `{ast.unparse(node)}`: .conj() dropped"
            return node.func.value
        return node

    def visit_UnaryOp(self, node):
        self.generic_visit(node)
        if self.inside and isinstance(node.op, ast.USub) and self.hit():
            self.desc = f"line {node.lineno}: `{ast.unparse(node)}`: unary minus dropped"
            return node.operand
        return node


def targets():
    from pycv import framework as fw
    from pycv import registry

    os.environ.setdefault("EMINUS_REPO", "/repo")
    sys.path.insert(0, os.environ["EMINUS_REPO"])
    t = {}
    for p in sorted(registry.PROPERTIES):
        try:
            registry.load(p)
        except Exception:  # noqa: BLE001
            continue
    for ob in fw.REGISTRY.values():
        if ob.canary:
            continue
        for f in ob.functions:
            if ":" not in f or f.endswith("*"):
                continue
            mod, fn = f.split(":")
            fn = fn.split(".")[-1]
            path = os.path.join("/repo", *mod.split(".")) + ".py"
            if os.path.exists(path) and fn.isidentifier():
                t.setdefault((path, fn), set()).add(ob.prop)
    return t


def main():
    ap = argparse.ArgumentParser()
    ap.add_argument("--per-function", type=int, default=4)
    ap.add_argument("--seed", type=int, default=1)
    ap.add_argument("--only", default="")
    ap.add_argument("--out", default=os.path.join(ROOT, "harmless", "MUTATION_SWEEP.jsonl"))
    a = ap.parse_args()
    rng = random.Random(a.seed)
    subprocess.run(["git", "-C", "/repo", "worktree", "remove", "--force", WT], capture_output=True)
    subprocess.run(["git", "-C", "/repo", "worktree", "add", "-q", "--detach", WT, "HEAD"], check=True)
    tg = targets()
    out = open(a.out, "a")
    for (path, fn), props in sorted(tg.items()):
        if a.only and a.only not in f"{path}:{fn}":
            continue
        src = open(path).read()
        m = Mutator(fn)
        m.visit(ast.parse(src))
        n = m.count
        if n == 0:
            continue
        for k in rng.sample(range(n), min(a.per_function, n)):
            tree = ast.parse(src)
            mu = Mutator(fn, k)
            new = mu.visit(tree)
            ast.fix_missing_locations(new)
            try:
                code = ast.unparse(new)
                compile(code, path, "exec")
            except Exception:  # noqa: BLE001
                continue
            rel = os.path.relpath(path, "/repo")
            subprocess.run(["git", "-C", WT, "checkout", "-q", "--", "."], check=True)
            open(os.path.join(WT, rel), "w").write(code)
            res = {}
            for p in sorted(props):
                r = subprocess.run([os.path.join(ROOT, "check"), p, "--no-evidence"], capture_output=True, text=True, env=dict(os.environ, EMINUS_REPO=WT))
                viol = [l.split("replays/")[-1].split(".json")[0] for l in r.stdout.splitlines() if l.startswith("VIOLATION")]
                res[p] = dict(rc=r.returncode, violations=viol[:4])
            verdict = "killed" if any(v["violations"] for v in res.values()) else "error" if any(v["rc"] == 3 for v in res.values()) else \
                "undecided" if any(v["rc"] == 2 for v in res.values()) else "survived"
            tests = None
            if verdict in ("survived", "undecided"):
                # is the mutant visible to the pinned tests at all? (only the test files named after the module: a cheap filter)
                base = os.path.basename(rel)[:-3]
                cands = [f"tests/test_{base}.py"] + (["tests/test_xc.py"] if "/xc/" in rel else []) + ([f"tests/test_{fn}.py"] if os.path.exists(os.path.join(WT, f"tests/test_{fn}.py")) else [])
                cands = [c for c in cands if os.path.exists(os.path.join(WT, c))]
                if cands:
                    t = subprocess.run(["/venv/bin/python", "-m", "pytest", "-q", "-x", "-p", "no:cacheprovider", "--timeout=300"] + cands, cwd=WT, capture_output=True, text=True,
                                       env=dict(os.environ, PYTHONPATH=WT, OMP_NUM_THREADS="2"))
                    tests = dict(files=cands, rc=t.returncode, summary=t.stdout.strip().splitlines()[-1][:120] if t.stdout.strip() else "")
                    if t.returncode != 0:
                        verdict += "+tests-kill"
            rec = dict(file=rel, function=fn, mutation=mu.desc, verdict=verdict, checks=res, tests=tests)
            out.write(json.dumps(rec) + "\n")
            out.flush()
            print(verdict, rel, fn, mu.desc, flush=True)
    subprocess.run(["git", "-C", "/repo", "worktree", "remove", "--force", WT], capture_output=True)


if __name__ == "__main__":
    main()
