#!/usr/bin/env python
"""Write seeded/<id>/meta.json from notes.md (written by the sub-agent), confirm.txt (my confirmation in a scratch worktree) and
caught.txt (my checks run against the change in a scratch worktree)."""
import json, pathlib, re, subprocess, sys
ROOT = pathlib.Path(__file__).resolve().parent.parent
props = {json.loads(l)["id"]: json.loads(l) for l in open(ROOT / "properties.jsonl")}
head = subprocess.run(["git", "-C", "/repo", "rev-parse", "--short", "HEAD"], capture_output=True, text=True).stdout.strip()
for d in sorted((ROOT / "seeded").iterdir()):
    if not d.is_dir() or d.name.startswith("_"):
        continue
    pid = d.name.split("-")[0]
    notes = (d / "notes.md").read_text() if (d / "notes.md").exists() else ""
    lines = [l.strip() for l in notes.splitlines() if l.strip()]
    title = lines[0].lstrip("# ").strip() if lines else ""
    # "what is needed to manifest": the paragraph(s) under a heading mentioning need / manifest
    need = []
    grab = False
    for l in notes.splitlines():
        if re.match(r"^#+ ", l) or re.match(r"^\*\*.*\*\*:?$", l.strip()) or re.match(r"^[A-Z][A-Za-z /()-]+:$", l.strip()):
            grab = bool(re.search(r"need|manifest|trigger|condition", l, re.I))
            continue
        if grab and l.strip():
            need.append(l.strip())
    if not need:
        need = [l for l in lines if re.search(r"need|manifest|only (when|if|with)|trigger", l, re.I)][:4]
    conf = (d / "confirm.txt").read_text().splitlines() if (d / "confirm.txt").exists() else []
    c = dict(re.findall(r"(\w+)=(\S+)", conf[0])) if conf else {}
    caught = (d / "caught.txt").read_text().splitlines() if (d / "caught.txt").exists() else []
    viol = sorted({re.search(r"replay=(\S+)\.json(\s|$)", l).group(1) for l in caught if l.startswith("VIOLATION") and "replay=" in l})
    suite_ok = str(c.get("suite_patched_rc", "")).startswith("0")
    flaky = (not suite_ok) and any("Timeout waiting for execute reply" in l or "CellTimeoutError" in l for l in (d / "suite_patched.log").read_text().splitlines()) if (d / "suite_patched.log").exists() else False
    meta = {
        "id": d.name,
        "property_broken": pid,
        "property_title": props[pid]["title"],
        "change": title,
        "needs_to_manifest": " ".join(need)[:1500],
        "files": sorted(set(re.findall(r"^\+\+\+ b/(\S+)", (d / "patch.diff").read_text(), re.M))),
        "confirmed_by_me": {
            "how": "tools/confirm_seed.sh in a scratch git worktree of /repo under /tmp/cs (removed afterwards): demo on the clean tree, patch applied, demo again, the pinned test suite with the patch",
            "demo_on_clean_tree_exit": c.get("demo_clean_rc"), "demo_with_patch_exit": c.get("demo_patched_rc"), "pinned_suite_with_patch_exit": c.get("suite_patched_rc"),
            "pinned_suite_summary": conf[-1] if conf else "confirmation not finished",
            "note": ("the only failure is a 300 s Jupyter kernel time-out of an unrelated notebook test under machine load (re-run pending)" if flaky else ""),
        },
        "my_checks": {
            "how": "tools/seed_catch.sh: patch applied to the scratch worktree /tmp/mut, ./check <property> with EMINUS_REPO=/tmp/mut (never applied to /repo for these runs)",
            "tree": caught[0] if caught else "", "runs": [l for l in caught[1:] if l.startswith("check ")], "caught_by": viol,
        },
        "history": (d / "history.txt").read_text().strip() if (d / "history.txt").exists() else "",
        "kept": bool(c.get("demo_clean_rc") == "0" and c.get("demo_patched_rc") == "1" and (suite_ok or flaky)),
    }
    (d / "meta.json").write_text(json.dumps(meta, indent=1))
    print(d.name, "kept" if meta["kept"] else "PENDING/NOT-KEPT", len(viol), "obligations")
