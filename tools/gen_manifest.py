#!/usr/bin/env python
"""Regenerate MANIFEST.json from pycv/registry.py (claimed properties) + tools/not_applicable.json."""
import json, pathlib, sys
ROOT = pathlib.Path(__file__).resolve().parent.parent
sys.path.insert(0, str(ROOT))
from pycv import registry

props = [json.loads(l) for l in open(ROOT / "properties.jsonl")]
na = json.load(open(ROOT / "tools" / "not_applicable.json"))
TECH = {
 "A": "contract-based deductive verification: exact-algebra tracing of the real functions, identities discharged by a normaliser over an algebraic/transcendental generator tower",
 "Z": "contract-based deductive verification: symbolic execution of the real ASTs into z3 verification conditions (class invariants, loop invariants, callee contracts)",
 "N": "contract-based deductive verification: operator-algebra tracing of the real functions, identities discharged by a non-commutative normaliser with assumed contracts for linear-algebra externals",
 "B": "bounded native stand-ins (labelled bounded, never counted as proved) for the clauses no contract on this repository can decide",
}
TECH["S"] = "contract-based deductive verification: chain rule over the function's own intermediate variables (single-assignment execution of the real AST, sympy), callee and call-site contracts"
TECH["X"] = "exhaustive evaluation of a contract over a finite domain read from the tree under check (bundled files, tables, image boxes)"
checks = []
engines_used = {}
ORDER = "ANZSXB"
for pid, spec in registry.PROPERTIES.items():
    # the engines are read off the registered obligations (deductive engines first, bounded stand-ins last)
    obs = registry.load(pid)
    eng = "".join(sorted({o.engine for o in obs if not o.canary and o.engine in ORDER}, key=ORDER.index)) or spec.get("engines", "A")
    for e in eng:
        engines_used.setdefault(e, []).append(pid)
    checks.append({
        "property_id": pid,
        "quick_cmd": f"./check {pid} --tier quick",
        "thorough_cmd": f"./check {pid} --tier thorough",
        "evidence_file": f"evidence/{pid}.json",
        "replay_cmd_template": f"./check {pid} --replay {{path}}",
        "engine": eng,
        "level_claimed": {"category": spec.get("level", "proof"), "text": spec["claim"], "design_ref": f"DESIGN.md section 5 {pid}"},
        "level_note": spec["note"],
        "technique": "; ".join(TECH[e] for e in eng),
    })
ENG = {
 "A": ("pycv/algebra", "exact-algebra tracing of loader-recompiled /repo modules on Laurent polynomials over Q in a generator tower; in-house normaliser; refutations by 50-digit mpmath, replayed natively"),
 "Z": ("pycv/wp", "AST -> z3 symbolic executor over the real class/function ASTs (path enumeration, property/method inlining, uninterpreted functions for un-modelled computations, callee contracts, loop invariants)"),
 "N": ("pycv/opalg", "non-commutative *-algebra tracing of the real DFT++ operator code with rewrite rules from assumed contracts"),
 "B": ("contracts", "bounded native evaluations of the contracts on real objects (native twins of the symbolic obligations, histories on reused objects, separate interpreters, poisoned allocations); labelled bounded, never counted as proved"),
 "S": ("pycv/ssa.py", "single-assignment symbolic execution of a function's AST with sympy: chain rule over the function's own locals, atoms with derivative rules for roots / exp / log, callee results by contract"),
 "X": ("contracts", "exhaustive native evaluation over finite domains of the tree under check (all bundled pseudopotential files, name tables, special-point tables, lattice image boxes)"),
}
m = {
 "version": 1,
 "setup_cmd": "./setup.sh",
 "hooks": {"guard": "EMINUS_VERIF", "enable": "no hooks: sidecar contracts re-read /repo's working tree on every run (EMINUS_VERIF reserved, unused)",
           "baseline_off_cmd": "cd /repo && /venv/bin/python -m pytest -ra -q -p no:cacheprovider --timeout=900 --continue-on-collection-errors",
           "source_commits": [], "add_only": True},
 "engines": [{"name": e, "path": ENG[e][0], "serves_properties": sorted(ps), "kind_free_text": ENG[e][1]} for e, ps in sorted(engines_used.items())],
 "checks": checks,
 "notes": "Known (unrepaired) defects: KNOWN_FINDINGS.json (also lists the 'fix:' commits made in /repo). Obligations whose prover budget is insufficient are listed with verdict 'undecided' in OBLIGATIONS_BASELINE.json and are never counted as discharged. See DESIGN.md.",
 "not_applicable": [{"property_id": p["id"], "reason": na.get(p["id"], "check not built yet (see DESIGN.md section 5 for the plan)")}
                    for p in props if p["id"] not in registry.PROPERTIES],
}
json.dump(m, open(ROOT / "MANIFEST.json", "w"), indent=1)
import jsonschema
jsonschema.validate(m, json.load(open("/root/.vp/MANIFEST.schema.json")))
print("MANIFEST ok:", [c["property_id"] for c in checks])
