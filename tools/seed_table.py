#!/usr/bin/env python
"""Regenerates the seed table of DESIGN.md (section 10.5) from seeded/<id>/{notes.md, caught.txt, history.txt}."""
import pathlib
import re

ROOT = pathlib.Path(__file__).resolve().parent.parent
rows = []
for d in sorted((ROOT / "seeded").iterdir(), key=lambda p: (p.name.split("-")[0], int(p.name.split("-")[1]) if "-" in p.name and p.name.split("-")[1].isdigit() else 0)):
    if not d.is_dir() or d.name.startswith("_"):
        continue
    title = ""
    if (d / "notes.md").exists():
        for l in (d / "notes.md").read_text().splitlines():
            l = l.strip("# \n")
            if l:
                title = l
                break
    title = re.sub(r"^C\d\d[- ]?\w*\s*[:—-]+\s*", "", title)[:150].replace("|", "/")
    caught = (d / "caught.txt").read_text().splitlines() if (d / "caught.txt").exists() else []
    prop = d.name.split("-")[0]
    viol = []
    for l in caught:
        m = re.search(r"replay=(\S+?)\.json", l)
        if l.startswith("VIOLATION") and m:
            v = m.group(1)
            viol.append(v[len(prop) + 1:] if v.startswith(prop + ".") else v)
    first = "at once"
    if (d / "history.txt").exists():
        h = (d / "history.txt").read_text()
        first = "missed" if "MISSED" in h or "NOT CAUGHT" in h else "undecided" if "UNDECIDED" in h else "error" if "crash" in h or "checker error" in h else "partly"
    shown = ", ".join(viol[:3]) + (" ..." if len(viol) > 3 else "")
    rows.append(f"| {d.name} | {title} | {first} | {shown or 'NOT CAUGHT (see history.txt)'} |")
out = ["| seed | change (from the agent's notes) | first run | caught by (obligations of the seed's own property, prefix stripped) |", "|------|----------------------------------|-----------|------------------|"] + rows
text = (ROOT / "DESIGN.md").read_text()
i = text.index("| seed | change (from the agent's notes) |")
j = text.find("\n\n", i)
j = len(text) if j < 0 else j
(ROOT / "DESIGN.md").write_text(text[:i] + "\n".join(out) + text[j:])
print(len(rows), "rows")
