#!/bin/sh
# usage: run_on_tree.sh <tag> <tree> [props...]   runs the quick checks against a scratch tree, prints exit codes + alarm lines
TAG="$1"; TREE="$2"; shift 2
PROPS="${*:-C01 C02 C03 C04 C05 C06 C07 C08 C09 C10 C11 C12 C13 C14 C15 C16 C17 C19 C20}"
for P in $PROPS; do
  EMINUS_REPO=$TREE /verif/check $P --no-evidence > /tmp/rot_${TAG}_$P.log 2>&1; RC=$?
  echo "$P rc=$RC $(grep -c '^VIOLATION' /tmp/rot_${TAG}_$P.log) violations, $(grep -c '^UNDECIDED' /tmp/rot_${TAG}_$P.log) newly undecided"
  grep "^VIOLATION\|^UNDECIDED" /tmp/rot_${TAG}_$P.log | cut -c1-260
done
