"""Audit: evaluate the NATIVE replay of every obligation on the tree under check, whatever the symbolic verdict is.

A replay that reports a violation on a tree where the symbolic obligation is discharged is a HARNESS error (the replay would
turn the next 'outside subset' into a false alarm). Prints one line per obligation with a replay; exit 1 if any replay fires on an
obligation that is not listed as an open known finding.
usage: tools/audit_replays.py [PROP ...]
"""
import json
import os
import sys

sys.path.insert(0, os.path.join(os.path.dirname(__file__), ".."))
sys.path.insert(0, os.environ.setdefault("EMINUS_REPO", "/repo"))
from pycv import framework, registry  # noqa: E402

props = sys.argv[1:] or sorted(registry.PROPERTIES)
known = {f["obligation"] for f in json.load(open(os.path.join(os.path.dirname(__file__), "..", "KNOWN_FINDINGS.json")))["findings"] if f.get("status") == "open"}
bad = 0
for p in props:
    registry.load(p)
for ob in list(framework.REGISTRY.values()):
    if ob.prop not in props or ob.canary:
        continue
    run = ob.run
    rep = getattr(run, "replay", None)
    if rep is None or getattr(run, "nat", "x") is None:
        continue
    try:
        out = rep(dict(obligation=ob.name, seed=0))
    except TypeError:
        continue
    except Exception as e:  # noqa: BLE001
        print(f"?? {ob.name}: replay raised {type(e).__name__}: {e}")
        continue
    fired = out[0] if isinstance(out, tuple) else out
    tag = "FIRES" if fired else "quiet"
    if fired and ob.name not in known:
        bad += 1
    print(f"{tag:5s} {ob.name} {str(out[1])[:160] if isinstance(out, tuple) else ''}")
sys.exit(1 if bad else 0)
