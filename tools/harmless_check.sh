#!/bin/sh
# usage: harmless_check.sh [patch ...]   Applies each semantics-preserving refactor of /verif/harmless/*.diff to a scratch worktree (never /repo)
# and runs EVERY quick check against it: each must exit 0 without a VIOLATION line. Results: /verif/harmless/RESULTS.txt
WT=/tmp/harmless_wt
git -C /repo worktree remove --force $WT 2>/dev/null
git -C /repo worktree add -q --detach $WT HEAD || exit 2
OUT=/verif/harmless/RESULTS.txt
echo "tree: /repo $(git -C /repo rev-parse --short HEAD); every quick check against each harmless refactor (expected: rc=0 everywhere)" > $OUT
for P in ${*:-/verif/harmless/*.diff}; do
  (cd $WT && git checkout -q -- . && git apply $P) || { echo "$(basename $P): does not apply" >> $OUT; continue; }
  echo "== $(basename $P)" >> $OUT
  /verif/tools/run_on_tree.sh $(basename $P .diff) $WT >> $OUT 2>&1
done
git -C /repo worktree remove --force $WT
grep -c "rc=0" $OUT; grep -v "rc=0\|^==\|^tree" $OUT | head
