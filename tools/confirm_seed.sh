#!/bin/sh
# usage: confirm_seed.sh <seed-dir with patch.diff demo.py> <name> [pytest args...]
# Confirms in a scratch worktree: demo fails with the patch, passes without; the pinned suite passes with the patch.
SD="$1"; NAME="$2"; shift 2
WT=/tmp/cs/$NAME
mkdir -p /tmp/cs
git -C /repo worktree remove --force $WT 2>/dev/null
git -C /repo worktree add -q --detach $WT HEAD || exit 2
cd $WT
export OMP_NUM_THREADS=2 OPENBLAS_NUM_THREADS=2 MKL_NUM_THREADS=2
PYTHONPATH=$WT /venv/bin/python $SD/demo.py > $SD/demo_clean.log 2>&1; RC_CLEAN=$?
git apply $SD/patch.diff || { echo "patch does not apply" > $SD/confirm.txt; exit 2; }
PYTHONPATH=$WT /venv/bin/python $SD/demo.py > $SD/demo_patched.log 2>&1; RC_PATCH=$?
PYTHONPATH=$WT /venv/bin/python -m pytest -q -rfE -p no:cacheprovider --timeout=900 "$@" > $SD/suite_patched.log 2>&1; RC_SUITE=$?
# tests that failed are re-run alone once (the notebook tests hit their 300 s kernel timeout when the machine is loaded)
if [ $RC_SUITE -ne 0 ]; then
  FAILED=$(grep -E "^(FAILED|ERROR) tests/" $SD/suite_patched.log | sed -E 's/^(FAILED|ERROR) ([^ ]+).*/\2/' | sort -u)
  if [ -n "$FAILED" ]; then
    PYTHONPATH=$WT OMP_NUM_THREADS=8 /venv/bin/python -m pytest -q -p no:cacheprovider --timeout=900 $FAILED > $SD/suite_patched_retry.log 2>&1; RC_SUITE=$?
    echo "retry of failed tests alone: rc=$RC_SUITE ($FAILED)" >> $SD/suite_patched.log
  fi
fi
echo "demo_clean_rc=$RC_CLEAN demo_patched_rc=$RC_PATCH suite_patched_rc=$RC_SUITE" > $SD/confirm.txt
tail -n 4 $SD/suite_patched.log >> $SD/confirm.txt
cd /; git -C /repo worktree remove --force $WT
