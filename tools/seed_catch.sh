#!/bin/sh
# usage: seed_catch.sh <seed-id> [extra property ids...]
# Applies the seeded change to a scratch worktree (never to /repo), runs the quick check of the seed's property (and of the extra
# properties given) against it and records which obligations report a violation in seeded/<id>/caught.txt.
S="$1"; shift
P=$(echo "$S" | cut -d- -f1)
WT=${SEED_WT:-/tmp/mut}
[ -d $WT ] || git -C /repo worktree add -q --detach $WT HEAD
cd $WT && git checkout -q -- . && git checkout -q --detach "$(git -C /repo rev-parse HEAD)" || exit 2
git apply /verif/seeded/$S/patch.diff || { echo "patch does not apply on $(git -C /repo rev-parse --short HEAD)" > /verif/seeded/$S/caught.txt; exit 2; }
cd /verif
: > seeded/$S/caught.txt
echo "tree: /repo $(git -C /repo rev-parse --short HEAD) + seeded/$S/patch.diff" >> seeded/$S/caught.txt
for Q in $P "$@"; do
  EMINUS_REPO=$WT ./check $Q --no-evidence > /tmp/catch_${S}_$Q.log 2>&1; RC=$?
  echo "check $Q: exit $RC" >> seeded/$S/caught.txt
  grep "^VIOLATION\|^UNDECIDED" /tmp/catch_${S}_$Q.log | sed 's#/verif/replays/##' >> seeded/$S/caught.txt
done
cd $WT && git checkout -q -- .
