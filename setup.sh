#!/bin/sh
# Build the overlay venv for the checks: python3.12 venv + offline wheels (z3-solver, cvc5, jsonschema),
# with a .pth that exposes /venv's site-packages (numpy, scipy, sympy, mpmath, eminus' own deps).
set -e
cd "$(dirname "$0")"
if [ ! -x .venv/bin/python ] || ! .venv/bin/python -c "import z3, cvc5, jsonschema, numpy, mpmath" 2>/dev/null; then
  rm -rf .venv
  /venv/bin/python -m venv .venv
  PIP_NO_INDEX=1 .venv/bin/pip install -q --no-index --find-links /opt/veriftools/wheels z3-solver cvc5 jsonschema
  echo "import site; site.addsitedir('/venv/lib/python3.12/site-packages')" > .venv/lib/python3.12/site-packages/_eminus_venv.pth
fi
.venv/bin/python -c "import z3, cvc5, jsonschema, numpy, scipy, mpmath; print('setup ok: z3', z3.get_version_string())"
