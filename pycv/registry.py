"""Which contract modules generate the obligations of each property, plus per-property evidence texts."""

from __future__ import annotations

import importlib

from . import framework as fw

BASE_TRUST = [
    "CPython 3.12 + ast (the traced control flow is executed by CPython)",
    "pycv loader transformations (exact literals, math/backend shims) - see pycv/loader.py docstring",
    "floats treated as exact reals",
]

PROPERTIES = {
    "C02": dict(
        modules=["contracts.c02"],
        level="proof",
        trusted_base=BASE_TRUST + ["in-house exact-algebra normaliser (engine A)", "mpmath (refutation witnesses, constant signs)"],
        assumptions=["IEEE rounding is out of scope (reals)",
                     "identities hold where radicands/denominators are non-zero: n > 0, |zeta| < 1 (side conditions listed per obligation)",
                     "generic gradient (|grad n| != 0); zero-gradient and fully polarised points are covered by the special-value obligations only for finiteness"],
        explanation="each obligation is the identity vxc_s == d(n exc)/dn_s or d(n exc)/d(grad n_s)_c == 2 v_ss (grad n_s)_c + v_ud (grad n_s')_c "
                    "for the real function traced through the real get_xc with symbolic densities, proved as an identity in a tower of "
                    "algebraic/transcendental generators",
    ),
    "C08": dict(
        modules=["contracts.c08"],
        level="proof",
        trusted_base=BASE_TRUST + ["in-house exact-algebra normaliser (engine A)", "mpmath (refutation witnesses, constant signs)"],
        assumptions=["IEEE rounding is out of scope: 'same energies' is read as exact equality of the two code paths over the reals",
                     "identities hold where radicands/denominators are non-zero: n > 0, |zeta| < 1",
                     "generic gradient (|grad n| != 0)"],
        explanation="zeta=0 reduction, spin-swap symmetry and exchange spin scaling of every built-in functional, proved as exact identities "
                    "between two traced runs of the real get_xc in one generator universe",
    ),
}


def load(prop):
    spec = PROPERTIES[prop]
    for m in spec["modules"]:
        importlib.import_module(m)
    return [ob for ob in fw.REGISTRY.values() if ob.prop == prop]
