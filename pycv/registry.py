"""Which contract modules generate the obligations of each property, plus per-property evidence texts."""

from __future__ import annotations

import importlib

from . import framework as fw

BASE_TRUST = [
    "CPython 3.12 + ast (the traced control flow is executed by CPython)",
    "pycv loader transformations (exact literals, math/backend shims) - see pycv/loader.py docstring",
    "floats treated as exact reals",
]

PROPERTIES = {
    "C02": dict(
        engines="A",
        claim="For every built-in functional (through the real get_xc dispatch, both spin treatments, T = 0 and symbolic T > 0 for the KSDT "
              "family) the identities vxc_s = d(n exc)/dn_s and d(n exc)/d(grad n_s) = 2 v_ss grad n_s + v_ud grad n_s' are proved as exact "
              "identities in (n, zeta, grad n) for all admissible inputs, plus pointwise frame, masking at n = 0, exchange+correlation additivity "
              "of get_xc and finiteness at zeta = +-1 by IEEE special-value evaluation. Obligations whose exact proof exceeds the budget (listed "
              "by name in the evidence: the monolithic engine-A forms of the spin-polarised PBE correlation and of the finite-temperature LDAs at T > 0, "
              "whose identities are proved in modular form by engine S - see below -, and two finiteness clauses) are numerically pre-checked only and are "
              "NOT counted as discharged.",
        note="floats as exact reals; in-house algebra normaliser and loader transformations trusted (canary + numeric guard on every run); LDA "
             "correlation inside PBE correlation taken by contract (modular); generic gradient; side conditions n > 0, |zeta| < 1",
        modules=["contracts.c02", "contracts.c02_modular", "contracts.c02_thermal"],
        level="proof",
        trusted_base=BASE_TRUST + ["in-house exact-algebra normaliser (engine A)", "mpmath (refutation witnesses, constant signs)"],
        assumptions=["IEEE rounding is out of scope (reals)",
                     "identities hold where radicands/denominators are non-zero: n > 0, |zeta| < 1 (side conditions listed per obligation)",
                     "generic gradient (|grad n| != 0); zero-gradient and fully polarised points are covered by the special-value obligations only for finiteness"],
        explanation="each obligation is the identity vxc_s == d(n exc)/dn_s or d(n exc)/d(grad n_s)_c == 2 v_ss (grad n_s)_c + v_ud (grad n_s')_c "
                    "for the real function traced through the real get_xc with symbolic densities, proved as an identity in a tower of "
                    "algebraic/transcendental generators",
    ),
    "C08": dict(
        engines="A",
        claim="For all 14 spin-polarised built-in functionals: the polarised code path with identical spin channels equals the unpolarised one "
              "(exc, vxc_up = vxc_dw = vxc, (v_uu+v_ud+v_dd)/4 = vsigma), exchanging the spin channels of the input exchanges the outputs, and the "
              "exchange functionals obey the spin-scaling relation - each proved as an exact identity for all densities/gradients. The SCF-level "
              "clauses (half gradient, densities of duplicated orbitals) are not part of this check yet.",
        note="floats as exact reals ('same' = exact equality of the two code paths over the reals, round-off excluded); bridged (Libxc) "
             "functionals are outside (external binary); in-house normaliser trusted (canary on every run)",
        modules=["contracts.c08"],
        level="proof",
        trusted_base=BASE_TRUST + ["in-house exact-algebra normaliser (engine A)", "mpmath (refutation witnesses, constant signs)"],
        assumptions=["IEEE rounding is out of scope: 'same energies' is read as exact equality of the two code paths over the reals",
                     "identities hold where radicands/denominators are non-zero: n > 0, |zeta| < 1",
                     "generic gradient (|grad n| != 0)"],
        explanation="zeta=0 reduction, spin-swap symmetry and exchange spin scaling of every built-in functional, proved as exact identities "
                    "between two traced runs of the real get_xc in one generator universe",
    ),
    "C19": dict(
        engines="Z",
        claim="Class invariants 'is_built / is_filled implies every derived field equals what build() / fill() computes from the current inputs' "
              "for KPoints, Occupations and Atoms, proved for every public setter and helper by symbolic execution of the real method bodies "
              "(callee contracts at the Atoms level); by induction this covers every mutation history of any length. Persistence of trs / set_k / "
              "recenter through build() is proved separately. Two genuine defects are recorded as known findings (explicit fillings and "
              "negative magnetisation are lost by a rebuild). SCF level (contracts/c19_scf.py): after SCF.pot / xc / atoms / pot_params / recenter the potential "
              "data (pot, psp, gth, Vloc) are what the real pot setter computes from the current atoms, functional type and parameters (GTH default family, "
              "all-electron potential, user-given pseudopotential path).",
        note="un-modelled computations are uninterpreted deterministic functions of the values they read; no aliasing between arrays of different "
             "objects; bandpath taken by its C15 contract (exactly max(Nk, N_special) points); z3 and the in-house symbolic executor trusted (canary on every run)",
        modules=["contracts.c19", "contracts.c19_scf"],
        level="proof",
        trusted_base=["ast (parser)", "in-house AST->z3 symbolic executor (engine Z, pycv/wp)", "z3 5.1"],
        assumptions=["every computation the engine does not interpret (numpy calls, arithmetic on arrays, summarised loops) is a "
                     "deterministic function of exactly the values it reads (uninterpreted function); listed per obligation as assumed_pure",
                     "no aliasing between array-valued fields of different objects (numpy's asarray may share memory)",
                     "None-ness of kmesh/path is enumerated by cases (mesh mode, band-path mode)"],
        explanation="class invariants 'flag => derived fields equal what build()/fill() computes from the current inputs' proved per public "
                    "member by symbolic execution of the real class ASTs; induction over the call sequence covers every history",
    ),
    "C15": dict(
        engines="AZ",
        claim="Monkhorst-Pack and Gamma-centred generators: one row per index triple, all rows in one reciprocal cell, pairwise distinct, "
              "inversion symmetric / containing Gamma, for ALL mesh sizes (generic index rows, index helper by contract); Cartesian conversion "
              "satisfies k.a_i = 2 pi kappa_i for a symbolic non-symmetric 3x3 lattice; equal weights summing to one; band-path point count, "
              "sampling non-negativity and time-reversal weight bookkeeping for symbolic Nk and segment lengths (see evidence for what is bounded).",
        note="np.indices(...).transpose(1,2,3,0).reshape(-1,3) is an assumed contract (C-ordered list of all index triples); floats as reals; "
             "np.round as round-half-even; in-house engines trusted (canaries on every run)",
        modules=["contracts.c15", "contracts.c15_path"],
        level="proof",
        trusted_base=BASE_TRUST + ["in-house exact-algebra normaliser (engine A)", "z3 5.1 (NRA/LIA)"],
        assumptions=["np.indices contract (index rows 0 <= m_c < n_c, each exactly once)", "floats as exact reals"],
        explanation="generic-row tracing of the real mesh generators; range/injectivity obligations on the traced polynomials discharged by z3",
    ),
    "C03": dict(
        engines="N",
        claim="The real operators O, L, Linv, K, I, J, Idag, Jdag (through the real handle_k / handle_spin decorators) are executed on symbolic "
              "matrices with SYMBOLIC dimensions (any grid, any cut-off sphere, any number of states): O = Omega, L = -Omega |G+k|^2 with the "
              "right basis, Linv its pseudo-inverse with a zero G=0 component, K (1+|G+k|^2) = 1, J I = 1 / I J = 1 (full basis), "
              "J(full=False) I = 1 (cut-off basis), exact adjoint laws for Idag / Jdag incl. full=False, and per-k / per-spin dispatch. "
              "Plane-wave convention, index matrices and the translation operator are separate engine-A obligations (see evidence).",
        note="the FFT is an assumed contract (DFT matrix, F Fbar = N, scipy's norm modes); gather/scatter on the cut-off sphere as S^H S = 1; "
             "the symbolic Atoms state (Gk2, Gk2c, active, Omega) is the state contract of Atoms.build; in-house NC normaliser trusted (canary)",
        modules=["contracts.c03", "contracts.c03_sample"],
        level="proof",
        trusted_base=BASE_TRUST + ["in-house non-commutative normaliser (engine N)"],
        assumptions=["scipy.fft.fftn/ifftn = multiplication by the DFT matrix with the documented norm scalings (assumed contract 'fft')",
                     "floats as exact complex numbers"],
        explanation="operator identities proved as equalities of normal forms in a typed non-commutative *-algebra",
    ),
    "C04": dict(
        engines="NA",
        claim="orth and orth_unocc (real code, real decorators) on symbolic matrices of symbolic size: Y^H O Y = 1, idempotence, span "
              "preservation (Y sqrtm(U) = W), D^H O D = 1 and D^H O Y_occ = 0, for every k-point and spin channel. Density / kinetic-energy-"
              "density clauses: the real get_n_spin / get_n_total / get_n_single / get_tau / get_Ekin traced with symbolic complex coefficients, "
              "fillings, weights, G, k on an exact 4-point transform (3 plane waves, 2 k-points, 2 spins, 2 states): positive-weight sums of "
              "squares, total = sum of spin = sum of single-orbital densities, integral = sum_k wk sum f (Y^H O Y)_ii, integral of tau = get_Ekin.",
        note="sqrtm / inv are assumed contracts (principal root of a Hermitian positive matrix); conditioning in floating point is out of scope",
        explanation="normal-form equality in a typed non-commutative *-algebra with the sqrtm/inv contracts as oriented rewrite rules",
        modules=["contracts.c04_c05_c01_c11", "contracts.c04_density"],
        level="proof",
        trusted_base=BASE_TRUST + ["in-house non-commutative normaliser (engine N)"],
        assumptions=["assumed contracts of sqrtm / inv / fft (listed per obligation)", "floats as exact complex numbers",
                     "the symbolic Atoms/SCF state is the state contract of Atoms.build / SCF (Gk2c, active, Omega, real Vloc, symmetric h)"],
    ),
    "C05": dict(
        engines="N",
        claim="The real H (kinetic + local + GTH non-local, LDA-type real potentials) is additive, homogeneous and Hermitian on the cut-off "
              "basis of every k-point and spin channel for symbolic sizes; get_Eband is the k-weighted trace of the subspace Hamiltonian. "
              "GGA gradient correction (real Veff on even grids), tau term, eigenvalue ordering, Ritz bound and DOS are not covered here.",
        note="FFT by contract; Hermiticity needs real Vloc/vxc/phi_r and symmetric h (pre-conditions, the latter is the read_gth post-condition); "
             "canary: asymmetric h must not be provably Hermitian",
        explanation="<a|Hb> - <Ha|b> normalises to 0 in the operator algebra",
        modules=["contracts.c04_c05_c01_c11", "contracts.c05_dos"],
        level="proof",
        trusted_base=BASE_TRUST + ["in-house non-commutative normaliser (engine N)"],
        assumptions=["assumed contracts of sqrtm / inv / fft (listed per obligation)", "floats as exact complex numbers",
                     "the symbolic Atoms/SCF state is the state contract of Atoms.build / SCF (Gk2c, active, Omega, real Vloc, symmetric h)"],
    ),
    "C01": dict(
        engines="N",
        claim="Structural clauses of the gradient: for constant fillings W^H get_grad(W) = 0 (orthogonality to the span) and get_grad is "
              "proportional to f wk, proved on the real get_grad with H and Q taken by contract (Hermitian linear map; linear map). The "
              "derivative relation slope = 2 Re<grad, D> for the non-linear total energy is NOT proved (only evaluated natively on replay).",
        note="H by its C05 contract, Q by linearity; sqrtm/inv contracts; the chain-rule composition to the total energy is outside",
        explanation="normal-form equality in the operator algebra",
        modules=["contracts.c04_c05_c01_c11", "contracts.c02"],
        level="proof",
        trusted_base=BASE_TRUST + ["in-house non-commutative normaliser (engine N)"],
        assumptions=["assumed contracts of sqrtm / inv / fft (listed per obligation)", "floats as exact complex numbers",
                     "the symbolic Atoms/SCF state is the state contract of Atoms.build / SCF (Gk2c, active, Omega, real Vloc, symmetric h)"],
    ),
    "C11": dict(
        engines="N",
        claim="get_phi: L(phi) = -4 pi O J (n - mean n), zero mean, linear, |G|^2 phi_G = 4 pi n_G (every G != 0, hence every single cosine); "
              "get_Ecoul = 1/2 <n, phi_r> = (2 pi Omega/N^2) sum_{G != 0} |n_G|^2/|G|^2 (non-negative, quadratic) - for symbolic grid and cell.",
        note="FFT by contract; |G|^2 enters as a diagonal operator that is singular exactly at index 0 (index-matrix contract)",
        explanation="normal-form equality in the operator algebra (pseudo-inverse of |G|^2 with an explicit INF term that the code must remove)",
        modules=["contracts.c04_c05_c01_c11"],
        level="proof",
        trusted_base=BASE_TRUST + ["in-house non-commutative normaliser (engine N)"],
        assumptions=["assumed contracts of sqrtm / inv / fft (listed per obligation)", "floats as exact complex numbers",
                     "the symbolic Atoms/SCF state is the state contract of Atoms.build / SCF (Gk2c, active, Omega, real Vloc, symmetric h)"],
    ),
    "C13": dict(
        engines="ZA",
        claim="Charge bookkeeping of the real Occupations setters for every state (Nelec' = Nelec + charge - charge'); the objective handed "
              "to the root finder in get_Efermi is the k-weighted electron count (loop invariant over k: any number of k-points, states, "
              "weights); call-site pre-condition of root_scalar (sign change over the bracket whenever a Fermi level exists); the Fermi "
              "function maps into (0,1) and is strictly decreasing; the entropy term is non-positive; integer/fractional filling loops: see "
              "evidence for which clauses are proved with loop invariants and which are bounded.",
        note="root_scalar is an assumed contract (requires a sign change, returns a root in the bracket); exp/log enter through monotonicity / "
             "sign lemmas; z3 and the in-house symbolic executor trusted (canary on every run)",
        modules=["contracts.c13"],
        level="proof",
        trusted_base=["ast (parser)", "in-house AST->z3 symbolic executor (engine Z)", "z3 5.1", "engine A for the Fermi function"],
        assumptions=["root_scalar contract", "log x < 0 on (0,1); Fermi function decreasing with F(0) = 1/2, F(x) + F(-x) = 1, F(36) < 1e-6 (exp lemmas)",
                     "floats as exact reals"],
        explanation="symbolic execution of the real setters / get_Efermi / electronic_entropy with loop invariants and callee contracts",
    ),
    "C12": dict(
        engines="ZA",
        claim="read_gth: for every well-formed file structure (complete enumeration of the structure space fixed by the array shapes) and all "
              "numeric values the parsed set is self-consistent (Zion, counts, upper triangle, symmetric h, zero padding), and the same "
              "post-conditions hold on every bundled file (exhaustive native run); GTH projectors equal the Hankel transforms of the published "
              "real-space forms and are normalised; local potential and its G=0 limit; real spherical harmonics; Coulomb / harmonic potentials "
              "(see evidence for the clauses present in this run).",
        note="number parsing (float/int of a token) is the identity on the token value; Gaussian-moment / Hankel / sphere-moment integral tables "
             "are assumed lemmas; floats as reals",
        modules=["contracts.c12_gth", "contracts.c12_proj", "contracts.c12_loc", "contracts.c12_nonloc"],
        level="proof",
        trusted_base=["ast (parser)", "in-house AST->z3 symbolic executor (engine Z)", "engine A for the closed forms"],
        assumptions=["float(token)/int(token) return the token's value", "assumed integral tables (listed per obligation)"],
        explanation="symbolic execution of the real parser over the complete structure space; exact-algebra comparison of the real projector code "
                    "with the transforms of the published forms",
    ),
    "C14": dict(
        engines="Z",
        claim="Each minimiser (sd, lm, pclm, cg, pccg, auto) with the real check_convergence, for ANY iteration cap Nit >= 1 (loop invariant): "
              "never more energy evaluations than Nit, one history entry per evaluation, the convergence flag is only set with >= 2 energies and "
              "|dE| < etol, and on the converged exit nothing is assigned to W after the last evaluation (stored state belongs to the returned "
              "coefficients); Energy.Etot is the sum of its fields; run() returns Etot after all contributions are stored and reports a flag set "
              "in this run. 'All schemes reach the same minimum' / 'local minimum' are optimisation outcomes no contract decides (not claimed).",
        note="cost / grad / preconditioner / dot products are uninterpreted (ghost evaluation counter on the cost stub); one k-point and one spin "
             "channel (inner loops unrolled); gradient-tolerance test only structurally; run()-level clauses are AST data-flow checks",
        modules=["contracts.c14"],
        level="proof",
        trusted_base=["ast (parser)", "in-house AST->z3 symbolic executor (engine Z)", "z3 5.1"],
        assumptions=["cost/grad are the callee contracts (scf_step changes the stored state and leaves W; get_grad is pure)",
                     "inner loops over k-points and spin channels unrolled for Nk = Nspin = 1"],
        explanation="symbolic execution of the real minimiser bodies with a ghost evaluation counter and loop invariants over the iteration",
    ),
    "C17": dict(
        engines="Z",
        claim="XYZ / POSCAR / CUBE writers followed by the readers return every atom with its species at its position and the cell, for "
              "SYMBOLIC coordinates and cell entries and for every iteration order of unordered collections (text kept symbolically, "
              "formatting/parsing of one number as an assumed inverse pair); foreign-format clauses (Direct coordinates, scaling) and JSON "
              "object hooks as listed in the evidence. Species lists are concrete instances (1, 3 and 4 atoms, unsorted); HDF5 and the "
              "'continues the SCF identically' clause are outside (bounded stand-in only).",
        note="float formatting/parsing is exact to the printed precision by assumption; numpy argsort/unique are executed natively on the concrete labels",
        modules=["contracts.c17"],
        level="proof",
        trusted_base=["ast (parser)", "in-house AST->z3 symbolic executor with symbolic text (engine Z)", "z3 5.1"],
        assumptions=["format/parse inverse pair ('float-format')", "species lists are concrete instances"],
        explanation="writer and reader executed symbolically on the same in-memory text",
    ),
    "C06": dict(
        engines="ZAB",
        claim="Rotation invariance of the projector sums: the real Ylm_real (all 16 (l, m), l <= 3) is traced on z3 real terms and the addition theorem "
              "sum_m Y_lm(G) Y_lm(G') = (2l+1)/(4 pi) P_l(cos angle) is proved for all generic G, G'. Lattice translations of single atoms: G_i . (n a) = "
              "2 pi (M_i . n) for the index rows of the real Atoms code, so every structure factor is unchanged (lemma exp(2 pi i n) = 1). Whole-calculation "
              "statements (all energy components under rotations of cell + positions, atom permutations, lattice / grid translations) are not decidable by a "
              "contract on single functions: bounded native comparisons, labelled bounded.",
        note="generic directions (|G| > eps, |G_x| > eps); the special branches of Ylm_real are evaluated at the special points by the bounded native check",
        modules=["contracts.c06"],
        level="proof",
        trusted_base=["CPython (executes the traced control flow)", "z3 5.1 (nlsat)", "loader re-compilation of eminus.utils (exact literals)"],
        assumptions=["defining constraints of norm / sqrt / arctan2 / sin / cos (r^2 = x^2+y^2+z^2, r > 0; angle addition formulas)", "exp(2 pi i n) = 1 for integer n",
                     "floats as reals"],
        explanation="the real function executed on z3 terms with defining constraints; polynomial identities discharged by z3's non-linear real arithmetic",
    ),
    "C07": dict(
        engines="AB",
        claim="On the exact small transform (symbolic coefficients, fillings, weights, G, k): density, spin densities, kinetic-energy density and Ekin "
              "are invariant under reordering the k-points with all per-k tables, and Ekin(k, W) = Ekin(-k, conj W(-G)). Equality of full band spectra at "
              "k, k + G0, -k and of a k-mesh calculation with the supercell Gamma-point calculation are whole-calculation statements that contracts on "
              "single functions do not decide: bounded native comparisons (dense H eigenvalues; per-contribution energies mesh vs supercell; permuted "
              "weighted k-points), labelled bounded. Related proved clauses: C03 (|G+k|^2 masks, L), C04 (weights in density / tau), C05 (k-weighted band "
              "energy), C12 (projectors as functions of |G+k|), C15 (meshes, k.a = 2 pi kappa, weights).",
        note="the symbolic instance is small (4-point transform, 3 plane waves, 2 k-points); numpy-structural assumption as in C04",
        modules=["contracts.c07"],
        level="proof",
        trusted_base=["CPython (executes the traced control flow)", "in-house exact-algebra normaliser (engine A)"],
        assumptions=["floats as reals", "index-generic numpy operations ('numpy-structural')"],
        explanation="exact-algebra tracing of the real density / tau / Ekin code under a permutation of the per-k tables",
    ),
    "C09": dict(
        engines="AZ",
        claim="'Agrees with Libxc for all inputs' is decided against spec functions: the published closed forms of LDA exchange, PW92 (both "
              "parameter sets), VWN5, PBE / PBEsol exchange and correlation, written independently of the repository. The energy density of the real "
              "functional (through the real get_xc) is proved equal to the spec for all densities, polarisations and non-parallel spin gradients (the "
              "potentials follow from C02). The Libxc bridge (pylibxc and PySCF paths) is executed on arrays of distinct symbols with a stand-in for the "
              "external library that checks its documented array conventions: every component is handed over and returned in the right slot. Bounded "
              "stand-ins (labelled bounded): all twelve built-ins with a Libxc twin against the real Libxc (through PySCF, which is importable here) over "
              "11 orders of magnitude in n, |zeta| < 0.998, independent gradient directions, s in [1e-2, 50]; SCF energy and gradient built-in vs bridge. "
              "The Chachiyo and finite-temperature closed forms are not written as spec functions (bounded comparison only).",
        note="the external libraries' array conventions are an assumed contract; the spec functions are part of the trusted base",
        modules=["contracts.c09", "contracts.c02"],
        level="proof",
        trusted_base=["CPython (executes the traced control flow)", "in-house exact-algebra normaliser (engine A)", "the spec functions in contracts/c09.py (published closed forms)"],
        assumptions=["pylibxc: rho / sigma / tau flattened point-major with spin (uu, ud, dd) fastest; outputs zk (N,1), vrho (N,Nspin), vsigma (N,1|3), vtau (N,Nspin)",
                     "pyscf eval_xc: rho[(spin,) component, point] with components (n, dx, dy, dz, lapl, tau); vxc = (vrho (N,Nspin), vsigma (N,1|3), vlapl, vtau)",
                     "floats as reals; generic inputs"],
        explanation="exact-algebra comparison of the traced energy density with an independent closed form; symbolic data-movement check of the bridge",
    ),
    "C10": dict(
        engines="ZB",
        claim="The real get_Eewald is executed with symbolic positions and charges on concrete cells (cubic, triclinic; 2 and 3 atoms; erfc / cos / exp / "
              "norm uninterpreted, images enumerated by the real code): invariance under rigid translation and atom permutation, and quadratic scaling "
              "with the charges are proved. That the truncated sums equal the CONVERGED lattice sum (independence of gcut/gamma, single-atom lattice "
              "translations, supercell additivity, 1/L scaling, Madelung constants, skewed cells) is a statement about infinite sums that no contract on "
              "this function decides: bounded native comparisons against an independent Ewald implementation only.",
        note="the proved clauses are for the listed cells and atom numbers (the pair-loop body does not depend on them); image-count arithmetic is executed "
             "natively on the concrete cell",
        modules=["contracts.c10"],
        level="proof",
        trusted_base=["ast (parser)", "in-house AST->z3 symbolic executor (engine Z)", "z3 5.1", "numpy for the concrete lattice-image enumeration"],
        assumptions=["erfc, cos, exp, vector norm: uninterpreted (only functionality is used)", "floats as reals"],
        explanation="symbolic execution of the real pair loops; equalities of sums of uninterpreted terms discharged by z3",
    ),
    "C16": dict(
        engines="NAZ",
        claim="The real get_FLO, get_scdm and get_wannier are traced on symbolic matrices (symbolic grid size and number of states): the returned "
              "orbitals are orthonormal and have the density matrix of the orbitals they are built from (assumed contracts: eig of a Hermitian positive "
              "overlap, Q of a pivoted QR is unitary, expm of an anti-Hermitian matrix is unitary); the Wannier gradient is proved anti-Hermitian and the "
              "rows of the Fermi-orbital matrix R normalised for generic complex input (engine A, small concrete numbers of states); get_Esic is proved to "
              "store sum_i w_i (E_H[n_i/w_i] + E_xc[n_i/w_i, 0; Nspin=2]) by symbolic execution. The one-electron clause (E_H + E_xc + E_sic = 0) is refuted "
              "on the pinned tree: the code ADDS the self-interaction energy (known finding).",
        note="orthonormality of the input orbitals is a pre-condition (post-condition of orth, C04); FOD sets are assumed non-degenerate (R invertible, S positive definite)",
        modules=["contracts.c16"],
        level="proof",
        trusted_base=["CPython (executes the traced control flow)", "in-house non-commutative normaliser (engine N)", "in-house exact-algebra normaliser (engine A)",
                      "in-house AST->z3 symbolic executor (engine Z)", "z3 5.1"],
        assumptions=["linalg.eig of a Hermitian positive definite matrix returns S = V D V^H with V unitary, D > 0 (degenerate eigenvalues: eigenvectors assumed orthonormalised)",
                     "scipy.linalg.qr(pivoting=True) returns a unitary Q", "expm(A) is unitary and expm(-A) = expm(A)^H for anti-Hermitian A",
                     "get_Ecoul / get_Exc / get_n_single taken as uninterpreted functions in the get_Esic clause"],
        explanation="operator-algebra tracing of the real localizer code; symbolic execution of the real get_Esic",
    ),
    "C20": dict(
        engines="ZB",
        claim="Reproducibility as a frame condition: every site of the package where iteration order of unordered collections, random numbers, "
              "uninitialised memory, the clock / identities / environment or threads can enter a result is enumerated from the current source on "
              "every run and matched with a checked disposition. Loops over sets are proved order-independent by the adjacent-swap lemma on the "
              "real loop body (any number of species); pseudo_uniform is proved to assign every element (all sizes) and to stay in [0,1) (all seeds); "
              "the seeded guesses are proved to depend only on the seed, Nspin, Nstate and the number of plane waves per k-point (non-interference); "
              "get_wannier draws from its seed parameter. Bit-identity across interpreters / FFT worker counts is NOT decidable by a contract on this "
              "repository (scipy.fft, BLAS): bounded native stand-ins only, labelled bounded.",
        note="floating-point addition is treated as real addition in the order-independence proofs (the property asks for agreement to round-off across hash "
             "seeds); scipy.fft / BLAS determinism across thread counts is an assumed contract",
        modules=["contracts.c20"],
        level="proof",
        trusted_base=["ast (parser)", "in-house AST->z3 symbolic executor (engine Z, pycv/wp)", "z3 5.1", "the source scanner's list of non-determinism sources (contracts/c20.py) is complete for CPython + numpy"],
        assumptions=["numpy Generator(SFC64(seed)) streams are a function of the seed and of the sequence of drawn shapes ('rng')",
                     "scipy.fft with workers=n and BLAS return bit-identical results for every n (only checked by the bounded native stand-in)",
                     "every un-interpreted numpy call is a deterministic function of its arguments",
                     "float + is real + for the order-independence clause"],
        explanation="source inventory + per-site obligations (adjacent-swap lemma, loop-nest coverage VC, loop invariant, non-interference by symbolic execution)",
    ),
}


# ------------------------------------------------------------------------------------------------
# claim texts brought up to date with the obligations added later (fragment of the older text -> its replacement)
# ------------------------------------------------------------------------------------------------
CLAIM_UPDATES = {
    "C01": ("The derivative relation slope = 2 Re<grad, D> for the non-linear total energy is NOT proved (only evaluated natively on replay).",
            "For general diagonal fillings the two analytic components of the gradient ((1-P) g and W^H g = wk U^1/2 Q([Ht, F])), the Sylvester equation solved by Q (eigh contract), "
            "get_grad_occ = wk (1 - O Y Y^H) H Y and the reads-frame of H_precompute (it reads scf.atoms / xc / xc_type / xc_params only: no stale state of the SCF object) are proved. "
            "The derivative relation slope = 2 Re<grad, D> for the non-linear total energy itself is NOT proved: bounded native stand-ins (labelled bounded) per functional family "
            "(LDA, PBE, PBEsol, SCAN / TPSS through the Libxc bridge), external potential (GTH, Coulomb, long-range, harmonic, Ge), spin treatment, smeared fillings with weighted k-points, "
            "occupied- and empty-band minimisation at fixed Hamiltonian, and the keyword-less call. Open findings: on coarse EVEN FFT samplings the relation fails (KNOWN_FINDINGS.json)."),
    "C05": ("GGA gradient correction (real Veff on even grids), tau term, eigenvalue ordering, Ritz bound and DOS are not covered here.",
            "Hermiticity is proved (a) under the pre-condition that the real-space image of the Hartree field is real and (b) for an ARBITRARY complex reciprocal-space field - (b) is refuted on the "
            "pinned tree (open finding: coarse even samplings). get_psi / get_epsilon: orthonormal rotation diagonalising the subspace Hamiltonian, eigenvalues invariant under invertible mixing "
            "(eigh / similarity / interlacing lemmas assumed). get_dos: k-weighted sum of unit-area Gaussians over every state of every k-point on an energy window that holds every state with a "
            "margin of five widths (engine Z). Bounded: Hermiticity with a GGA on the default even grid; ascending unoccupied eigenvalues of the subspace Hamiltonian and the Ritz bound."),
    "C09": ("The Chachiyo and finite-temperature closed forms are not written as spec functions (bounded comparison only).",
            "The Chachiyo and finite-temperature closed forms are not written as spec functions (bounded comparison only). The name tables (Libxc numbers, shorthands, aliases) select the "
            "functional whose docstring claims that Libxc entry, and the claims agree with the Libxc table shipped with PySCF (exhaustive over the finite tables)."),
    "C11": ("(non-negative, quadratic) - for symbolic grid and cell.",
            "(non-negative, quadratic) - for symbolic grid and cell, with Omega > 0 taken as given; that the Atoms.a setter establishes Omega = |det a| for right- and left-handed "
            "lattice matrices (and Ecoul >= 0, independent of the order of the lattice vectors) is a bounded native stand-in."),
    "C12": ("Coulomb / harmonic potentials (see evidence for the clauses present in this run).",
            "Coulomb / long-range Coulomb / harmonic potentials as Fourier transforms of their real-space forms; init_gth_nonloc: prj2beta is a bijection onto the columns and the column it "
            "addresses for (atom, l, m, i) is (-i)^l Ylm_real(l, m) p_i^l(|G + k|) Sf(atom) for every projector structure with lmax <= 3 and up to three projectors per channel "
            "(symbolic execution, 3 atoms of 2 species, 2 k-points)."),
    "C13": ("integer/fractional filling loops: see evidence for which clauses are proved with loop invariants and which are bounded.",
            "fill(): integer, fractional and magnetisation branches with loop invariants stated over ROLES read off the loop's AST (any Nelec, spin, bands, smearing): sum of fillings = Nelec, "
            "0 <= f <= 2/Nspin, up - down = spin / magnetisation, and the STORED spin agrees with the fillings; occ.f = explicit array: Nelec, charge, Nstate, Nspin, spin follow from the array; "
            "smear(): fillings = (2/Nspin) fermi(epsilon, get_Efermi(self, epsilon), smearing), hence (callee contracts) k-weighted sum = Nelec and 0 <= f <= 2/Nspin."),
    "C15": ("time-reversal weight bookkeeping for symbolic Nk and segment lengths (see evidence for what is bounded).",
            "time-reversal weight bookkeeping for symbolic Nk and segment lengths. Bounded (the set of paths is infinite): special points visited in order, equidistant collinear points, "
            "k-axis with zero length at jumps for stated families of paths (2-8 special points, one or two jumps at different positions) x Nk; trs() over meshes up to 4x4x4 with shifts."),
    "C16": ("The one-electron clause (E_H + E_xc + E_sic = 0) is refuted on the pinned tree: the code ADDS the self-interaction energy (known finding).",
            "The one-electron clause (E_H + E_xc + E_sic = 0) is refuted on the pinned tree: the code ADDS the self-interaction energy (known finding); get_FLO is not orthonormal for "
            "degenerate overlaps (known finding). Bounded: Fermi orbitals are the normalised combinations sum_j R[i, j] psi_j of the occupied orbitals."),
    "C17": ("HDF5 and the 'continues the SCF identically' clause are outside (bounded stand-in only).",
            "TRAJ round trips (two frames, with FODs). HDF5: a per-k-point list of N arrays of different shapes is restored element by element in order for EVERY N (VC generated from "
            "the ASTs of write_hdf5 / read_hdf5 over a map model of an h5py group). 'Restores energies bit for bit and continues the SCF identically' (JSON, HDF5; multi-k, smearing): bounded native stand-ins."),
    "C20": ("bounded native stand-ins only, labelled bounded.",
            "bounded native stand-ins only, labelled bounded (separate interpreters under hash seeds / FFT worker counts; NaN poison; two junk patterns incl. integer arrays compared on results, "
            "whole-object JSON and array members; fresh interpreter vs the same calculation after unrelated earlier ones). The inventory also lists hidden state (S6): module-level containers that "
            "some function mutates, `global`, memoisation decorators, attributes stored on functions - none on the pinned tree."),
}
for _p, (_old, _new) in CLAIM_UPDATES.items():
    if PROPERTIES[_p]["claim"].count(_old) != 1:
        raise AssertionError(f"claim fragment of {_p} not found")
    PROPERTIES[_p]["claim"] = PROPERTIES[_p]["claim"].replace(_old, _new)


# sentences appended to the claims for obligations added in the later rounds (seeded changes / mutation sweep)
CLAIM_ADDENDA = {
    "C01": " Every engine-N obligation has a bounded native twin (real arrays, two k-points with weights 0.3 / 0.7) run on every check; the band-energy stand-ins use one and two spin channels.",
    "C02": " Also: get_exc / get_vxc forward every argument to get_xc and return the matching outputs (forwarding contract on the AST); no functional writes to its input arrays "
           "(writes-frame on the AST); finiteness at zeta = +-1 also with a non-zero gradient in the empty channel (GGAs). An identity that stays undecided within the budget is additionally "
           "evaluated natively on a fixed scan: only a failing point changes the verdict (to refuted), a pass leaves it undecided. The PBE / PBEsol correlation identities are ALSO proved modularly "
           "(engine S: chain rule over the function's own intermediate variables, symbolic beta; get_xc call-site contract; LDA part by callee contract; PBEsol wrapper contract on the AST): spin-paired in the quick tier, "
           "spin-polarised (1-9 minutes each) in the thorough tier only. The finite-temperature LDAs (KSDT, corrected KSDT, GDSMFB; T > 0, both spin treatments) are proved function by function (engine S): "
           "each of the 21 hand-written derivative helpers of lda_xc_ksdt.py against the derivative of its partner (callees by contract), then lda_xc_ksdt_spin over its own locals with the helper results opaque, "
           "wrappers and coefficient classes on the AST, coefficients symbolic.",
    "C03": " Every engine-N obligation has a bounded native twin on real objects (triclinic cell, anisotropic sampling, two weighted k-points).",
    "C04": " The symbolic instance is also run with exactly empty states below occupied ones; bounded native twins (scale invariance of orth from 1e-9 to 1e4, badly conditioned W, tiny-norm unoccupied sets).",
    "C05": " Bounded: Hermiticity of the ionic part alone on a coarse even grid; unoccupied eigenvalues for identical fillings with different orbitals per spin; native twins with unequal k-point weights.",
    "C06": " Bounded: Ylm_real on axis / plane directions (the Gx = 0 branch: continuity and the addition theorem for all pairs), systems with non-local projectors of two species, "
           "moves of one atom by several lattice vectors, rotated copies.",
    "C07": " Bounded: a k-point of weight 3/4 equals the same k-point three times with weight 1/4 (every energy contribution incl. the band energy; PBE and, with PySCF, TPSS: the kinetic "
           "energy density carries the weights), kinetic energy from cut-off vs zero-padded full-basis coefficients at k != 0.",
    "C08": " The swap symmetry is also evaluated AT the fully polarised points per functional (open finding: the thermal LDAs); the closed-shell stand-in runs ten exchange / correlation pairs "
           "through get_xc on a system with non-local projectors.",
    "C10": " Bounded: the Ewald energy stored by an SCF object is the lattice sum of its CURRENT geometry after the atoms were replaced; left-handed lattice-vector orders; skewed lower-triangular cells.",
    "C12": " The local potential is traced for three atoms of two species with symbolic structure factors (sum over atoms of form factor x structure factor); read_gth raising on a bundled file is a violation. Writes-frame (AST): no function of eminus.potentials / eminus.gth stores in place into a parameter or a possible view of one. Bounded: a second and third evaluation on the same SCF object leave structure factors and Vloc unchanged.",
    "C13": " fill(f) with explicit scalar fillings 2/3, 3/2, 5/4, 3/4 (open findings for f < 1 with two spin channels); every path of get_Efermi with a positive width reaches the root finder. "
           "Bounded: smear() through the real root finder for widths 1e-3 .. 2 (sum, range, fillings = Fermi function at the returned level); float64 scan of the entropy term.",
    "C14": " lm / cg are the unpreconditioned calls of pclm / pccg (wrapper contracts); with gradtol the converging path checks the gradient norms SUMMED over the k-points (shape of the decisive path-condition atom; another shape is replayed natively on a four-k-point system). Bounded: same minimum from two systems "
           "(one with two spin channels and weighted k-points), k-point / spin-channel equivariance of every scheme (open finding: first iteration on a fresh object), "
           "converged energy of auto vs the other schemes from the pseudo-random start (open finding: premature convergence).",
    "C15": " Bounded: six mutation histories of a KPoints object (trs() then a new mesh, weights set by hand then a new mesh, mesh mode then Nk and path, mesh - path - mesh, shift after trs(), Nk changed after a path) equal a fresh object with the same final inputs.",
    "C16": " Bounded: Fermi orbitals for non-uniform fillings; the orbital wrappers of eminus/orbitals.py localise the CURRENT coefficients of the SCF object.",
    "C17": " Foreign POSCAR files with the mode-line spellings the format definition allows (first letter decides: 'Cart', 'K', 'D', 'Direct coordinates', 'Selective Dynamics'): every position assigned and right. Bounded: CUBE files with FODs and trailing lines; Gamma-only restart (lists of one array).",
    "C19": " Bounded histories: Atoms setters (a, ecut, s, pos) with custom k-points, recenter / set_k helpers, SCF histories (pot_params set / reset, geometry replaced between two runs, "
           "recenter of a converged run by a grid vector) equal fresh objects with the same final inputs.",
    "C20": " Bounded: seeded guesses for seeds 0, 1, 11, 2^40 + 3 depend on the seed and the basis size only (native twins); open-shell Fermi orbitals under NaN poison; an undecided "
           "coverage VC of an allocation site that is not in the baseline is reported (exit 2). Coverage VCs also cover if / else stores, enumerate over symbolic slices, empty_like under a producer contract with a case split over the spin treatment, and columns "
           "written through a running index whose bound was counted by a loop nest with the same headers (counting lemma, syntactic premises checked every run). A set that is handed to zip / enumerate instead of a for statement is outside the set-order lemma (native forced-order replay decides).",
}
for _p, _add in CLAIM_ADDENDA.items():
    PROPERTIES[_p]["claim"] = PROPERTIES[_p]["claim"].rstrip() + _add


def _native_twins(prop):
    """Every symbolic obligation of engines N / A that carries a native evaluation of the same contract (used as its replay) also gets a BOUNDED
    twin that runs that evaluation on every run: the symbolic proof takes the object's tables (|G|^2, masks, volume, real potentials ...) by state
    contract, the twin evaluates the contract on real objects built by the tree under check."""
    import json
    import pathlib

    known = set()
    try:
        kf = json.loads((pathlib.Path(__file__).resolve().parent.parent / "KNOWN_FINDINGS.json").read_text())
        known = {f["obligation"] for f in kf.get("findings", []) if f.get("status") == "open"}
    except Exception:  # noqa: BLE001
        pass
    for ob in list(fw.REGISTRY.values()):
        run = ob.run
        nat = getattr(run, "nat", None)
        if ob.prop != prop or ob.canary or ob.bounded or nat is None or type(run).__name__ != "NOb" or ob.name in known:
            continue
        name = ob.name + ".native_instance"
        if name in fw.REGISTRY:
            continue
        from contracts.c04_c05_c01_c11 import BoundedNative

        fw.register(fw.Obligation(name=name, prop=prop, engine="B", bounded=True, functions=list(ob.functions),
                                  run=BoundedNative(nat, 1, tol=1e-8, what=f"native evaluation of the contract of {ob.name}"), budget={"quick": 300, "thorough": 600},
                                  doc=f"BOUNDED twin of {ob.name}: the same contract evaluated natively on real objects (triclinic cell, two k-points, both spin treatments)"))


def load(prop):
    spec = PROPERTIES[prop]
    for m in spec["modules"]:
        importlib.import_module(m)
    if any(m in ("contracts.c03", "contracts.c04_c05_c01_c11", "contracts.c16") for m in spec["modules"]):
        _native_twins(prop)
    return [ob for ob in fw.REGISTRY.values() if ob.prop == prop]
