"""Obligation registry, parallel runner, verdict accounting, evidence and replay files."""

from __future__ import annotations

import dataclasses
import importlib
import json
import multiprocessing as mp
import os
import pathlib
import sys
import time
import traceback

ROOT = pathlib.Path(__file__).resolve().parent.parent
REPLAYS = ROOT / "replays"
EVIDENCE = ROOT / "evidence"

DISCHARGED, REFUTED, UNDECIDED, ERROR, BOUNDED_OK = "discharged", "refuted", "undecided", "error", "bounded-ok"


@dataclasses.dataclass
class Result:
    verdict: str
    backend: str = ""
    detail: str = ""
    witness: dict | None = None  # concrete failing input (if any)
    replayed: bool | None = None  # True: reproduced natively; False: native run satisfies the post-condition
    replay_info: dict | None = None
    solver_output: str = ""
    time_s: float = 0.0
    stats: dict | None = None
    side_conditions: list | None = None


@dataclasses.dataclass
class Obligation:
    name: str
    prop: str
    engine: str  # "A" exact algebra, "Z" AST->SMT, "N" operator algebra, "X" exhaustive finite, "B" bounded
    functions: list  # ["eminus.xc.lda_x:lda_x", ...] functions under contract
    run: object  # callable(ob, tier, seed) -> Result
    tiers: tuple = ("quick", "thorough")
    budget: dict = dataclasses.field(default_factory=lambda: {"quick": 60, "thorough": 600})
    bounded: bool = False  # bounded stand-in: never counted as proved
    doc: str = ""
    assumes: tuple = ()  # names of assumed contracts / lemmas used
    canary: bool = False  # deliberately false post-condition: must be refuted


REGISTRY: dict[str, Obligation] = {}


def register(ob: Obligation):
    if ob.name in REGISTRY:
        raise KeyError(f"duplicate obligation {ob.name}")
    REGISTRY[ob.name] = ob
    return ob


CONTRACT_MODULES = {
    # property id -> contract modules that register its obligations
}


def load_contracts(prop):
    sys.path.insert(0, str(ROOT))
    for m in CONTRACT_MODULES.get(prop, []):
        importlib.import_module(m)
    return [ob for ob in REGISTRY.values() if ob.prop == prop]


# ------------------------------------------------------------------------------------------------
# running
# ------------------------------------------------------------------------------------------------


def _child(ob_name, tier, seed, conn):
    t0 = time.time()
    try:
        # address-space limit per prover process: running out of memory is a resource limit (undecided), never a verdict
        try:
            import resource

            lim = int(float(os.environ.get("VERIF_MEM_GB", "10")) * 2**30)
            resource.setrlimit(resource.RLIMIT_AS, (lim, lim))
        except (ImportError, ValueError, OSError):
            pass
        ob = REGISTRY[ob_name]
        res = ob.run(ob, tier, seed)
        res.time_s = time.time() - t0
    except MemoryError:
        res = None
    except BaseException as e:  # noqa: BLE001
        try:
            tb_files = [fr.filename for fr in traceback.extract_tb(e.__traceback__)]
            repo = os.environ.get("EMINUS_REPO", "/repo")
            in_traced_code = bool(tb_files) and (tb_files[-1].startswith(repo) or tb_files[-1].startswith("<"))
            if in_traced_code and getattr(REGISTRY.get(ob_name), "engine", "") == "B" and isinstance(e, Exception) and type(e).__name__ not in ("OutsideSubset", "Undecided"):
                # a bounded NATIVE stand-in feeds real arrays to the real code: an exception raised inside the repository code is a failure of the
                # code on a concrete input (it does not raise on the unchanged tree), reported with the exception as the witness
                res = Result(REFUTED, backend="native", witness=dict(raised=f"{type(e).__name__}: {str(e)[:300]}"), replayed=True,
                             replay_info=dict(raised=f"{type(e).__name__}: {e}", traceback=traceback.format_exc()[-1500:]),
                             detail=f"the code under check raises on the concrete input of this bounded stand-in: {type(e).__name__}: {str(e)[:300]}", time_s=time.time() - t0)
            elif type(e).__name__ in ("OutsideSubset", "Undecided") or (
                    in_traced_code and isinstance(e, (TypeError, AttributeError, ValueError, IndexError, KeyError, NotImplementedError, ZeroDivisionError))):
                # the code under check left the modelled subset of an engine and the obligation has no native fallback of its own:
                # no proof on this tree - undecided, not a checker error
                # (also: an operation that the symbolic values of an engine do not support, raised inside the traced repository code)
                res = Result(UNDECIDED, detail=f"outside subset: {type(e).__name__}: {e}", time_s=time.time() - t0)
            else:
                res = Result(ERROR, detail=f"{type(e).__name__}: {e}\n{traceback.format_exc()[-3000:]}", time_s=time.time() - t0)
        except MemoryError:
            res = None
    try:
        if res is None:
            # out of memory: drop everything that can be dropped before talking to the parent
            import gc

            gc.collect()
            res = Result(UNDECIDED, detail="prover memory limit reached (VERIF_MEM_GB)", time_s=time.time() - t0)
        conn.send(dataclasses.asdict(res))
    except MemoryError:
        os._exit(86)  # exit code understood by the parent as "memory limit"
    finally:
        conn.close()


def _dead_worker(p):
    """A worker that was killed by a signal (the kernel's OOM killer, an external kill) ran into a resource limit: undecided.
    A worker that exits on its own without a result is a checker error."""
    code = p.exitcode
    if code is not None and (code < 0 or code == 86):
        return Result(UNDECIDED, detail=f"prover process ended by {'signal ' + str(-code) if code < 0 else 'its memory limit'} (memory / resource limit)")
    return Result(ERROR, detail=f"worker exited with code {code} without a result")


def run_obligations(obs, tier, seed, jobs=None, verbose=True):
    """Run each obligation in its own forked process with a hard timeout."""
    jobs = jobs or int(os.environ.get("VERIF_JOBS", "0")) or min(16, os.cpu_count() or 4)
    ctx = mp.get_context("fork")
    pending = list(obs)
    # longest budgets first
    pending.sort(key=lambda o: -o.budget.get(tier, 60))
    running = {}
    results = {}
    while pending or running:
        while pending and len(running) < jobs:
            ob = pending.pop(0)
            pc, cc = ctx.Pipe(duplex=False)
            p = ctx.Process(target=_child, args=(ob.name, tier, seed, cc), daemon=True)
            p.start()
            cc.close()
            # hard limit: budget for the prover plus slack for tracing / replay
            running[ob.name] = (p, pc, time.time(), ob.budget.get(tier, 60) * 6 + 180, ob)  # wall-clock safety net only: the provers budget themselves in CPU time
        time.sleep(0.02)
        for name in list(running):
            p, pc, t0, limit, ob = running[name]
            res = None
            if pc.poll():
                try:
                    res = Result(**pc.recv())
                except EOFError:
                    p.join(5)
                    res = _dead_worker(p)
                p.join(5)
            elif not p.is_alive():
                res = _dead_worker(p)
            elif time.time() - t0 > limit:
                p.terminate()
                p.join(5)
                if p.is_alive():
                    p.kill()
                res = Result(UNDECIDED, detail=f"hard timeout after {limit:.0f}s", time_s=time.time() - t0)
            if res is not None:
                pc.close()
                del running[name]
                results[name] = res
                if verbose:
                    print(f"  [{res.verdict:>10}] {name}  ({res.time_s:.1f}s {res.backend}) "
                          f"{'' if res.verdict == DISCHARGED else res.detail.splitlines()[0][:160] if res.detail else ''}",
                          flush=True)
    return results


# ------------------------------------------------------------------------------------------------
# known findings, baseline
# ------------------------------------------------------------------------------------------------


def load_known_findings():
    p = ROOT / "KNOWN_FINDINGS.json"
    if not p.exists():
        return []
    data = json.loads(p.read_text())
    return [f for f in data.get("findings", []) if f.get("status", "open") == "open"]


def load_baseline():
    p = ROOT / "OBLIGATIONS_BASELINE.json"
    if not p.exists():
        return {}
    return json.loads(p.read_text())


def match_finding(findings, prop, ob_name, res: Result):
    for f in findings:
        if f["property"] != prop or f["obligation"] != ob_name:
            continue
        sig = f.get("witness_signature")
        if sig:
            blob = json.dumps(res.witness or {}, sort_keys=True, default=str) + " " + (res.detail or "")
            if not all(s in blob for s in sig):
                continue
        return f
    return None


# ------------------------------------------------------------------------------------------------
# evidence / replay files
# ------------------------------------------------------------------------------------------------


def write_replay(prop, ob: Obligation, res: Result):
    REPLAYS.mkdir(exist_ok=True)
    path = REPLAYS / (ob.name.replace("/", "_over_") + ".json")
    path.write_text(json.dumps(dict(
        property=prop, obligation=ob.name, engine=ob.engine, functions=ob.functions, doc=ob.doc,
        verdict=res.verdict, witness=res.witness, replayed=res.replayed, replay_info=res.replay_info,
        solver_output=res.solver_output, detail=res.detail,
        repo=os.environ.get("EMINUS_REPO", "/repo"),
    ), indent=1, default=str))
    return path


def function_hashes(obs):
    from .loader import function_source

    out = {}
    for ob in obs:
        for f in ob.functions:
            if f in out:
                continue
            mod, _, qn = f.partition(":")
            try:
                _, h = function_source(mod, qn)
            except Exception as e:  # noqa: BLE001
                h = f"unresolved:{type(e).__name__}"
            out[f] = h
    return out
