"""Engine S: chain-rule verification of a straight-line numeric function over its OWN intermediate variables (sympy).

The function's AST (read from the tree under check on every run) is executed symbolically in single-assignment form: every assignment
`x = expr` introduces a symbol x_k with the recorded definition expr (over the earlier symbols); powers with non-integer exponents, exp and
log introduce ATOMS (r with r**d = base; E = exp(u); L = log(u)) that are never unfolded and carry their derivative rules

    D r = r / (d * base) * D base          D E = E * D u          D L = D u / u

Callee results taken by contract are opaque atoms with the derivative rule of the contract. A derivative identity "output_a == D(output_b)" is
decided by unfolding definitions from the top (latest first) until the residual cancels as a rational function of the symbols that are left -
treated as algebraically independent, which is sound (an identity in free symbols holds for every value they take) and stops far above the
fully expanded form: the identity usually closes at the level of the programmer's own locals. Only if nothing is left to unfold are the
root relations r**d = base used (polynomial reduction).

Subset: assignments (names / tuples), `with` blocks (body executed, context ignored), return, + - * / ** unary minus, numbers, math.pi,
math.log(constant), xp.exp / log / sqrt / abs, xp.linalg.norm(v, axis=1) of a 3-vector, xp.stack, xp.nan_to_num (identity at generic points),
indexing of small lists, calls of callee stubs. Everything else raises OutsideSubset.
Assumes: real arithmetic, generic points (no division by zero, arguments of roots / logs positive), numpy element-wise semantics.
"""
from __future__ import annotations

import ast
import time
from fractions import Fraction

import sympy as sp


class OutsideSubset(Exception):
    pass


class Undecided(Exception):
    pass


class Trace:
    def __init__(self, split_roots=False, positive_exprs=()):
        # split_roots: a root of a product of positive factors is the product of the roots of the factors (primes, pi, positive symbols, declared
        # positive expressions): equal quantities written differently ((3 / (4 pi n))**(1/3) and 6**(1/3) (1/n)**(1/3) / pi**(1/3) ...) get ONE normal form
        self.split_roots = split_roots
        self.positive_exprs = [sp.expand(sp.sympify(x)) for x in positive_exprs]
        self._funs = {}
        self._pows = {}
        self._opaque = {}
        self.defs = {}  # symbol -> definition (expr over earlier symbols)
        self.order = {}  # symbol -> creation index
        self.atoms = {}  # symbol -> ("root", base, d) | ("exp", u) | ("log", u) | ("opaque", rule)
        self.inputs = set()
        self.consts = set()
        self.n = 0
        self._roots = {}

    def fresh(self, name, positive=False):
        self.n += 1
        s = sp.Symbol(f"{name}__{self.n}", positive=(True if positive else None), real=True)
        self.order[s] = self.n
        return s

    def define(self, name, expr):
        if not isinstance(expr, sp.Expr):
            return expr
        if expr.is_Symbol or expr.is_Number:
            return expr
        s = self.fresh(name)
        self.defs[s] = expr
        return s

    def const(self, name):
        s = sp.Symbol(name, positive=True, real=True)
        self.consts.add(s)
        self.order.setdefault(s, 0)
        return s

    def inp(self, name, positive=False):
        s = sp.Symbol(name, positive=(True if positive else None), real=True)
        self.inputs.add(s)
        self.order.setdefault(s, 0)
        return s

    def unfold(self, e):
        """e with every local definition replaced by its defining expression (atoms stay)."""
        e = sp.sympify(e)
        while True:
            c = [x for x in e.free_symbols if x in self.defs]
            if not c:
                return e
            e = e.xreplace({x: self.defs[x] for x in c})

    def canon(self, e):
        """Key under which two argument expressions count as the same quantity."""
        if isinstance(e, (list, tuple)):
            return tuple(self.canon(x) for x in e)
        if isinstance(e, sp.Expr):
            return sp.expand(self.unfold(e))
        return e

    def known_positive(self, e):
        """True / False / None for the sign of e under the declared assumptions (positive inputs, positive_exprs)."""
        e = sp.expand(self.unfold(e))
        if e.is_positive:
            return True
        if e.is_negative or e.is_zero:
            return False
        for p in self.positive_exprs:
            if sp.expand(e - p) == 0:
                return True
            if sp.expand(e + p) == 0:
                return False
        f = sp.factor(e)
        if f.is_Mul:
            sign = 1
            for a in f.args:
                b, ex = a.as_base_exp()
                k = True if b.is_positive else (self.known_positive(b) if b.is_Add or b.is_Symbol else (False if b.is_negative else None))
                if k is None or not ex.is_Integer:
                    return None
                if k is False and int(ex) % 2:
                    sign = -sign
            return sign > 0
        return None

    def _root_atom(self, base, d):
        key = (base, d)
        r = self._roots.get(key)
        if r is None:
            r = self.fresh("root", positive=True)
            self.atoms[r] = ("root", base, d)
            self._roots[key] = r
        return r

    def _split_root(self, base, q):
        b = sp.factor(self.unfold(base))
        out = sp.Integer(1)
        for a in sp.Mul.make_args(b):
            f, e = a.as_base_exp()
            if not e.is_Integer:
                return None
            if f.is_Rational:
                if f <= 0:
                    return None
                for sign, part in ((1, f.p), (-1, f.q)):
                    for prime, mult in sp.factorint(part).items():
                        k = int(e) * mult * sign * q.p
                        out *= sp.Integer(prime) ** (k // q.q) * self._root_atom(sp.Integer(prime), q.q) ** (k % q.q)
                continue
            if f.is_Add:
                f = sp.expand(f)
            if self.known_positive(f) is not True:
                return None
            k = int(e) * q.p
            out *= f ** (k // q.q) * self._root_atom(f, q.q) ** (k % q.q)
        return out

    def root(self, base, q):
        """base ** q for rational non-integer q = p / d: atom r = base**(1/d), value r**p."""
        q = sp.Rational(q)
        base = sp.sympify(base)
        if self.split_roots:
            v = self._split_root(base, q)
            if v is not None:
                return v
        key = (base, q.q)
        r = self._roots.get(key)
        if r is None:
            r = self.fresh("root", positive=True)
            self.atoms[r] = ("root", base, q.q)
            self._roots[key] = r
        return r ** q.p

    def fun(self, kind, u):
        if self.split_roots:
            # memoised: the same function of the same quantity is the same atom; log 1 = 0, exp 0 = 1, tanh 0 = 0; log of a number is a named constant
            key = (kind, self.canon(u))
            if key[1] == (1 if kind == "log" else 0):
                return sp.Integer(0 if kind in ("log", "tanh") else 1)
            if kind == "log" and key[1].is_Rational and key[1] > 0:
                return self.const(f"log{key[1]}")
            s = self._funs.get(key)
            if s is None:
                s = self.fresh(kind, positive=(kind == "exp"))
                self.atoms[s] = (kind, sp.sympify(u))
                self._funs[key] = s
            return s
        s = self.fresh(kind, positive=(kind == "exp"))
        self.atoms[s] = (kind, sp.sympify(u))
        return s

    def power(self, base, expo):
        """base ** expo for a symbolic exponent (base > 0): atom P with D P = P (D expo log base + expo D base / base)."""
        kb, ke = self.canon(base), self.canon(expo)
        if kb == 1:
            return sp.Integer(1)
        if self.known_positive(base) is not True:
            raise OutsideSubset(f"power with a symbolic exponent of a base whose sign is not known: {base}")
        s = self._pows.get((kb, ke))
        if s is None:
            s = self.fresh("pow", positive=True)
            self.atoms[s] = ("pow", sp.sympify(base), sp.sympify(expo))
            self._pows[(kb, ke)] = s
        return s

    def opaque_memo(self, key, name, rule):
        s = self._opaque.get(key)
        if s is None:
            s = self.fresh(name)
            self.atoms[s] = ("opaque", rule)
            self._opaque[key] = s
        return s

    def opaque(self, name, rule):
        s = self.fresh(name)
        self.atoms[s] = ("opaque", rule)
        return s


class Deriv:
    """Total derivative along seeds {input symbol: value}; D of every symbol is itself a symbol with a one-level definition."""

    def __init__(self, tr: Trace, seeds, tag):
        self.tr, self.seeds, self.tag = tr, seeds, tag
        self.dsym = {}

    def of_symbol(self, s):
        tr = self.tr
        if s in self.seeds:
            return sp.sympify(self.seeds[s])
        if s in tr.inputs or s in tr.consts:
            return sp.Integer(0)
        d = self.dsym.get(s)
        if d is not None:
            return d
        if s in tr.defs:
            val = self.of_expr(tr.defs[s])
        elif s in tr.atoms:
            a = tr.atoms[s]
            if a[0] == "root":
                val = s / (a[2] * a[1]) * self.of_expr(a[1])
            elif a[0] == "exp":
                val = s * self.of_expr(a[1])
            elif a[0] == "log":
                val = self.of_expr(a[1]) / a[1]
            elif a[0] == "tanh":
                val = (1 - s**2) * self.of_expr(a[1])
            elif a[0] == "pow":
                val = s * (self.of_expr(a[2]) * tr.fun("log", a[1]) + a[2] * self.of_expr(a[1]) / a[1])
            else:
                val = a[1](self)
        else:
            raise OutsideSubset(f"no derivative rule for {s}")
        val = sp.sympify(val)
        if val.is_Number or val.is_Symbol:
            self.dsym[s] = val
            return val
        d = sp.Symbol(f"D{self.tag}_{s.name}", real=True)
        tr.order[d] = tr.order[s] + 0.5
        tr.defs[d] = val
        self.dsym[s] = d
        return d

    def of_expr(self, e):
        e = sp.sympify(e)
        out = sp.Integer(0)
        for s in e.free_symbols:
            ds = self.of_symbol(s)
            if ds != 0:
                out += sp.diff(e, s) * ds
        return out


# ------------------------------------------------------------------------------------------------
# symbolic execution of the function body
# ------------------------------------------------------------------------------------------------


def _rat(v):
    if isinstance(v, bool):
        raise OutsideSubset("boolean constant")
    if isinstance(v, int):
        return sp.Integer(v)
    if isinstance(v, float):
        return sp.Rational(str(v))
    raise OutsideSubset(f"constant {v!r}")


class Exec:
    def __init__(self, tr: Trace, callees=None):
        self.tr = tr
        self.callees = callees or {}

    def run(self, fn: ast.FunctionDef, args: dict):
        env = dict(args)
        r = self.block(fn.body, env)
        if r is None:
            raise OutsideSubset("no return value")
        return r[0]

    def block(self, body, env):
        for st in body:
            if isinstance(st, ast.Expr) and isinstance(st.value, ast.Constant):
                continue
            if isinstance(st, ast.Assign):
                if len(st.targets) != 1:
                    raise OutsideSubset("chained assignment")
                if isinstance(st.targets[0], ast.Attribute) and ast.unparse(st.targets[0]) == ast.unparse(st.value):
                    continue  # `p.theta = p.theta`: no effect on the value semantics
                self.assign(st.targets[0], self.ev(st.value, env), env)
            elif isinstance(st, ast.With):
                r = self.block(st.body, env)
                if r is not None:
                    return r
            elif isinstance(st, ast.Return):
                return (self.ev(st.value, env),)
            else:
                raise OutsideSubset(f"statement {type(st).__name__} (line {st.lineno})")
        return None

    def assign(self, tgt, val, env):
        if isinstance(tgt, ast.Subscript) and isinstance(tgt.value, ast.Name) and isinstance(env.get(tgt.value.id), dict) and isinstance(tgt.slice, ast.Constant) and isinstance(tgt.slice.value, str):
            env[tgt.value.id] = dict(env[tgt.value.id], **{tgt.slice.value: val})  # kwargs["name"] = value
            return
        if isinstance(tgt, ast.Name):
            env[tgt.id] = self.name_value(tgt.id, val)
        elif isinstance(tgt, (ast.Tuple, ast.List)):
            if not isinstance(val, (list, tuple)) or len(val) != len(tgt.elts):
                raise OutsideSubset("tuple assignment of a non-sequence")
            for t, v in zip(tgt.elts, val):
                self.assign(t, v, env)
        else:
            raise OutsideSubset(f"assignment target {type(tgt).__name__}")

    def name_value(self, name, val):
        if isinstance(val, sp.Expr):
            return self.tr.define(name, val)
        if isinstance(val, (list, tuple)):
            return type(val)(self.name_value(f"{name}{i}", v) for i, v in enumerate(val))
        return val

    # -- expressions -------------------------------------------------------------------------------
    def ev(self, e, env):
        if isinstance(e, ast.Constant):
            if e.value is None:
                return None
            return _rat(e.value)
        if isinstance(e, ast.Name):
            if e.id not in env:
                raise OutsideSubset(f"unknown name {e.id}")
            return env[e.id]
        if isinstance(e, ast.UnaryOp) and isinstance(e.op, ast.USub):
            return self.neg(self.ev(e.operand, env))
        if isinstance(e, ast.BinOp):
            return self.binop(e.op, self.ev(e.left, env), self.ev(e.right, env))
        if isinstance(e, ast.Attribute):
            d = ast.unparse(e)
            if d == "math.pi":
                return self.tr.const("pi")
            if isinstance(e.value, ast.Name) and e.value.id in env and hasattr(env[e.value.id], "ssa_getattr"):
                return env[e.value.id].ssa_getattr(e.attr, self)
            if getattr(self, "global_attr", None) is not None:
                v = self.global_attr(d)
                if v is not None:
                    return v
            raise OutsideSubset(f"attribute {d}")
        if isinstance(e, (ast.List, ast.Tuple)):
            return [self.ev(x, env) for x in e.elts]
        if isinstance(e, ast.Subscript):
            v = self.ev(e.value, env)
            i = e.slice
            if isinstance(i, ast.Constant) and isinstance(i.value, int) and isinstance(v, (list, tuple)):
                return v[i.value]
            raise OutsideSubset(f"subscript {ast.unparse(e)}")
        if isinstance(e, ast.Call):
            return self.call(e, env)
        raise OutsideSubset(f"expression {type(e).__name__}: {ast.unparse(e)[:60]}")

    def neg(self, v):
        if isinstance(v, list):
            return [self.neg(x) for x in v]
        return -v

    def binop(self, op, a, b):
        if isinstance(a, list) or isinstance(b, list):
            if isinstance(a, list) and isinstance(b, list):
                if len(a) != len(b):
                    raise OutsideSubset("shape mismatch")
                return [self.binop(op, x, y) for x, y in zip(a, b)]
            if isinstance(a, list):
                return [self.binop(op, x, b) for x in a]
            return [self.binop(op, a, y) for y in b]
        if a is None or b is None:
            raise OutsideSubset("arithmetic with None")
        if isinstance(op, ast.Add):
            return a + b
        if isinstance(op, ast.Sub):
            return a - b
        if isinstance(op, ast.Mult):
            return a * b
        if isinstance(op, ast.Div):
            return a / b
        if isinstance(op, ast.Pow):
            if not b.is_Rational:
                if self.tr.split_roots:
                    return self.tr.power(a, b)
                raise OutsideSubset("symbolic exponent")
            if b.is_Integer:
                return a ** b
            if a.is_Number or not (a.free_symbols - self.tr.consts):
                # a constant to a fractional power: an atom as well (its derivative is zero)
                return self.tr.root(a, b)
            return self.tr.root(a, b)
        raise OutsideSubset(f"operator {type(op).__name__}")

    def call(self, e, env):
        f = ast.unparse(e.func)
        if f in ("xp.where", "np.where") and len(e.args) == 3 and isinstance(e.args[0], ast.Compare) and len(e.args[0].ops) == 1:
            # element-wise selection: decided by the declared assumptions (a generic point of the stated region); the other branch is not evaluated
            c = e.args[0]
            lhs, rhs = self.ev(c.left, env), self.ev(c.comparators[0], env)
            op = c.ops[0]
            if isinstance(op, (ast.Gt, ast.GtE)):
                diff = lhs - rhs
            elif isinstance(op, (ast.Lt, ast.LtE)):
                diff = rhs - lhs
            else:
                raise OutsideSubset(f"condition {ast.unparse(c)}")
            k = self.tr.known_positive(diff)
            if k is None:
                raise OutsideSubset(f"the sign of {ast.unparse(c)} does not follow from the assumptions")
            return self.ev(e.args[1] if k else e.args[2], env)
        if isinstance(e.func, ast.Name) and e.func.id in env and hasattr(env[e.func.id], "ssa_call"):
            return env[e.func.id].ssa_call(self, [self.ev(a, env) for a in e.args], {k.arg: self.ev(k.value, env) for k in e.keywords if k.arg is not None})
        args = [self.ev(a, env) for a in e.args if not isinstance(a, ast.Starred)]
        kw = {k.arg: self.ev(k.value, env) for k in e.keywords if k.arg is not None}
        for k in e.keywords:
            if k.arg is None:  # **mapping: merged when the mapping is a dictionary of this execution, ignored otherwise (empty throw-away arguments)
                m = self.ev(k.value, env) if isinstance(k.value, ast.Name) and k.value.id in env else None
                if isinstance(m, dict):
                    for kk, vv in m.items():
                        if kk in kw:
                            raise OutsideSubset(f"keyword {kk} given twice")
                        kw[kk] = vv
        if f == "math.log":
            if len(args) == 1 and args[0].is_Number:
                return self.tr.const(f"log{args[0]}")
            raise OutsideSubset("math.log of a non-constant")
        if f in ("xp.exp", "np.exp", "math.exp"):
            return self.tr.fun("exp", args[0])
        if f in ("xp.log", "np.log"):
            return self.tr.fun("log", args[0])
        if f in ("xp.tanh", "np.tanh"):
            return self.tr.fun("tanh", args[0])
        if f in ("xp.zeros_like", "np.zeros_like"):
            return sp.Integer(0)
        if f in ("xp.sqrt", "np.sqrt", "math.sqrt"):
            return self.tr.root(args[0], sp.Rational(1, 2))
        if f in ("xp.linalg.norm", "np.linalg.norm"):
            v = args[0]
            if not (isinstance(v, list) and len(v) == 3 and all(isinstance(x, sp.Expr) for x in v)):
                raise OutsideSubset("norm of something that is not a 3-vector")
            return self.tr.root(sum(x * x for x in v), sp.Rational(1, 2))
        if f in ("xp.stack", "np.stack"):
            return list(args[0])
        if f in ("xp.nan_to_num", "np.nan_to_num"):
            return args[0]
        if f in self.callees:
            return self.callees[f](self, args, kw)
        raise OutsideSubset(f"call of {f}")


# ------------------------------------------------------------------------------------------------
# zero test by unfolding from the top
# ------------------------------------------------------------------------------------------------


def _numeric_zero(expr, syms, rng, positive):
    import mpmath

    mpmath.mp.dps = 40
    for _ in range(2):
        sub = {}
        for s in syms:
            v = mpmath.mpf(rng.uniform(0.3, 1.7))
            if not positive(s) and rng.random() < 0.5:
                v = -v
            sub[s] = v
        try:
            f = sp.lambdify(list(sub), expr, "mpmath")
            val = f(*sub.values())
        except (ZeroDivisionError, ValueError, TypeError, OverflowError):
            return False
        if abs(val) > mpmath.mpf(10) ** (-25):
            return False
    return True


def normalise_roots(tr: Trace, expr):
    """Every power r**k of a root atom (r**d = base) is written as base**(k div d) * r**(k mod d): exponents of r stay in [0, d - 1], so that
    expressions that agree modulo the root relations agree as rational functions of (r, base symbols) treated as independent."""
    roots = [s for s in expr.free_symbols if s in tr.atoms and tr.atoms[s][0] == "root"]
    if not roots:
        return expr
    info = {r: tr.atoms[r] for r in roots}

    def fix(e):
        r = e.base
        _, base, d = info[r]
        q, rem = divmod(int(e.exp), d)
        return base**q * r**rem

    return expr.replace(lambda e: e.is_Pow and e.base in info and e.exp.is_Integer and not (0 <= int(e.exp) < info[e.base][2]), fix)


def prove_zero(tr: Trace, residual, budget=60.0, seed=0, log=None):
    """True (proved) / raises Undecided. The residual is unfolded latest-definition-first until it cancels identically."""
    import random

    rng = random.Random(seed)
    t0 = time.process_time()  # CPU time of this worker: the verdict must not depend on the load of the machine
    R = sp.sympify(residual)
    steps = 0
    while True:
        if time.process_time() - t0 > budget:
            raise Undecided(f"budget {budget}s (CPU) exhausted after {steps} unfoldings")
        free = R.free_symbols
        if not free:
            if sp.simplify(R) == 0:
                return dict(unfoldings=steps, level="constants")
            raise Undecided(f"constant residual {R}")
        if _numeric_zero(R, sorted(free, key=lambda s: s.name), rng, lambda s: bool(s.is_positive)):
            num = sp.fraction(sp.together(R))[0]
            num = sp.expand(num)
            if num == 0:
                left = sorted((s for s in free), key=lambda s: -tr.order.get(s, 0))
                return dict(unfoldings=steps, level=[s.name for s in left][:12], symbols_left=len(free))
        cand = [s for s in free if s in tr.defs]
        if not cand:
            break
        s = max(cand, key=lambda x: tr.order[x])
        R = R.xreplace({s: tr.defs[s]})
        steps += 1
        if log is not None:
            log.append(s.name)
    # nothing left to unfold: use the root relations r**d = base
    num = sp.expand(sp.fraction(sp.together(R))[0])
    roots = [s for s in num.free_symbols if s in tr.atoms and tr.atoms[s][0] == "root"]
    rel = []
    for r in roots:
        _, base, d = tr.atoms[r]
        b = base
        while True:
            c = [x for x in b.free_symbols if x in tr.defs]
            if not c:
                break
            b = b.xreplace({x: tr.defs[x] for x in c})
        bn, bd = sp.fraction(sp.together(b))
        rel.append(sp.expand(r**d * bd - bn))
    gens = sorted(num.free_symbols | set().union(*[x.free_symbols for x in rel]) if rel else num.free_symbols, key=lambda s: (-tr.order.get(s, 0), s.name))
    try:
        _, rem = sp.reduced(num, rel, *gens, order="lex") if rel else (None, num)
    except Exception as e:  # noqa: BLE001
        raise Undecided(f"reduction failed: {type(e).__name__}: {e}") from e
    if sp.expand(rem) == 0:
        return dict(unfoldings=steps, level="root relations", relations=len(rel))
    raise Undecided(f"residual does not cancel after {steps} unfoldings and reduction by {len(rel)} root relations ({len(sp.Add.make_args(rem))} terms left)")


def true_value(tr: Trace, expr, values, extra=None):
    """Numeric value of expr at concrete inputs (all definitions and atoms evaluated): used to refute with a witness."""
    import mpmath

    mpmath.mp.dps = 40
    cache = dict(values)
    if extra:
        cache.update(extra)

    def val(s):
        if s in cache:
            return cache[s]
        if s in tr.defs:
            v = ev(tr.defs[s])
        elif s in tr.atoms:
            a = tr.atoms[s]
            if a[0] == "root":
                v = ev(a[1]) ** (mpmath.mpf(1) / a[2])
            elif a[0] == "exp":
                v = mpmath.exp(ev(a[1]))
            elif a[0] == "log":
                v = mpmath.log(ev(a[1]))
            else:
                raise Undecided(f"no numeric value for the opaque atom {s}")
        elif s.name == "pi":
            v = mpmath.pi
        elif s.name.startswith("log"):
            v = mpmath.log(mpmath.mpf(sp.Rational(s.name[3:]).p) / sp.Rational(s.name[3:]).q)
        else:
            raise Undecided(f"no numeric value for {s}")
        cache[s] = v
        return v

    def ev(e):
        e = sp.sympify(e)
        syms = sorted(e.free_symbols, key=lambda s: s.name)
        f = sp.lambdify(syms, e, "mpmath")
        return f(*[val(s) for s in syms])

    return ev(expr)


def function_ast(source, name):
    tree = ast.parse(source)
    for n in tree.body:
        if isinstance(n, ast.FunctionDef) and n.name == name:
            return n
    raise OutsideSubset(f"function {name} not found")


def frac(x):
    return sp.Rational(Fraction(x).numerator, Fraction(x).denominator)
