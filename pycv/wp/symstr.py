"""Symbolic text for engine Z: strings whose formatted numbers are symbolic.

An `SStr` is a sequence of pieces: literal text, or a value printed through a format spec (`{x: .6f}`, `{n}`, `{s:<2s}`).
Assumed contract ('float-format'): a value printed with a numeric format spec is one whitespace-free token (possibly preceded
by the spaces of its own padding / sign flag) and parsing that token returns the value (to the printed precision - the engine
treats this as exact, i.e. round trips are proved *to the printed precision*).
"""

from __future__ import annotations

import z3

from .interp import OutsideSubset, PyRaise, Sym, Val


class Tok:
    """One printed value."""

    __slots__ = ("value", "spec")

    def __init__(self, value, spec=""):
        self.value, self.spec = value, spec

    def __repr__(self):
        return f"<{self.value!r}:{self.spec}>"


class SStr:
    _zpy = True

    def __init__(self, pieces=()):
        self.pieces = []
        for p in pieces:
            self._push(p)

    def _push(self, p):
        if isinstance(p, str):
            if not p:
                return
            if self.pieces and isinstance(self.pieces[-1], str):
                self.pieces[-1] += p
            else:
                self.pieces.append(p)
        elif isinstance(p, SStr):
            for q in p.pieces:
                self._push(q)
        else:
            self.pieces.append(p)

    def __repr__(self):
        return "SStr(" + "".join(p if isinstance(p, str) else repr(p) for p in self.pieces) + ")"

    def concrete(self):
        if all(isinstance(p, str) for p in self.pieces):
            return "".join(self.pieces)
        return None

    def z_val(self, world):
        args = []
        for p in self.pieces:
            args.append(world.const_val(p) if isinstance(p, str) else world.to_val(p.value))
        f = world.uf_raw(f"sstr{len(args)}", [Val] * len(args), Val)
        return f(*args) if args else world.const_val("")

    # -- python str protocol used by the readers / writers ------------------------------------------------
    def __add__(self, o):
        return SStr(self.pieces + ([o] if isinstance(o, str) else o.pieces))

    def __radd__(self, o):
        return SStr([o] + self.pieces)

    def __contains__(self, sub):
        if isinstance(sub, str):
            return any(isinstance(p, str) and sub in p for p in self.pieces)
        raise OutsideSubset("symbolic substring test")

    def __eq__(self, o):
        c = self.concrete()
        if isinstance(o, str):
            return c == o if c is not None else False
        if isinstance(o, SStr):
            return self.pieces == o.pieces
        return NotImplemented

    def __hash__(self):
        return hash(repr(self))

    def tokens(self):
        """Whitespace tokenisation: literal text is split on whitespace, a printed value is one token."""
        out = []
        cur = []  # pieces of the current token
        for p in self.pieces:
            if isinstance(p, str):
                parts = p.split()
                if not parts:
                    if cur:
                        out.append(cur)
                        cur = []
                    continue
                if p[0].isspace() and cur:
                    out.append(cur)
                    cur = []
                for k, w in enumerate(parts):
                    cur.append(w)
                    if k < len(parts) - 1:
                        out.append(cur)
                        cur = []
                if p[-1].isspace() and cur:
                    out.append(cur)
                    cur = []
            else:
                # numeric format specs with a sign flag / width may start with padding: token boundary before the value
                if cur and _pads(p.spec):
                    out.append(cur)
                    cur = []
                cur.append(p)
                if _pads_right(p.spec):
                    out.append(cur)
                    cur = []
        if cur:
            out.append(cur)
        res = []
        for t in out:
            if len(t) == 1:
                res.append(t[0] if isinstance(t[0], str) else SStr([t[0]]))
            else:
                res.append(SStr(t))
        return res

    def strip(self, it=None, *a):
        ps = list(self.pieces)
        if ps and isinstance(ps[0], str):
            ps[0] = ps[0].lstrip()
        if ps and isinstance(ps[-1], str):
            ps[-1] = ps[-1].rstrip()
        r = SStr(ps)
        c = r.concrete()
        return c if c is not None else r

    def split(self, it=None, sep=None, *a):
        if sep is not None:
            c = self.concrete()
            if c is None:
                raise OutsideSubset("split of symbolic text on an explicit separator")
            return c.split(sep)
        return self.tokens()

    def lower(self, it=None):
        return SStr([p.lower() if isinstance(p, str) else p for p in self.pieces])

    def upper(self, it=None):
        return SStr([p.upper() if isinstance(p, str) else p for p in self.pieces])

    def endswith(self, it, suf):
        return bool(self.pieces) and isinstance(self.pieces[-1], str) and self.pieces[-1].endswith(suf)

    def startswith(self, it, pre):
        return bool(self.pieces) and isinstance(self.pieces[0], str) and self.pieces[0].startswith(pre)

    def isnumeric(self, it=None):
        if len(self.pieces) == 1 and isinstance(self.pieces[0], Tok):
            v = self.pieces[0].value
            return isinstance(v, int) or (isinstance(v, Sym) and v.kind == "int")
        c = self.concrete()
        return c.isnumeric() if c is not None else False

    def isdigit(self, it=None):
        return self.isnumeric()

    def splitlines(self, it=None):
        lines = [[]]
        for p in self.pieces:
            if isinstance(p, str):
                parts = p.split("\n")
                for k, w in enumerate(parts):
                    if w:
                        lines[-1].append(w)
                    if k < len(parts) - 1:
                        lines[-1].append("\n")
                        lines.append([])
            else:
                lines[-1].append(p)
        if lines and not lines[-1]:
            lines.pop()
        return [SStr(l) for l in lines]

    def value(self):
        """The single printed value of a one-token string (or the concrete text)."""
        if len(self.pieces) == 1 and isinstance(self.pieces[0], Tok):
            return self.pieces[0].value
        c = self.concrete()
        if c is not None:
            return c
        raise OutsideSubset(f"token made of several pieces: {self!r}")


def _pads(spec):
    return bool(spec) and (spec[0] in " +" or spec[0].isdigit() or spec[0] == ">")


def _pads_right(spec):
    return bool(spec) and spec[0] == "<"


def percent_format(fmt, args):
    """`fmt % args` for a concrete format string and (possibly symbolic) arguments."""
    import re

    parts = re.split(r"(%[-+ 0#]*[0-9]*(?:\.[0-9]+)?[diouxXeEfFgGs])", fmt)
    pieces = []
    k = 0
    for p in parts:
        if p.startswith("%") and len(p) > 1 and p != "%%":
            v = args[k]
            k += 1
            if isinstance(v, Sym):
                pieces.append(Tok(v, p[1:]))
            else:
                pieces.append(p % v)
        elif p:
            pieces.append(p)
    if k != len(args):
        raise PyRaise("TypeError", "not all arguments converted during string formatting")
    return SStr(pieces)


def parse_number(tok, kind):
    """float(token) / int(token) / np.asarray(tokens, dtype=...) on one token."""
    if isinstance(tok, SStr):
        v = tok.value()
    else:
        v = tok
    if isinstance(v, str):
        try:
            return int(v) if kind == "int" else float(v)
        except ValueError:
            raise PyRaise("ValueError", f"could not convert {v!r}") from None
    return v


class FileSim:
    """In-memory text file for writer -> reader round trips."""

    _zpy = True

    def __init__(self, store, name, mode):
        self.store, self.name, self.mode = store, name, mode
        if "w" in mode:
            store[name] = SStr()
        elif "a" in mode:
            store.setdefault(name, SStr())
        self.pos = 0

    def write(self, it, s):
        self.store[self.name] = self.store[self.name] + (s if isinstance(s, (str, SStr)) else SStr([Tok(s)]))

    def writelines(self, it, lines):
        if not isinstance(lines, (list, tuple)):
            raise OutsideSubset("writelines of a symbolic-length sequence")
        for l in lines:
            self.write(it, l)

    def _lines(self):
        if self.name not in self.store:
            raise PyRaise("FileNotFoundError", str(self.name))
        return self.store[self.name].splitlines()

    def readlines(self, it):
        return self._lines()

    def readline(self, it):
        ls = self._lines()
        if self.pos >= len(ls):
            return ""
        self.pos += 1
        return ls[self.pos - 1]

    def read(self, it):
        return self.store[self.name]
