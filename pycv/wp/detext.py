"""Engine Z: iteration-order independence of a loop over an unordered collection (adjacent-swap lemma).

`for x in S: body` with S a set visits the elements in an unspecified order. Every order is reached from every other one by
swapping adjacent elements, so the result of the loop is independent of the order iff, started in an ARBITRARY loop state sigma,

        body[x:=a]; body[x:=b]      and      body[x:=b]; body[x:=a]

leave the same state for all a != b (as far as the code after the loop can observe it). `OrderProbe` is what `set(...)`
evaluates to in such a run: the for-statement havocs every variable the body assigns (deterministically named constants, so
that the two runs talk about the same sigma), executes the real body twice in the requested order and continues with the rest
of the function. The caller compares what the two runs return / write.

Arrays are not interpreted: an array-valued accumulator is a z3 real, i.e. an element of an abstract commutative ring in which
elementwise +, -, * are the ring operations and everything else (FFTs, exp, indexing) is an uninterpreted function. Assumption
recorded with every obligation: floating-point addition is treated as real addition - which is exactly what the property asks
for across hash seeds ("agree to within floating-point round-off").
"""

from __future__ import annotations

import ast

import z3

from .interp import OutsideSubset, Sym, Val, _Break, _Continue


def assigned_roots(body):
    """Names (and attribute/subscript roots) assigned anywhere in a list of statements."""
    names, others = [], []
    for s in body:
        for n in ast.walk(s):
            tg = []
            if isinstance(n, ast.Assign):
                tg = n.targets
            elif isinstance(n, (ast.AugAssign, ast.AnnAssign)):
                tg = [n.target]
            elif isinstance(n, (ast.For, ast.comprehension)):
                tg = [n.target]
            elif isinstance(n, ast.NamedExpr):
                tg = [n.target]
            elif isinstance(n, ast.With):
                tg = [i.optional_vars for i in n.items if i.optional_vars is not None]
            elif isinstance(n, ast.Call) and isinstance(n.func, ast.Attribute) and n.func.attr in (
                    "append", "extend", "insert", "pop", "update", "add", "remove", "write", "writelines", "sort", "clear"):
                tg = [n.func.value]
            for t in tg:
                for y in (t.elts if isinstance(t, (ast.Tuple, ast.List)) else [t]):
                    root = y
                    while isinstance(root, (ast.Subscript, ast.Starred)):
                        root = root.value
                    if isinstance(root, ast.Name):
                        if root.id not in names:
                            names.append(root.id)
                    else:
                        others.append(ast.unparse(root))
    return names, others


class OrderProbe:
    _zpy = True

    def __init__(self, world, order, elem_kind="val"):
        self.w, self.order = world, order
        mk = (lambda n: Sym(z3.Const(n, Val), "val")) if elem_kind == "val" else (lambda n: Sym(z3.Int(n), "int"))
        self.a, self.b = mk("probe:elem_a"), mk("probe:elem_b")
        self.used = 0

    def distinct(self):
        return self.a.e != self.b.e

    def z_val(self, world):
        return z3.Const("probe:set", Val)

    def z_len(self, it):
        return Sym(z3.Int("probe:len"), "int")

    def z_order_probe(self, it, s, env):
        self.used += 1
        if self.used > 1:
            raise OutsideSubset("the unordered collection is iterated more than once")
        if s.orelse:
            raise OutsideSubset("for-else over an unordered collection")
        for n in ast.walk(s):
            if isinstance(n, (ast.Break, ast.Return)):
                # leaving the loop early makes the result depend on which element comes first unless proven otherwise
                raise OutsideSubset("early exit from a loop over an unordered collection")
        names, others = assigned_roots(s.body)
        if others:
            raise OutsideSubset(f"loop over an unordered collection mutates non-local state: {others[:3]}")
        for nm in names:
            cur = None
            e = env
            while e is not None:
                if nm in e:
                    cur = e[nm]
                    break
                e = e.parent
            env[nm] = self.havoc_like(it, nm, cur)
        first, second = (self.a, self.b) if self.order == 0 else (self.b, self.a)
        for x in (first, second):
            it.assign_target(s.target, x, env)
            try:
                it.exec_block(s.body, env)
            except _Continue:
                continue
            except _Break:
                raise OutsideSubset("break in a loop over an unordered collection") from None
        return None

    def havoc_like(self, it, nm, cur):
        name = f"probe:state:{nm}"
        if isinstance(cur, Sym):
            kind = cur.kind
        elif isinstance(cur, bool):
            kind = "bool"
        elif isinstance(cur, int):
            kind = "int"
        elif isinstance(cur, float):
            kind = "real"
        elif isinstance(cur, str) or (cur is not None and hasattr(cur, "pieces")):
            kind = "val"
        else:
            kind = "val"
        mk = {"int": z3.Int, "real": z3.Real, "bool": z3.Bool}.get(kind)
        return Sym(mk(name) if mk else z3.Const(name, Val), kind)
