"""Path enumeration for engine Z (depth-first re-execution with decision prefixes) and z3 helpers."""

from __future__ import annotations

import time

import z3

from .execute import Interp
from .interp import Infeasible, OutsideSubset, Path, PathEnd, PyRaise, World, MAX_PATHS


class PathResult:
    def __init__(self, path, interp, outcome, value, state):
        self.path, self.interp, self.outcome, self.value, self.state = path, interp, outcome, value, state

    @property
    def pc(self):
        return self.path.pc


def explore(world: World, run, assumptions=(), ext=None, loop_specs=None, max_paths=MAX_PATHS, deadline=None, unroll=0):
    """run(interp) -> (value, state) is executed once per feasible path. Returns list[PathResult].

    `run` must build its own (fresh) symbolic state from deterministic names so that re-execution reproduces
    the same z3 constants (use world.named(...))."""
    todo = [[]]
    out = []
    while todo:
        if len(out) >= max_paths:
            raise OutsideSubset(f"more than {max_paths} paths")
        if deadline and time.time() > deadline:
            raise OutsideSubset("path exploration budget exhausted")
        prefix = todo.pop()
        p = Path(world, prefix, list(assumptions))
        it = Interp(world, p, ext_handlers=ext, loop_specs=loop_specs)
        it.unroll = unroll
        try:
            value, state = run(it)
            outcome = "return"
        except PyRaise as e:
            value, state, outcome = e, getattr(e, "state", None), f"raise:{e.etype}"
        except PathEnd:
            value, state, outcome = None, None, "cut"
        except Infeasible:
            continue
        todo.extend(p.alternatives)
        out.append(PathResult(p, it, outcome, value, state))
    return out


def check_valid(world, hyps, goal, timeout_ms=25000):
    """Is (hyps => goal) valid?  Returns ('proved', None) | ('refuted', model) | ('unknown', reason)."""
    s = z3.Solver()
    s.set("timeout", timeout_ms)
    s.add(*hyps)
    s.add(*world.distinct_axioms())
    s.add(z3.Not(goal))
    r = s.check()
    if r == z3.unsat:
        return "proved", None
    if r == z3.sat:
        return "refuted", s.model()
    return "unknown", s.reason_unknown()


def discharge_obligations(world, results, extra_hyps=(), timeout_ms=50000):
    """Prove every obligation recorded along the explored paths. Returns (ok, failures[(label, verdict, model)])."""
    fails = []
    n = 0
    for r in results:
        for ob in r.interp.obligations:
            if len(ob) == 2:
                label, formula = ob
                pc = r.path.pc
            else:
                label, pc, formula = ob
            n += 1
            v, m = check_valid(world, list(pc) + list(extra_hyps), formula, timeout_ms)
            if v != "proved":
                fails.append((label, v, m))
    return n, fails


def named(world, name, kind="val", **meta):
    """Deterministically named symbolic constant (stable across re-executions)."""
    from .interp import Sym, Val

    mk = {"int": z3.Int, "real": z3.Real, "bool": z3.Bool}.get(kind)
    e = mk(name) if mk else z3.Const(name, Val)
    return Sym(e, kind, meta)
