"""Engine Z contracts for the numpy / file helpers used by the text readers and writers."""

from __future__ import annotations

import ast
import itertools

import numpy as np
import z3

from .execute import Vec
from .interp import OutsideSubset, PyRaise, Sym
from .numext import NUM_EXT, NdArr
from .symstr import FileSim, SStr, Tok, parse_number


def _dtype_kind(dtype):
    n = getattr(dtype, "name", None)
    if n in ("int", "float"):
        return n
    if dtype is None:
        return None
    return str(dtype)


def _to_obj_array(x):
    if isinstance(x, NdArr):
        return x.a
    if isinstance(x, np.ndarray):
        return x
    if isinstance(x, (list, tuple)):
        return np.array([_to_obj_array(e) if isinstance(e, (list, tuple, NdArr)) else e for e in x], dtype=object)
    return x


def _wrap(a):
    if isinstance(a, np.ndarray):
        if a.dtype != object and a.dtype.kind in "iufbU":
            if a.dtype.kind == "U" or a.ndim == 0:
                return a
            a = a.astype(object)
        if a.ndim == 0:
            return a.item()
        if a.ndim == 1:
            return Vec(list(a))
        r = NdArr(a.shape)
        r.a = a
        return r
    return a


def ndarr_binop(self, it, op, other, swapped):
    import operator

    f = {ast.Add: operator.add, ast.Sub: operator.sub, ast.Mult: operator.mul, ast.Div: operator.truediv, ast.MatMult: operator.matmul,
         ast.Pow: operator.pow}.get(op)
    if f is None:
        return NotImplemented
    o = _to_obj_array(other)
    try:
        r = f(o, self.a) if swapped else f(self.a, o)
    except TypeError:
        return NotImplemented
    return _wrap(r)


NdArr.z_binop = ndarr_binop


def _fancy(self, it, idx):
    """NdArr indexing incl. integer-array (fancy) indices."""
    if isinstance(idx, (np.ndarray, list, Vec)) and not isinstance(idx, str):
        ii = np.asarray([int(i) for i in idx])
        return _wrap(self.a[ii])
    return None


_old_get = NdArr.z_getitem


def ndarr_getitem(self, it, idx):
    r = _fancy(self, it, idx)
    if r is not None:
        return r
    v = _old_get(self, it, idx)
    if isinstance(v, NdArr) and v.a.ndim == 1:
        return Vec(list(v.a))
    return v


NdArr.z_getitem = ndarr_getitem


def asarray(it, args, kwargs):
    x = args[0]
    kind = _dtype_kind(kwargs.get("dtype", args[1] if len(args) > 1 else None))
    if isinstance(x, (NdArr, Vec)) and not isinstance(x, str):
        if kind == "int" and isinstance(x, Vec):
            return Vec([parse_number(e, "int") for e in x])
        return x
    if isinstance(x, np.ndarray):
        return x
    if isinstance(x, SStr):
        return parse_number(x, kind or "float")
    if isinstance(x, (list, tuple)):
        if x and all(isinstance(e, (str, SStr)) for e in x):
            if kind in ("float", "int"):
                return Vec([parse_number(e, kind) for e in x])
            if all(isinstance(e, str) for e in x):
                return np.asarray(x)
        if x and all(isinstance(e, (Vec, list, tuple)) and not isinstance(e, str) for e in x):
            return _wrap(_to_obj_array(x))
        if all(isinstance(e, (int, float, Sym)) for e in x):
            return Vec(list(x))
    if isinstance(x, (int, float, Sym)) and not isinstance(x, bool):
        return x
    return NUM_EXT["xp.asarray"](it, args, kwargs)


def empty(it, args, kwargs):
    shp = args[0]
    if isinstance(shp, (int, Sym)):
        shp = (shp,)
    shp = tuple(int(s) if not isinstance(s, Sym) else _concrete(s) for s in shp)
    return NdArr(shp, None, kind=_dtype_kind(kwargs.get("dtype", args[1] if len(args) > 1 else None)))


def _concrete(s):
    v = z3.simplify(s.e)
    if z3.is_int_value(v):
        return v.as_long()
    raise OutsideSubset("symbolic array shape")


def np_sum(it, args, kwargs):
    x = args[0]
    ax = kwargs.get("axis", args[1] if len(args) > 1 else None)
    if isinstance(x, NdArr):
        return _wrap(np.sum(x.a, axis=ax))
    if isinstance(x, (Vec, list)) and all(isinstance(e, (int, float, Sym)) for e in x):
        tot = 0
        for e in x:
            tot = it.binop(ast.Add, tot, e)
        return tot
    if isinstance(x, np.ndarray):
        return np.sum(x, axis=ax)
    return it.w.uf("np.sum", list(args), "val")


def passthrough_numpy(name):
    def f(it, args, kwargs):
        conc = all(isinstance(a, (np.ndarray, list, tuple, int, float, str)) and not _has_sym(a) for a in args)
        if conc:
            return getattr(np, name)(*args, **kwargs)
        return it.w.uf(f"np.{name}", list(args), "val")

    return f


def _has_sym(x):
    if isinstance(x, (Sym, SStr)):
        return True
    if isinstance(x, (list, tuple)):
        return any(_has_sym(e) for e in x)
    if isinstance(x, np.ndarray) and x.dtype == object:
        return any(_has_sym(e) for e in x.reshape(-1))
    return False


class NondetSet:
    """set(...) of concrete items: iteration order is an arbitrary permutation (hash order is not specified)."""

    _zpy = True

    def __init__(self, items):
        self.items = sorted(set(items), key=repr)

    def z_iter(self, it):
        items = list(self.items)
        out = []
        while items:
            pick = 0
            for k in range(len(items) - 1):
                b = it.w.fresh("setorder", "bool")
                if it.p.branch(b.e):
                    pick = k
                    break
                pick = k + 1
            out.append(items.pop(pick))
        return out

    def z_len(self, it):
        return len(self.items)

    def __contains__(self, x):
        return x in self.items


def make_set(it, args, kwargs):
    if not args:
        return set()
    seq = it.concrete_iter(args[0]) if not isinstance(args[0], np.ndarray) else list(args[0])
    if seq is None or _has_sym(seq):
        return it.w.uf("set", list(args), "val")
    return NondetSet([str(x) if isinstance(x, np.str_) else x for x in seq])


def opener(store):
    def f(it, args, kwargs):
        name = args[0]
        mode = args[1] if len(args) > 1 else kwargs.get("mode", "r")
        if isinstance(name, SStr):
            name = name.concrete()
        return FileSim(store, name, mode)

    return f


def io_ext(store):
    ext = dict(NUM_EXT)
    ext.update({
        "np.asarray": asarray, "xp.asarray": asarray, "np.empty": empty, "xp.empty": empty, "np.sum": np_sum, "xp.sum": np_sum,
        "np.argsort": passthrough_numpy("argsort"), "np.unique": passthrough_numpy("unique"),
        "open": opener(store), "time.ctime": lambda it, a, k: it.w.uf("time.ctime", [], "val"),
        "xp.real": lambda it, a, k: a[0], "textwrap.fill": lambda it, a, k: a[0],
    })
    return ext
