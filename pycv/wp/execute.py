"""Engine Z interpreter: evaluates the AST subset (see interp.py docstring)."""

from __future__ import annotations

import ast
import hashlib
import operator

import numpy as np
import z3

from .interp import (BoundMethod, Cls, ExtRef, Func, Infeasible, Module, PathEnd, Obj, OutsideSubset, Path, PyRaise, Sym, Val,
                     World, _Break, _Continue, _Return)

_BINOPS = {ast.Add: operator.add, ast.Sub: operator.sub, ast.Mult: operator.mul, ast.Div: operator.truediv,
           ast.FloorDiv: operator.floordiv, ast.Mod: operator.mod, ast.Pow: operator.pow, ast.MatMult: operator.matmul,
           ast.BitAnd: operator.and_, ast.BitOr: operator.or_}
_OPNAME = {ast.Add: "add", ast.Sub: "sub", ast.Mult: "mul", ast.Div: "div", ast.FloorDiv: "floordiv", ast.Mod: "mod",
           ast.Pow: "pow", ast.MatMult: "matmul", ast.BitAnd: "and", ast.BitOr: "or"}
_CMP = {ast.Eq: operator.eq, ast.NotEq: operator.ne, ast.Lt: operator.lt, ast.LtE: operator.le, ast.Gt: operator.gt,
        ast.GtE: operator.ge}
_CMPNAME = {ast.Eq: "eq", ast.NotEq: "ne", ast.Lt: "lt", ast.LtE: "le", ast.Gt: "gt", ast.GtE: "ge"}

NOOP_EXT_PREFIXES = ("log.", "self._log.", "warnings.")


class Vec(list):
    """1-D numeric array of concrete length whose elements are numbers or int/real Syms (element-wise arithmetic)."""


class RepList:
    """`[x, ...] * n` with a symbolic n."""

    def __init__(self, items, n):
        self.items, self.n = items, n

    def z_val(self, world):
        f = world.uf_raw(f"replist{len(self.items)}", [Val] * (len(self.items) + 1), Val)
        return f(*[world.to_val(x) for x in self.items], world.to_val(Sym(self.n, "int")))


class SymRange:
    def __init__(self, n, start=0):
        self.n = n  # z3 int expr: number of iterations (may be <= 0: empty)
        self.start = start

    def z_val(self, world):
        f = world.uf_raw("symrange", [Val, Val], Val)
        return f(world.to_val(Sym(self.n, "int")), world.to_val(self.start))


class SymSeq:
    """Sequence of symbolic length: its length and an (uninterpreted) description of its content are tracked."""

    _zpy = True

    def __init__(self, n, desc=None):
        self.n = z3.simplify(n) if not isinstance(n, int) else z3.IntVal(n)
        self.desc = desc  # Sym val or None

    def z_val(self, world):
        f = world.uf_raw("symseq", [Val, Val], Val)
        return f(world.to_val(Sym(self.n, "int")), world.to_val(self.desc))

    def append(self, it, x):
        self.n = z3.simplify(self.n + 1)
        self.desc = it.w.uf("seq.append", [self.desc, x], "val")

    def extend(self, it, xs):
        k = xs.n if isinstance(xs, SymSeq) else len(xs)
        self.n = z3.simplify(self.n + k)
        self.desc = it.w.uf("seq.extend", [self.desc, xs], "val")

    def z_len(self, it):
        return Sym(self.n, "int")

    def z_getitem(self, it, idx):
        return it.w.uf("seq.getitem", [self.desc, Sym(self.n, "int"), idx], "val")


class LoopSpec:
    """Sidecar loop contract: `vars` are the names the loop modifies (name -> kind, or name -> callable(it) creating a
    fresh value); `inv(it, env, idx)` returns the z3 invariant (idx: z3 int, the number of completed iterations for a
    `for ... in range(n)` loop, None for a while loop); optional `variant(it, env)` (z3 int, must decrease, >= 0)."""

    def __init__(self, vars, inv, variant=None, havoc_assigned=False, on_entry=None):
        self.vars, self.inv, self.variant = vars, inv, variant
        self.on_entry = on_entry  # callable(it, env): ghost values captured from the state in which the loop is entered
        # havoc_assigned: every local name the loop body assigns (and `vars` does not mention) is replaced by a fresh opaque value as
        # well, so that the contract does not depend on how the body names its temporaries
        self.havoc_assigned = havoc_assigned

    def havoc(self, it, env, tag, body=None):
        vars_ = self.vars(it, env) if callable(self.vars) else self.vars  # callable: names derived from the loop node (it.loop_node)
        for name, kind in vars_.items():
            if callable(kind):
                r = kind(it, env, tag)
                if r is not None and "." not in name:
                    env[name] = r
            else:
                env[name] = it.w.fresh(f"{name}@{tag}", kind)
        if self.havoc_assigned and body is not None:
            for k, name in enumerate(sorted(_assigned_names(body))):
                if name not in vars_:
                    env[name] = it.w.fresh(f"tmp{k}@{tag}", "val")


def _assigned_names(body):
    out = set()
    for st in body:
        for n in ast.walk(st):
            if isinstance(n, ast.Name) and isinstance(n.ctx, ast.Store):
                out.add(n.id)
    return out


class ModuleRef:
    def __init__(self, module):
        self.module = module


class NativeCallable:
    """Bound method of a concrete numpy value."""

    def __init__(self, fn):
        self.fn = fn
        self.name = getattr(fn, "__name__", "native")


class Closure:
    """Function value with captured environment (nested def / lambda)."""

    def __init__(self, node, module, env, name):
        self.node, self.module, self.env, self.name = node, module, env, name


class Env(dict):
    """Local scope; .module gives the global scope; .parent for closures."""

    def __init__(self, module, parent=None):
        super().__init__()
        self.module = module
        self.parent = parent


def _srchash(node):
    return hashlib.sha1(ast.dump(node).encode()).hexdigest()[:8]


class Interp:
    def __init__(self, world: World, path: Path, ext_handlers=None, loop_specs=None, inline_depth=40):
        self.w = world
        self.p = path
        self.ext = ext_handlers or {}
        self.loop_specs = loop_specs or {}
        self.depth = 0
        self.inline_depth = inline_depth
        self.obligations = []  # (label, z3 bool that must hold under the path condition)
        self.loop_counter = {}
        self.unroll = 0  # > 0: unroll symbolic while loops up to this bound with an unwinding assertion
        self.writes_log = []  # (obj, field) plain field writes, for frame reports

    # ---------------------------------------------------------------------------------------------
    # values
    # ---------------------------------------------------------------------------------------------
    def truth(self, v):
        if isinstance(v, Sym):
            if v.kind == "bool":
                return self.p.branch(v.e)
            if v.kind in ("int", "real"):
                return self.p.branch(v.e != 0)
            t = self.w.uf("truthy", [v], "bool")
            return self.p.branch(t.e)
        if isinstance(v, Obj):
            return True
        return bool(v)

    def as_z3(self, v, kind):
        if isinstance(v, Sym):
            if v.kind == kind:
                return v.e
            if v.kind == "int" and kind == "real":
                return z3.ToReal(v.e)
            return None
        if isinstance(v, bool):
            return z3.BoolVal(v) if kind == "bool" else (z3.IntVal(int(v)) if kind == "int" else None)
        if isinstance(v, int) and kind in ("int", "real"):
            return z3.IntVal(v) if kind == "int" else z3.RealVal(v)
        if isinstance(v, float) and kind == "real":
            return z3.RealVal(repr(float(v)))
        if isinstance(v, np.integer) and kind in ("int", "real"):
            return z3.IntVal(int(v)) if kind == "int" else z3.RealVal(int(v))
        return None

    def is_sym(self, *vs):
        return any(isinstance(v, Sym) for v in vs)

    # ---------------------------------------------------------------------------------------------
    # name / attribute resolution
    # ---------------------------------------------------------------------------------------------
    def lookup(self, name, env):
        e = env
        while e is not None:
            if name in e:
                return e[name]
            e = e.parent
        mod = env.module
        return self.lookup_global(name, mod)

    def lookup_global(self, name, mod: Module):
        if name in mod.funcs:
            return mod.funcs[name]
        if name in mod.classes:
            return mod.get_class(name)
        if name in mod.imports:
            imp = mod.imports[name]
            if imp[0] == "ext":
                return ExtRef(name)
            _, base, item = imp
            if base.startswith("eminus"):
                full = f"{base}.{item}"
                if item == "backend":
                    return ExtRef("xp")
                if item in ("log",):
                    return ExtRef("log")
                try:
                    m2 = self.w.module(full)
                    return ModuleRef(m2)
                except FileNotFoundError:
                    pass
                try:
                    m2 = self.w.module(base)
                except FileNotFoundError:
                    return ExtRef(name)
                if item in m2.funcs:
                    return m2.funcs[item]
                if item in m2.classes:
                    return m2.get_class(item)
                if item in m2.globals:
                    return self.eval_global(m2, item)
                if item in m2.imports:
                    return self.lookup_global(item, m2)
                return ExtRef(name)
            return ExtRef(name)
        if name in mod.globals:
            return self.eval_global(mod, name)
        bi = _BUILTINS.get(name)
        if bi is not None:
            return bi
        if name in ("True", "False", "None"):
            return {"True": True, "False": False, "None": None}[name]
        if name in _EXC_NAMES:
            return ExcType(name)
        if name in ("open",):
            return ExtRef(name)
        raise OutsideSubset(f"unresolved name {name} in {mod.name}")

    def eval_global(self, mod, name):
        node = mod.globals[name]
        try:
            return ast.literal_eval(node)
        except Exception:  # noqa: BLE001
            pass
        ok = (ast.Dict, ast.List, ast.Tuple, ast.Constant, ast.BinOp, ast.UnaryOp, ast.operator, ast.unaryop, ast.expr_context)
        if all(isinstance(n, ok) for n in ast.walk(node)):
            return eval(compile(ast.Expression(node), "<const>", "eval"), {"__builtins__": {}})  # noqa: S307
        if mod.name == "eminus.data":
            # pure data tables (element symbols, lattice constants): taken from the imported module of the tree under test
            import importlib

            return getattr(importlib.import_module("eminus.data"), name)
        return ExtRef(f"{mod.name.split('.')[-1]}.{name}")

    def get_attr(self, base, attr, env=None):
        if isinstance(base, Obj):
            if attr in base.fields:
                v = base.fields[attr]
                if isinstance(v, Sym):
                    v = Sym(v.e, v.kind, dict(v.meta, prov=(base, attr)))
                return v
            g, c = base.cls.lookup("getters", attr)
            if g is not None:
                return self.call_node(g, c.module, [base], {}, name=f"{c.name}.{attr}")
            m, c = base.cls.lookup("methods", attr)
            if m is not None:
                return BoundMethod(base, Func(m, c.module, f"{c.name}.{attr}"))
            a, c = base.cls.lookup("attrs", attr)
            if a is not None:
                # class-level alias, e.g. kernel = build, O = operators.O
                cenv = Env(c.module)
                for mn, mnode in c.methods.items():
                    cenv[mn] = Func(mnode, c.module, f"{c.name}.{mn}")
                v = self.eval(a, cenv)
                if isinstance(v, Func):
                    return BoundMethod(base, v)
                return v
            raise PyRaise("AttributeError", attr)
        if isinstance(base, ExtRef):
            if base.name == "math" and attr in ("pi", "e", "inf", "tau"):
                import math

                return getattr(math, attr)
            if base.name == "eminus" or base.name.startswith("eminus."):
                try:
                    return ModuleRef(self.w.module(f"{base.name}.{attr}"))
                except FileNotFoundError:
                    pass
            return ExtRef(f"{base.name}.{attr}")
        if isinstance(base, ModuleRef):
            return self.lookup_global(attr, base.module)
        if isinstance(base, Sym):
            r = self.w.uf(f"attr.{attr}", [base], "val")
            return r
        if isinstance(base, Cls):
            m, c = base.lookup("methods", attr)
            if m is not None:
                return Func(m, c.module, f"{c.name}.{attr}")
            a, c = base.lookup("attrs", attr)
            if a is not None:
                return self.eval(a, Env(c.module))
            raise PyRaise("AttributeError", attr)
        if isinstance(base, (np.ndarray, np.generic)) and base.dtype != object:
            # concrete numpy values are handled by numpy itself
            v = getattr(base, attr)
            return NativeCallable(v) if callable(v) else v
        if hasattr(base, "_zpy") and attr in getattr(base, "_zattrs", ()):
            return getattr(base, attr)
        if isinstance(base, (str, list, tuple, dict, set, int, float, SymSeq)) or hasattr(base, "_zpy"):
            return PyMethod(base, attr)
        if getattr(base, "_zplain", False):
            return getattr(base, attr)
        if isinstance(base, BoundMethod) or isinstance(base, Func):
            raise OutsideSubset(f"attribute {attr} of function")
        if base is None:
            raise PyRaise("AttributeError", f"None.{attr}")
        raise OutsideSubset(f"attribute {attr} of {type(base).__name__}")

    def has_attr(self, base, attr):
        try:
            self.get_attr(base, attr)
            return True
        except PyRaise as e:
            if e.etype == "AttributeError":
                return False
            raise

    def set_attr(self, base, attr, value):
        if isinstance(base, Obj):
            s, c = base.cls.lookup("setters", attr)
            if s is not None:
                self.call_node(s, c.module, [base, value], {}, name=f"{c.name}.{attr}.setter")
                return
            g, _ = base.cls.lookup("getters", attr)
            if g is not None:
                raise PyRaise("AttributeError", f"can't set attribute {attr}")
            base.fields[attr] = value
            self.writes_log.append((base, attr))
            return
        if getattr(base, "_zplain", False):
            setattr(base, attr, value)
            return
        raise OutsideSubset(f"attribute store on {type(base).__name__}")

    # ---------------------------------------------------------------------------------------------
    # calls
    # ---------------------------------------------------------------------------------------------
    def call_node(self, node, module, args, kwargs, name=None, closure_env=None):
        if self.depth > self.inline_depth:
            raise OutsideSubset("inline depth exceeded")
        env = Env(module, parent=closure_env)
        a = node.args
        params = [x.arg for x in a.posonlyargs + a.args]
        defaults = a.defaults
        nd = len(defaults)
        for i, pn in enumerate(params):
            if i < len(args):
                env[pn] = args[i]
            elif pn in kwargs:
                env[pn] = kwargs[pn]
            else:
                di = i - (len(params) - nd)
                if di < 0:
                    raise PyRaise("TypeError", f"missing argument {pn} for {name}")
                env[pn] = self.eval(defaults[di], Env(module))
        if len(args) > len(params):
            if a.vararg:
                env[a.vararg.arg] = tuple(args[len(params):])
            else:
                raise PyRaise("TypeError", f"too many arguments for {name}")
        elif a.vararg:
            env[a.vararg.arg] = ()
        for k, d in zip(a.kwonlyargs, a.kw_defaults):
            if k.arg in kwargs:
                env[k.arg] = kwargs[k.arg]
            elif d is not None:
                env[k.arg] = self.eval(d, Env(module))
            else:
                raise PyRaise("TypeError", f"missing kw argument {k.arg}")
        extra = {k: v for k, v in kwargs.items() if k not in params and k not in [x.arg for x in a.kwonlyargs]}
        if a.kwarg:
            env[a.kwarg.arg] = extra
        elif extra:
            raise PyRaise("TypeError", f"unexpected keyword {list(extra)} for {name}")
        if isinstance(node, ast.Lambda):
            return self.eval(node.body, env)
        self.depth += 1
        try:
            self.exec_block(node.body, env)
        except _Return as r:
            return r.value
        finally:
            self.depth -= 1
        return None

    def call(self, f, args, kwargs):
        if isinstance(f, BoundMethod):
            return self.call(f.func, [f.obj] + list(args), kwargs)
        if isinstance(f, Func):
            h = self.ext.get(f"func:{f.name}")
            if h is not None:
                return h(self, args, kwargs)
            return self.call_node(f.node, f.module, args, kwargs, name=f.name)
        if isinstance(f, Closure):
            return self.call_node(f.node, f.module, args, kwargs, name=f.name, closure_env=f.env)
        if isinstance(f, Cls):
            return self.instantiate(f, args, kwargs)
        if isinstance(f, NativeCallable):
            if self.is_sym(*args) or self.is_sym(*kwargs.values()):
                raise OutsideSubset("symbolic argument to a method of a concrete numpy array")
            return f.fn(*args, **kwargs)
        if isinstance(f, Builtin):
            return f.fn(self, args, kwargs)
        if isinstance(f, PyMethod):
            return f.call(self, args, kwargs)
        if isinstance(f, ExcType):
            return ExcValue(f.name, args[0] if args else "")
        if isinstance(f, ExtRef):
            return self.ext_call(f.name, args, kwargs)
        if isinstance(f, Sym):
            if getattr(self, "_uninterp", None) is not None:
                self._uninterp.append(("call", [self.w.to_val(a) for a in [f] + list(args)]))
            return self.w.uf("call", [f] + list(args), "val")
        if callable(f) and getattr(f, "__name__", "") == "<lambda>":
            # harness stubs (loggers, ...) are plain Python callables
            return f(*args, **kwargs)
        raise OutsideSubset(f"call of {type(f).__name__}")

    def ext_call(self, name, args, kwargs):
        h = self.ext.get(name)
        if h is not None:
            return h(self, args, kwargs)
        if name.startswith(NOOP_EXT_PREFIXES):
            return None
        h = _DEFAULT_EXT.get(name)
        if h is not None:
            return h(self, args, kwargs)
        allargs = list(args) + [v for _, v in sorted(kwargs.items())]
        tag = name + ("" if not kwargs else "[" + ",".join(sorted(kwargs)) + "]")
        r = self.w.uf(tag, allargs, "val")
        if getattr(self, "_uninterp", None) is not None:
            self._uninterp.append((tag, [self.w.to_val(a) for a in allargs]))
        if name == "open":
            self.p.events.append(("effect", "open", [self.w.to_val(a) for a in allargs]))
        if name in _LEN_PRESERVING and args and isinstance(args[0], Sym) and args[0].meta.get("len") is not None:
            r.meta["len"] = args[0].meta["len"]
        elif name in ("xp.ones", "xp.zeros", "xp.empty", "np.ones", "np.zeros") and args:
            n = args[0]
            if isinstance(n, int):
                r.meta["len"] = n
            elif isinstance(n, Sym) and n.kind == "int":
                r.meta["len"] = n.e
        return r

    def instantiate(self, cls: Cls, args, kwargs):
        h = self.ext.get(f"cls:{cls.name}")
        if h is not None:
            return h(self, args, kwargs)
        return self._instantiate(cls, args, kwargs)

    def _instantiate(self, cls: Cls, args, kwargs):
        obj = Obj(cls)
        init, c = cls.lookup("methods", "__init__")
        if init is not None:
            self.call_node(init, c.module, [obj] + list(args), kwargs, name=f"{cls.name}.__init__")
            return obj
        # dataclass-style: annotated class attributes with defaults
        order = []
        chain = []
        todo = [cls]
        while todo:
            k = todo.pop(0)
            chain.append(k)
            todo.extend(k.bases)
        for k in reversed(chain):
            for n in k.node.body:
                if isinstance(n, ast.AnnAssign) and isinstance(n.target, ast.Name):
                    if n.target.id not in order:
                        order.append(n.target.id)
                    if n.value is not None:
                        obj.fields[n.target.id] = self.eval(n.value, Env(k.module))
        for i, v in enumerate(args):
            obj.fields[order[i]] = v
        for k, v in kwargs.items():
            obj.fields[k] = v
        return obj

    # ---------------------------------------------------------------------------------------------
    # expressions
    # ---------------------------------------------------------------------------------------------
    def eval(self, node, env):  # noqa: C901
        t = type(node)
        if t is ast.Constant:
            return node.value
        if t is ast.Name:
            return self.lookup(node.id, env)
        if t is ast.Attribute:
            return self.get_attr(self.eval(node.value, env), node.attr, env)
        if t is ast.Call:
            f = self.eval(node.func, env)
            args = []
            for a in node.args:
                if isinstance(a, ast.Starred):
                    v = self.eval(a.value, env)
                    if isinstance(v, (list, tuple)):
                        args.extend(v)
                    else:
                        raise OutsideSubset("star-args of symbolic value")
                else:
                    args.append(self.eval(a, env))
            kwargs = {}
            for k in node.keywords:
                if k.arg is None:
                    v = self.eval(k.value, env)
                    if isinstance(v, dict):
                        kwargs.update(v)
                    else:
                        raise OutsideSubset("**kwargs of symbolic value")
                else:
                    kwargs[k.arg] = self.eval(k.value, env)
            return self.call(f, args, kwargs)
        if t is ast.BinOp:
            return self.binop(type(node.op), self.eval(node.left, env), self.eval(node.right, env))
        if t is ast.UnaryOp:
            v = self.eval(node.operand, env)
            if isinstance(node.op, ast.Not):
                return not self.truth(v)
            if isinstance(v, Sym):
                if v.kind in ("int", "real"):
                    return Sym(-v.e, v.kind) if isinstance(node.op, ast.USub) else v
                return self.w.uf("neg" if isinstance(node.op, ast.USub) else "pos", [v], "val")
            return -v if isinstance(node.op, ast.USub) else (+v if isinstance(node.op, ast.UAdd) else ~v)
        if t is ast.BoolOp:
            if isinstance(node.op, ast.And):
                v = True
                for x in node.values:
                    v = self.eval(x, env)
                    if not self.truth(v):
                        return v if not isinstance(v, Sym) else False
                return v if not isinstance(v, Sym) else True
            v = False
            for x in node.values:
                v = self.eval(x, env)
                if self.truth(v):
                    return v if not isinstance(v, Sym) else True
            return v if not isinstance(v, Sym) else False
        if t is ast.Compare:
            left = self.eval(node.left, env)
            for op, rn in zip(node.ops, node.comparators):
                right = self.eval(rn, env)
                r = self.compare(type(op), left, right)
                if len(node.ops) == 1:
                    return r
                if not self.truth(r):
                    return False
                left = right
            return True
        if t is ast.IfExp:
            return self.eval(node.body if self.truth(self.eval(node.test, env)) else node.orelse, env)
        if t in (ast.List, ast.Tuple, ast.Set):
            out = []
            for x in node.elts:
                if isinstance(x, ast.Starred):
                    v = self.eval(x.value, env)
                    if isinstance(v, (list, tuple, set, dict)):
                        out.extend(v)
                    else:
                        return self.w.uf(f"star:{_srchash(node)}", [v], "val")
                else:
                    out.append(self.eval(x, env))
            if t is ast.List:
                return out
            if t is ast.Tuple:
                return tuple(out)
            if any(isinstance(x, (Sym, Obj)) for x in out):
                return self.w.uf("set", out, "val")
            return set(out)
        if t is ast.Dict:
            return {self.eval(k, env): self.eval(v, env) for k, v in zip(node.keys, node.values)}
        if t is ast.Subscript:
            base = self.eval(node.value, env)
            idx = self.eval_index(node.slice, env)
            return self.getitem(base, idx)
        if t is ast.JoinedStr:
            parts = []
            sym = []
            for v in node.values:
                if isinstance(v, ast.Constant):
                    parts.append(v.value)
                else:
                    x = self.eval(v.value, env)
                    if isinstance(x, (Sym, Obj)) or hasattr(x, "pieces"):
                        sym.append(x)
                        parts.append("{}")
                    else:
                        parts.append(format(x, self.eval(v.format_spec, env) if v.format_spec else "") if not isinstance(x, (list, dict, tuple)) else str(x))
            if sym:
                from .symstr import SStr, Tok

                pieces = []
                for v in node.values:
                    if isinstance(v, ast.Constant):
                        pieces.append(v.value)
                    else:
                        x = self.eval(v.value, env)
                        spec = self.eval(v.format_spec, env) if v.format_spec else ""
                        if isinstance(x, SStr):
                            pieces.append(x)
                        elif isinstance(x, (Sym, Obj)):
                            pieces.append(Tok(x, spec))
                        elif isinstance(x, (str, int, float, np.generic)):
                            pieces.append(format(x, spec) if not isinstance(x, np.generic) else format(x.item(), spec))
                        else:
                            pieces.append(Tok(x, spec))
                return SStr(pieces)
            return "".join(parts)
        if t is ast.Lambda:
            return Closure(node, env.module, env, "<lambda>")
        if t in (ast.ListComp, ast.GeneratorExp, ast.SetComp):
            return self.comprehension(node, env)
        if t is ast.Slice:
            return slice(self.eval(node.lower, env) if node.lower else None,
                         self.eval(node.upper, env) if node.upper else None,
                         self.eval(node.step, env) if node.step else None)
        if t is ast.Starred:
            raise OutsideSubset("starred expression")
        if t is ast.NamedExpr:
            v = self.eval(node.value, env)
            env[node.target.id] = v
            return v
        raise OutsideSubset(f"expression {t.__name__}")

    def eval_index(self, node, env):
        if isinstance(node, ast.Tuple):
            return tuple(self.eval_index(x, env) for x in node.elts)
        return self.eval(node, env)

    def comprehension(self, node, env):
        gens = node.generators
        if len(gens) == 1:
            it = self.eval(gens[0].iter, env)
            if isinstance(it, SymRange) and not gens[0].ifs:
                return SymSeq(z3.If(it.n > 0, it.n, 0), self.w.uf(f"comp:{_srchash(node)}", self.read_values(node, env), "val"))
        out = []

        def rec(k, e):
            if k == len(gens):
                out.append(self.eval(node.elt, e))
                return True
            g = gens[k]
            it = self.eval(g.iter, e)
            seq = self.concrete_iter(it)
            if seq is None:
                return False
            for x in seq:
                e2 = Env(e.module, parent=e)
                self.assign_target(g.target, x, e2)
                if all(self.truth(self.eval(c, e2)) for c in g.ifs):
                    if not rec(k + 1, e2):
                        return False
            return True

        if not rec(0, env):
            reads = self.read_values(node, env)
            return self.w.uf(f"comp:{_srchash(node)}", reads, "val")
        if isinstance(node, ast.SetComp):
            return set(out)
        return out

    def concrete_iter(self, it):
        if hasattr(it, "z_iter"):
            return it.z_iter(self)
        if isinstance(it, np.ndarray):
            return list(it)
        if isinstance(it, (list, tuple)):
            return list(it)
        if isinstance(it, range):
            return list(it)
        if isinstance(it, (set, frozenset)):
            return sorted(it, key=repr)
        if isinstance(it, dict):
            return list(it)
        if isinstance(it, str):
            return list(it)
        if isinstance(it, (zip, enumerate, map)):
            return list(it)
        return None

    def read_values(self, node, env, skip_names=()):
        """Values of everything read inside node (for summarising an uninterpreted block): every maximal
        attribute chain rooted at a name (`self.kpts.k`, `atoms.G`, `n`) is evaluated; a chain that ends in a bound
        method contributes all fields of its object (conservative)."""
        chains = {}
        skip = set()

        def visit(n):
            if isinstance(n, ast.Attribute) and isinstance(n.ctx, ast.Load):
                root = n
                while isinstance(root, ast.Attribute):
                    root = root.value
                if isinstance(root, ast.Name):
                    if root.id not in skip_names:
                        chains[ast.unparse(n)] = n
                    return
            if isinstance(n, ast.Name) and isinstance(n.ctx, ast.Load):
                if n.id not in skip_names:
                    chains[n.id] = n
                return
            for c in ast.iter_child_nodes(n):
                visit(c)

        visit(node)
        vals = []
        for key in sorted(chains):
            n = chains[key]
            # evaluate the longest prefix of the chain that yields a value
            cand = n
            v = None
            ok = False
            while True:
                try:
                    v = self.eval(cand, env)
                    ok = True
                    break
                except (OutsideSubset, PyRaise):
                    if isinstance(cand, ast.Attribute):
                        cand = cand.value
                        continue
                    break
            if not ok:
                continue
            if isinstance(v, BoundMethod):
                vals.extend(self.obj_values(v.obj))
            elif isinstance(v, (Func, Cls, ExtRef, Builtin, ModuleRef, Closure, ExcType, PyMethod)):
                continue
            elif isinstance(v, Obj):
                vals.extend(self.obj_values(v))
            else:
                vals.append(v)
        return vals

    def obj_values(self, o, seen=None):
        seen = seen if seen is not None else set()
        if id(o) in seen:
            return []
        seen.add(id(o))
        out = []
        for k in sorted(o.fields):
            v = o.fields[k]
            if isinstance(v, Obj):
                out.extend(self.obj_values(v, seen))
            else:
                out.append(v)
        return out

    def binop(self, op, l, r):
        if op is ast.Mod and isinstance(l, str) and isinstance(r, tuple) and any(isinstance(x, Sym) for x in r):
            from .symstr import percent_format

            return percent_format(l, r)
        if hasattr(l, "z_binop"):
            res = l.z_binop(self, op, r, False)
            if res is not NotImplemented:
                return res
        if hasattr(r, "z_binop"):
            res = r.z_binop(self, op, l, True)
            if res is not NotImplemented:
                return res
        if isinstance(l, list) and not isinstance(l, Vec) and isinstance(r, Sym) and r.kind == "int" and op is ast.Mult:
            return RepList(l, r.e)
        if isinstance(l, SymSeq) or isinstance(r, SymSeq):
            if op is ast.Add:
                nl = l.n if isinstance(l, SymSeq) else len(l)
                nr = r.n if isinstance(r, SymSeq) else len(r)
                return SymSeq(nl + nr, self.w.uf("seq.concat", [l.desc if isinstance(l, SymSeq) else l, r.desc if isinstance(r, SymSeq) else r], "val"))
            raise OutsideSubset("arithmetic on a symbolic-length sequence")
        if isinstance(l, Vec) or isinstance(r, Vec):
            if isinstance(l, Vec) and isinstance(r, Vec):
                if len(l) == 1 and len(r) != 1:
                    return Vec([self.binop(op, l[0], b) for b in r])
                if len(r) == 1 and len(l) != 1:
                    return Vec([self.binop(op, a, r[0]) for a in l])
                if len(l) != len(r):
                    raise PyRaise("ValueError", "shape mismatch")
                return Vec([self.binop(op, a, b) for a, b in zip(l, r)])
            if isinstance(l, Vec) and not isinstance(r, (list, tuple, Obj)):
                return Vec([self.binop(op, a, r) for a in l])
            if isinstance(r, Vec) and not isinstance(l, (list, tuple, Obj)):
                return Vec([self.binop(op, l, b) for b in r])
        if not self.is_sym(l, r) and not isinstance(l, Obj) and not isinstance(r, Obj):
            try:
                return _BINOPS[op](l, r)
            except ZeroDivisionError:
                raise PyRaise("ZeroDivisionError") from None
            except TypeError:
                return self.w.uf(_OPNAME[op], [l, r], "val")
        # numeric z3 arithmetic where both sides are numeric
        kinds = []
        for v in (l, r):
            if isinstance(v, Sym):
                kinds.append(v.kind)
            elif isinstance(v, bool):
                kinds.append("int")
            elif isinstance(v, int):
                kinds.append("int")
            elif isinstance(v, float):
                kinds.append("real")
            else:
                kinds.append("other")
        if all(k in ("int", "real") for k in kinds):
            kind = "real" if ("real" in kinds or op is ast.Div) else "int"
            a, b = self.as_z3(l, kind), self.as_z3(r, kind)
            if op is ast.Add:
                return Sym(a + b, kind)
            if op is ast.Sub:
                return Sym(a - b, kind)
            if op is ast.Mult:
                return Sym(a * b, kind)
            if op is ast.Div:
                self.oblige("division by zero", b != 0)
                return Sym(a / b, "real")
            if op is ast.FloorDiv and kind == "int":
                # Python floor division; z3 div is floor for positive divisors, ceil for negative ones
                return Sym(z3.If(b > 0, a / b, -((-a) / (-b)) if False else z3.If(a % b == 0, a / b, a / b - 1 + 1)), "int") if False else Sym(_pyfloordiv(a, b), "int")
            if op is ast.Mod and kind == "int":
                return Sym(_pymod(a, b), "int")
            if op is ast.Pow and isinstance(r, int) and 0 <= r <= 4:
                e = z3.IntVal(1) if kind == "int" else z3.RealVal(1)
                for _ in range(r):
                    e = e * a
                return Sym(e, kind)
        res = self.w.uf(_OPNAME[op], [l, r], "val")
        if op is not ast.MatMult:
            lens = [v.meta.get("len") for v in (l, r) if isinstance(v, Sym) and v.meta.get("len") is not None]
            others = [v for v in (l, r) if not (isinstance(v, Sym) and v.meta.get("len") is not None)]
            if lens and all(isinstance(v, (int, float)) or (isinstance(v, Sym) and v.kind in ("int", "real")) for v in others):
                res.meta["len"] = lens[0]
        return res

    def compare(self, op, l, r):
        if op in (ast.Is, ast.IsNot):
            if isinstance(l, Sym) or isinstance(r, Sym):
                # a symbolic value is never None / True / False singletons (harnesses fork on None-ness explicitly)
                if l is None or r is None or isinstance(l, bool) or isinstance(r, bool):
                    if isinstance(l, Sym) and l.kind == "bool" and isinstance(r, bool):
                        res = Sym(l.e == z3.BoolVal(r), "bool")
                        return res if op is ast.Is else Sym(z3.Not(res.e), "bool")
                    return op is ast.IsNot
                same = l is r or (isinstance(l, Sym) and isinstance(r, Sym) and l.e.eq(r.e))
                return same if op is ast.Is else not same
            res = l is r
            return res if op is ast.Is else not res
        if op in (ast.In, ast.NotIn):
            if not self.is_sym(l) and not isinstance(r, Sym) and not (isinstance(r, (list, tuple, set)) and any(isinstance(x, Sym) for x in r)):
                if isinstance(r, ExtRef):
                    res = self.w.uf("in", [l, r], "bool")
                    return res if op is ast.In else Sym(z3.Not(res.e), "bool")
                res = l in r
                return res if op is ast.In else not res
            if isinstance(r, (list, tuple, set)) and not isinstance(l, Obj):
                ors = []
                for x in r:
                    c = self.compare(ast.Eq, l, x)
                    ors.append(c.e if isinstance(c, Sym) else z3.BoolVal(bool(c)))
                e = z3.Or(*ors) if ors else z3.BoolVal(False)
                return Sym(e if op is ast.In else z3.Not(e), "bool")
            res = self.w.uf("in", [l, r], "bool")
            return res if op is ast.In else Sym(z3.Not(res.e), "bool")
        if not self.is_sym(l, r):
            try:
                return _CMP[op](l, r)
            except TypeError:
                return self.w.uf(_CMPNAME[op], [l, r], "bool")
        kinds = [v.kind if isinstance(v, Sym) else ("int" if isinstance(v, (bool, int)) else "real" if isinstance(v, float) else "other") for v in (l, r)]
        if all(k in ("int", "real") for k in kinds):
            kind = "real" if "real" in kinds else "int"
            a, b = self.as_z3(l, kind), self.as_z3(r, kind)
            return Sym(_CMP[op](a, b), "bool")
        if all(k == "bool" or k == "int" for k in kinds) and op in (ast.Eq, ast.NotEq) and "bool" in kinds:
            a = l.e if isinstance(l, Sym) else z3.BoolVal(bool(l))
            b = r.e if isinstance(r, Sym) else z3.BoolVal(bool(r))
            if z3.is_bool(a) and z3.is_bool(b):
                return Sym(a == b if op is ast.Eq else a != b, "bool")
        if op in (ast.Eq, ast.NotEq):
            a, b = self.w.to_val(l), self.w.to_val(r)
            e = a == b
            return Sym(e if op is ast.Eq else z3.Not(e), "bool")
        # ordering on opaque values (arrays): element-wise comparison result is itself an (opaque) array
        return self.w.uf(_CMPNAME[op], [l, r], "val")

    def getitem(self, base, idx):
        if hasattr(base, "z_getitem"):
            return base.z_getitem(self, idx)
        if isinstance(base, np.ndarray) and not self.is_sym(idx):
            r = base[idx]
            return r.item() if isinstance(r, np.generic) else r
        if isinstance(base, (list, tuple, str)) and not self.is_sym(idx) and not (isinstance(idx, tuple) and self.is_sym(*idx)):
            try:
                return base[idx]
            except (IndexError, TypeError) as e:
                raise PyRaise(type(e).__name__, str(e)) from None
        if isinstance(base, dict) and not self.is_sym(idx):
            if idx in base:
                return base[idx]
            raise PyRaise("KeyError", repr(idx))
        if isinstance(base, (list, tuple)) and isinstance(idx, Sym) and idx.kind == "int":
            # symbolic index into a concrete sequence: case split
            for k in range(len(base)):
                if self.p.branch(idx.e == k):
                    return base[k]
            for k in range(1, len(base) + 1):
                if self.p.branch(idx.e == -k):
                    return base[-k]
            raise PyRaise("IndexError", "symbolic index out of range")
        if isinstance(base, Sym) and base.meta.get("zarray") is not None and not isinstance(idx, (tuple, slice)):
            zi = self.as_z3(idx, "int")
            if zi is not None:
                return Sym(z3.Select(base.meta["zarray"], zi), "real")
        idxs = list(idx) if isinstance(idx, tuple) else [idx]
        idxs = [("slice", i.start, i.stop, i.step) if isinstance(i, slice) else i for i in idxs]
        flat = []
        for i in idxs:
            if isinstance(i, tuple):
                flat.extend(["slice", *i[1:]])
            else:
                flat.append(i)
        return self.w.uf(f"getitem{len(idxs)}", [base] + flat, "val")

    # ---------------------------------------------------------------------------------------------
    # statements
    # ---------------------------------------------------------------------------------------------
    def exec_block(self, stmts, env):
        for s in stmts:
            self.exec(s, env)

    def assign_target(self, tgt, value, env):
        if isinstance(tgt, ast.Name):
            env[tgt.id] = value
        elif isinstance(tgt, ast.Attribute):
            self.set_attr(self.eval(tgt.value, env), tgt.attr, value)
        elif isinstance(tgt, (ast.Tuple, ast.List)):
            if isinstance(value, (list, tuple)):
                if len(value) != len(tgt.elts):
                    raise PyRaise("ValueError", "unpack")
                for t, v in zip(tgt.elts, value):
                    self.assign_target(t, v, env)
            elif isinstance(value, Sym):
                for k, t in enumerate(tgt.elts):
                    self.assign_target(t, self.w.uf(f"unpack{k}of{len(tgt.elts)}", [value], "val"), env)
            else:
                raise OutsideSubset("unpack of " + type(value).__name__)
        elif isinstance(tgt, ast.Subscript):
            base = self.eval(tgt.value, env)
            idx = self.eval_index(tgt.slice, env)
            self.setitem(tgt.value, base, idx, value, env)
        else:
            raise OutsideSubset(f"assignment target {type(tgt).__name__}")

    def setitem(self, base_node, base, idx, value, env):
        if hasattr(base, "z_setitem"):
            base.z_setitem(self, idx, value)
            return
        if isinstance(base, list) and not self.is_sym(idx):
            base[idx] = value
            return
        if isinstance(base, dict) and not self.is_sym(idx):
            base[idx] = value
            return
        if isinstance(base, Sym):
            idxs = list(idx) if isinstance(idx, tuple) else [idx]
            flat = []
            for i in idxs:
                if isinstance(i, slice):
                    flat.extend(["slice", i.start, i.stop, i.step])
                else:
                    flat.append(i)
            new = self.w.uf(f"setitem{len(idxs)}", [base] + flat + [value], "val")
            new.meta = dict(base.meta)
            self.write_back(base_node, base, new, env)
            return
        raise OutsideSubset(f"item store on {type(base).__name__}")

    def write_back(self, base_node, old, new, env):
        """In-place mutation of an array value: store the new term where the array lives."""
        prov = old.meta.get("prov") if isinstance(old, Sym) else None
        if isinstance(base_node, ast.Name):
            e = env
            while e is not None:
                if base_node.id in e:
                    e[base_node.id] = new
                    break
                e = e.parent
            if prov is not None:
                prov[0].fields[prov[1]] = Sym(new.e, new.kind, {k: v for k, v in new.meta.items() if k != "prov"})
            return
        if prov is not None:
            prov[0].fields[prov[1]] = Sym(new.e, new.kind, {k: v for k, v in new.meta.items() if k != "prov"})
            self.writes_log.append((prov[0], prov[1]))
            return
        if isinstance(base_node, ast.Subscript):
            # x[i][j] = v  ->  x[i] = setitem(x[i], j, v)
            outer = self.eval(base_node.value, env)
            oidx = self.eval_index(base_node.slice, env)
            self.setitem(base_node.value, outer, oidx, new, env)
            return
        raise OutsideSubset("in-place mutation of a value without a home: " + ast.unparse(base_node))

    def exec(self, s, env):  # noqa: C901
        t = type(s)
        if t is ast.Expr:
            if isinstance(s.value, ast.Constant):
                return
            if isinstance(s.value, ast.Call):
                # a call whose result is discarded is made for its effect: if the callee is not interpreted, the call and its
                # arguments are recorded as an observable event of the path
                saved = getattr(self, "_uninterp", None)
                self._uninterp = []
                try:
                    self.eval(s.value, env)
                    if self._uninterp:
                        tag, argv = self._uninterp[-1]
                        self.p.events.append(("effect", tag, argv))
                finally:
                    self._uninterp = saved
            else:
                self.eval(s.value, env)
        elif t is ast.Assign:
            v = self.eval(s.value, env)
            for tg in s.targets:
                self.assign_target(tg, v, env)
        elif t is ast.AnnAssign:
            if s.value is not None:
                self.assign_target(s.target, self.eval(s.value, env), env)
        elif t is ast.AugAssign:
            if isinstance(s.target, ast.Subscript):
                base = self.eval(s.target.value, env)
                idx = self.eval_index(s.target.slice, env)
                cur = self.getitem(base, idx)
                new = self.binop(type(s.op), cur, self.eval(s.value, env))
                self.setitem(s.target.value, base, idx, new, env)
            else:
                load = copy_load(s.target)
                cur = self.eval(load, env)
                new = self.binop(type(s.op), cur, self.eval(s.value, env))
                if isinstance(cur, list) and not isinstance(cur, Vec) and isinstance(s.op, ast.Add) and isinstance(new, list):
                    cur[:] = new
                    new = cur
                self.assign_target(s.target, new, env)
        elif t is ast.If:
            if self.truth(self.eval(s.test, env)):
                self.exec_block(s.body, env)
            else:
                self.exec_block(s.orelse, env)
        elif t is ast.Return:
            raise _Return(self.eval(s.value, env) if s.value is not None else None)
        elif t is ast.Pass:
            return
        elif t is ast.Raise:
            if s.exc is None:
                raise PyRaise("reraise")
            v = self.eval(s.exc, env)
            if isinstance(v, ExcValue):
                raise PyRaise(v.name, str(v.msg)[:80])
            if isinstance(v, ExcType):
                raise PyRaise(v.name)
            raise PyRaise("Exception")
        elif t is ast.For:
            self.exec_for(s, env)
        elif t is ast.While:
            self.exec_while(s, env)
        elif t is ast.Break:
            raise _Break()
        elif t is ast.Continue:
            raise _Continue()
        elif t is ast.With:
            for item in s.items:
                v = self.eval(item.context_expr, env)
                if item.optional_vars is not None:
                    self.assign_target(item.optional_vars, v, env)
            self.exec_block(s.body, env)
        elif t is ast.FunctionDef:
            env[s.name] = Closure(s, env.module, env, s.name)
        elif t is ast.Try:
            try:
                self.exec_block(s.body, env)
            except PyRaise as e:
                for h in s.handlers:
                    names = []
                    if h.type is None:
                        names = None
                    elif isinstance(h.type, ast.Tuple):
                        names = [ast.unparse(x) for x in h.type.elts]
                    else:
                        names = [ast.unparse(h.type)]
                    if names is None or e.etype in names or "Exception" in names:
                        if h.name:
                            env[h.name] = ExcValue(e.etype, e.msg)
                        self.exec_block(h.body, env)
                        break
                else:
                    raise
            else:
                self.exec_block(s.orelse, env)
            finally:
                if s.finalbody:
                    self.exec_block(s.finalbody, env)
        elif t in (ast.Import, ast.ImportFrom):
            for a in s.names:
                env[a.asname or a.name.split(".")[0]] = ExtRef(a.asname or a.name)
        elif t is ast.Assert:
            if not self.truth(self.eval(s.test, env)):
                raise PyRaise("AssertionError")
        elif t is ast.Delete:
            for tg in s.targets:
                if isinstance(tg, ast.Subscript):
                    b = self.eval(tg.value, env)
                    i = self.eval_index(tg.slice, env)
                    if isinstance(b, (dict, list)) and not self.is_sym(i):
                        del b[i]
                        continue
                raise OutsideSubset("del")
        elif t is ast.Global or t is ast.Nonlocal:
            return
        else:
            raise OutsideSubset(f"statement {t.__name__}")

    def loop_key(self, s, env):
        fn = env.get("__fn__", "?")
        return s

    def oblige(self, label, formula):
        self.obligations.append((label, list(self.p.pc), formula))

    def exec_for(self, s, env):
        it = self.eval(s.iter, env)
        if hasattr(it, "z_order_probe"):
            return it.z_order_probe(self, s, env)
        seq = self.concrete_iter(it)
        if seq is None:
            spec = self.loop_specs.get(("for", ast.unparse(s.iter), ast.unparse(s.target))) or self.loop_specs.get(("for", ast.unparse(s.iter), "*"))
            if spec is not None and isinstance(it, SymRange) and isinstance(s.target, ast.Name):
                n = it.n
                tag = f"L{len(self.obligations)}"
                self.loop_node = s
                if spec.on_entry is not None:
                    spec.on_entry(self, env)
                self.oblige(f"invariant holds on entry of `for {ast.unparse(s.target)} in {ast.unparse(s.iter)}`", spec.inv(self, env, z3.IntVal(0)))
                # arbitrary iteration
                saved = dict(env)
                spec.havoc(self, env, tag + "a", s.body)
                i = self.w.fresh(f"{s.target.id}@{tag}", "int")
                self.p.pc.append(z3.And(i.e >= 0, i.e < n))
                self.p.pc.append(spec.inv(self, env, i.e))
                env[s.target.id] = Sym(z3.simplify(i.e + it.start), "int") if it.start else i
                try:
                    self.exec_block(s.body, env)
                except _Break:
                    # leaving the loop from an arbitrary iteration: continue after the loop with the current state
                    return
                except _Continue:
                    pass
                self.oblige(f"invariant preserved by `for {ast.unparse(s.target)} in {ast.unparse(s.iter)}`", spec.inv(self, env, i.e + 1))
                # after the loop
                spec.havoc(self, env, tag + "z", s.body)
                self.p.pc.append(spec.inv(self, env, z3.If(n > 0, n, 0)))
                env[s.target.id] = self.w.fresh(f"{s.target.id}@{tag}end", "int")
                return
            self.summarise_loop(s, env, [it])
            return
        broke = False
        for x in seq:
            self.assign_target(s.target, x, env)
            try:
                self.exec_block(s.body, env)
            except _Break:
                broke = True
                break
            except _Continue:
                continue
        if not broke:
            self.exec_block(s.orelse, env)

    def exec_while(self, s, env):
        spec = self.loop_specs.get(("while", ast.unparse(s.test)))
        if spec is None:
            # structural keys: ("while", predicate(ast.While) -> bool): contracts that do not depend on the names of the loop's variables
            for k, v in self.loop_specs.items():
                if k[0] == "while" and callable(k[1]) and k[1](s):
                    spec = v
                    break
        if spec is not None:
            tag = f"W{len(self.obligations)}"
            self.loop_node = s
            if spec.on_entry is not None:
                spec.on_entry(self, env)
            self.oblige(f"invariant holds on entry of `while {ast.unparse(s.test)}`", spec.inv(self, env, None))
            spec.havoc(self, env, tag + "a")
            self.p.pc.append(spec.inv(self, env, None))
            # the loop exits here (guard false) on one path, runs an arbitrary iteration on the other
            if self.truth(self.eval(s.test, env)):
                v0 = spec.variant(self, env) if spec.variant else None
                broke = False
                try:
                    self.exec_block(s.body, env)
                except _Break:
                    broke = True
                except _Continue:
                    pass
                if not broke:
                    self.oblige(f"invariant preserved by `while {ast.unparse(s.test)}`", spec.inv(self, env, None))
                    if v0 is not None:
                        v1 = spec.variant(self, env)
                        self.oblige(f"variant of `while {ast.unparse(s.test)}` decreases and is bounded", z3.And(v1 < v0, v0 >= 0))
                    # this path re-enters the loop: it is covered by the arbitrary iteration; stop it here
                    raise PathEnd()
                # break: continue after the loop with the current state
                return
            return
        # concrete loops are simply executed (bounded), symbolic ones summarised
        n = 0
        while True:
            c = self.eval(s.test, env)
            if isinstance(c, Sym):
                if self.unroll:
                    # bounded unrolling with an unwinding assertion (complete when the assertion is proved)
                    if n >= self.unroll:
                        cz = c.e if c.kind == "bool" else (c.e != 0)
                        self.oblige(f"unwinding assertion ({self.unroll} iterations) of `while {ast.unparse(s.test)}`", z3.Not(cz))
                        self.p.pc.append(z3.Not(cz))
                        break
                    if not self.truth(c):
                        break
                    n += 1
                    try:
                        self.exec_block(s.body, env)
                    except _Break:
                        return
                    except _Continue:
                        continue
                    continue
                if n == 0:
                    self.summarise_loop(s, env, [])
                    return
                raise OutsideSubset("while loop became symbolic after concrete iterations")
            if not c:
                break
            n += 1
            if n > 10000:
                raise OutsideSubset("concrete while loop does not terminate")
            try:
                self.exec_block(s.body, env)
            except _Break:
                return
            except _Continue:
                continue
        self.exec_block(s.orelse, env)

    def summarise_loop(self, s, env, extra):
        """Loop with a symbolic trip count and no invariant: every variable / field / array written in the body
        becomes an uninterpreted function of everything the loop reads (deterministic, otherwise unknown)."""
        # the loop's own target is assigned before the body can read it: its previous value is an input of the loop only
        # for the target itself (zero iterations leave it unchanged)
        own = set()
        if isinstance(s, ast.For):
            own = {n.id for n in ast.walk(s.target) if isinstance(n, ast.Name)}
        reads = self.read_values(s, env, skip_names=own) + list(extra)
        own_old = [env[n] for n in sorted(own) if n in env]
        h = _srchash(s)
        targets = []
        for n in ast.walk(s):
            tg = None
            if isinstance(n, (ast.Assign,)):
                tg = n.targets
            elif isinstance(n, (ast.AugAssign, ast.AnnAssign)):
                tg = [n.target]
            elif isinstance(n, ast.For):
                tg = [n.target]
            elif isinstance(n, ast.Call) and isinstance(n.func, ast.Attribute) and n.func.attr in ("append", "extend", "insert", "pop", "update", "add", "remove"):
                tg = [n.func.value]
            if tg:
                for x in tg:
                    for y in (x.elts if isinstance(x, (ast.Tuple, ast.List)) else [x]):
                        targets.append(y)
        done = set()
        for y in targets:
            root = y
            while isinstance(root, ast.Subscript):
                root = root.value
            key = ast.unparse(root)
            if key in done:
                continue
            done.add(key)
            newv = self.w.uf(f"loop:{h}:{key}", reads + (own_old if key in own else []), "val")
            if isinstance(root, ast.Name):
                env[root.id] = newv
            elif isinstance(root, ast.Attribute):
                try:
                    base = self.eval(root.value, env)
                except (PyRaise, OutsideSubset):
                    continue
                if isinstance(base, Obj):
                    # in-place writes go to the storage behind a trivial getter
                    cur = None
                    try:
                        cur = self.get_attr(base, root.attr)
                    except PyRaise:
                        pass
                    if isinstance(y, ast.Subscript) and isinstance(cur, Sym) and cur.meta.get("prov"):
                        po, pf = cur.meta["prov"]
                        po.fields[pf] = newv
                    elif isinstance(y, ast.Subscript):
                        base.fields[root.attr] = newv
                    else:
                        self.set_attr(base, root.attr, newv)
        self.p.events.append(("loop-summarised", ast.unparse(s).splitlines()[0]))
        for n in ast.walk(s):
            if isinstance(n, ast.Expr) and isinstance(n.value, ast.Call) and not ast.unparse(n.value.func).startswith(NOOP_EXT_PREFIXES):
                # the summarised body performs effects: one event carrying everything the loop reads
                self.p.events.append(("effect", f"loop:{h}", [self.w.to_val(v) for v in reads]))
                break


def copy_load(node):
    n = ast.parse(ast.unparse(node), mode="eval").body
    return n


def _pyfloordiv(a, b):
    # Python: floor(a / b). z3 Int div: result q with a = b*q + r, 0 <= r < |b| (Euclidean).
    # For b > 0 Euclidean == floor. For b < 0: floor(a/b) = -ceil(a/-b) = -((a + (-b) - 1) div (-b)) ... use If.
    return z3.If(b > 0, a / b, z3.If(a % b == 0, a / b, a / b - 1))


def _pymod(a, b):
    return a - b * _pyfloordiv(a, b)


# -------------------------------------------------------------------------------------------------
# builtins and python-object methods
# -------------------------------------------------------------------------------------------------


class Builtin:
    def __init__(self, name, fn):
        self.name, self.fn = name, fn


class ExcType:
    def __init__(self, name):
        self.name = name


class ExcValue:
    def __init__(self, name, msg):
        self.name, self.msg = name, msg


_EXC_NAMES = {"ValueError", "KeyError", "TypeError", "NotImplementedError", "AttributeError", "IndexError", "Exception",
              "AssertionError", "RuntimeError", "ImportError", "ZeroDivisionError", "StopIteration", "OSError",
              "FileNotFoundError"}


class PyMethod:
    def __init__(self, obj, name):
        self.obj, self.name = obj, name

    def call(self, it, args, kwargs):
        if isinstance(self.obj, str) and self.name == "join":
            from .symstr import SStr, Tok

            seq = it.concrete_iter(args[0])
            if seq is None:
                raise OutsideSubset("join of a symbolic-length sequence")
            if all(isinstance(x, str) for x in seq):
                return self.obj.join(seq)
            pieces = []
            for k, x in enumerate(seq):
                if k:
                    pieces.append(self.obj)
                pieces.append(x if isinstance(x, (str, SStr)) else Tok(x))
            return SStr(pieces)
        if any(isinstance(a, (Sym, Obj)) for a in args) and not isinstance(self.obj, (list, dict, set, SymSeq)) and not hasattr(self.obj, "_zpy"):
            return it.w.uf(f"meth.{self.name}", [self.obj] + list(args), "val")
        try:
            if hasattr(self.obj, "_zpy"):
                return getattr(self.obj, self.name)(it, *args, **kwargs)
            return getattr(self.obj, self.name)(*args, **kwargs)
        except (KeyError, IndexError, ValueError, AttributeError) as e:
            raise PyRaise(type(e).__name__, str(e)) from None


_TYPE_KIND = {
    "str": (str,), "list": (list,), "tuple": (tuple,), "dict": (dict,), "int": (int,), "float": (float,), "bool": (bool,),
    "numbers.Integral": (int,), "numbers.Real": (int, float), "numbers.Number": (int, float, complex), "set": (set,),
}


def _type_names(t):
    if isinstance(t, tuple):
        out = []
        for x in t:
            out.extend(_type_names(x))
        return out
    if isinstance(t, Builtin):
        return [t.name]
    if isinstance(t, ExtRef):
        return [t.name]
    if isinstance(t, Cls):
        return [f"cls:{t.name}"]
    return [repr(t)]


def _isinstance(it, args, kwargs):
    v, t = args
    names = _type_names(t)
    if isinstance(v, Obj):
        chain = []
        todo = [v.cls]
        while todo:
            c = todo.pop()
            chain.append(f"cls:{c.name}")
            todo.extend(c.bases)
        return any(n in chain for n in names)
    if isinstance(v, Sym):
        if v.kind == "int":
            return any(n in ("int", "numbers.Integral", "numbers.Real", "numbers.Number") for n in names)
        if v.kind == "real":
            return any(n in ("float", "numbers.Real", "numbers.Number") for n in names)
        if v.kind == "bool":
            return any(n in ("bool", "int", "numbers.Integral", "numbers.Real") for n in names)
        forced = v.meta.get("types")
        if forced is not None:
            return any(n in forced for n in names)
        res = False
        for n in names:
            r = it.w.uf(f"isinstance:{n}", [v], "bool")
            if it.p.branch(r.e):
                res = True
                break
        return res
    for n in names:
        tt = _TYPE_KIND.get(n)
        if tt and isinstance(v, tt) and not (n in ("int", "numbers.Integral", "numbers.Real") and isinstance(v, bool) and False):
            return True
    return False


def _len(it, args, kwargs):
    (v,) = args
    if hasattr(v, "z_len"):
        return v.z_len(it)
    if isinstance(v, SymSeq):
        return Sym(v.n, "int")
    if isinstance(v, Sym) and v.meta.get("len") is not None:
        ln = v.meta["len"]
        return ln if isinstance(ln, int) else Sym(ln, "int")
    if isinstance(v, Sym):
        r = it.w.uf("len", [v], "int")
        it.p.pc.append(r.e >= 0)
        return r
    if isinstance(v, ExtRef):
        return it.w.uf("len", [v], "int")
    return len(v)


def _int(it, args, kwargs):
    (v,) = args
    if hasattr(v, "pieces"):
        from .symstr import parse_number

        return parse_number(v, "int")
    if isinstance(v, Sym):
        if v.kind == "int":
            return v
        if v.kind == "bool":
            return Sym(z3.If(v.e, 1, 0), "int")
        if v.kind == "real":
            if "int" in v.meta:  # an integer-valued real (ceil / round results keep their integer term)
                return Sym(v.meta["int"], "int")
            # Python's int() truncates towards zero; z3's ToInt is the floor
            return Sym(z3.If(v.e >= 0, z3.ToInt(v.e), -z3.ToInt(-v.e)), "int")
        return it.w.uf("int", [v], "int")
    return int(v)


def _float(it, args, kwargs):
    (v,) = args
    if hasattr(v, "pieces"):
        from .symstr import parse_number

        return parse_number(v, "float")
    if isinstance(v, Sym):
        if v.kind == "real":
            return v
        if v.kind == "int":
            return Sym(z3.ToReal(v.e), "real")
        return it.w.uf("float", [v], "real")
    return float(v)


def _abs(it, args, kwargs):
    (v,) = args
    if isinstance(v, Sym):
        if v.kind in ("int", "real"):
            return Sym(z3.If(v.e >= 0, v.e, -v.e), v.kind)
        return it.w.uf("abs", [v], "val")
    return abs(v)


def _round(it, args, kwargs):
    """builtin round(x) of a symbolic real (no ndigits): the nearest integer, ties to even (contract of CPython's float.__round__)."""
    if len(args) == 1 and not kwargs and isinstance(args[0], Sym) and args[0].kind in ("real", "int"):
        v = args[0]
        if v.kind == "int":
            return v
        r = it.w.fresh("round", "int")
        rr = z3.ToReal(r.e)
        it.p.pc.append(z3.And(rr - v.e <= 0.5, v.e - rr <= 0.5))
        it.p.pc.append(z3.Implies(z3.Or(rr - v.e == 0.5, v.e - rr == 0.5), r.e % 2 == 0))
        return r
    if any(isinstance(a, Sym) for a in args):
        return it.w.uf("round", list(args), "val")
    return round(*args, **kwargs)


def _range(it, args, kwargs):
    if len(args) == 1 and isinstance(args[0], Sym) and args[0].kind == "int":
        return SymRange(args[0].e)
    if len(args) == 2 and isinstance(args[1], Sym) and args[1].kind == "int" and isinstance(args[0], int):
        return SymRange(args[1].e - args[0], start=args[0])
    if any(isinstance(a, Sym) for a in args):
        return it.w.uf("range", list(args), "val")
    return range(*[int(a) for a in args])


def _hasattr(it, args, kwargs):
    o, n = args
    if isinstance(o, Obj):
        return it.has_attr(o, n)
    raise OutsideSubset("hasattr on non-object")


def _setattr(it, args, kwargs):
    o, n, v = args
    if isinstance(n, str):
        it.set_attr(o, n, v)
        return None
    raise OutsideSubset("setattr with a symbolic name")


def _getattr(it, args, kwargs):
    o, n = args[:2]
    try:
        return it.get_attr(o, n)
    except PyRaise:
        if len(args) > 2:
            return args[2]
        raise


def _generic(name, kind="val"):
    def f(it, args, kwargs):
        if not any(isinstance(a, (Sym, Obj, ExtRef)) for a in args) and not any(
                isinstance(a, (list, tuple)) and any(isinstance(x, Sym) for x in a) for a in args):
            import builtins

            try:
                return getattr(builtins, name)(*args, **kwargs)
            except (TypeError, ValueError) as e:
                raise PyRaise(type(e).__name__, str(e)) from None
        return it.w.uf(name, list(args), kind)

    return f


def _numeric(v):
    return isinstance(v, (int, float)) or (isinstance(v, Sym) and v.kind in ("int", "real"))


def _sum(it, args, kwargs):
    v = args[0]
    if isinstance(v, (list, tuple)) and all(_numeric(x) for x in v):
        tot = args[1] if len(args) > 1 else 0
        for x in v:
            tot = it.binop(ast.Add, tot, x)
        return tot
    return _generic("sum")(it, args, kwargs)


def _minmax(name):
    def f(it, args, kwargs):
        vals = list(args[0]) if len(args) == 1 and isinstance(args[0], (list, tuple)) else list(args)
        if vals and all(_numeric(v) for v in vals) and any(isinstance(v, Sym) for v in vals):
            cur = vals[0]
            for v in vals[1:]:
                c = it.compare(ast.Gt if name == "max" else ast.Lt, v, cur)
                kind = "real" if any((isinstance(x, Sym) and x.kind == "real") or isinstance(x, float) for x in (v, cur)) else "int"
                cur = Sym(z3.If(c.e if isinstance(c, Sym) else z3.BoolVal(bool(c)), it.as_z3(v, kind), it.as_z3(cur, kind)), kind)
            return cur
        return _generic(name)(it, args, kwargs)

    return f


def _list(it, args, kwargs):
    if not args:
        return []
    (v,) = args
    seq = it.concrete_iter(v)
    if seq is not None:
        return list(seq)
    return it.w.uf("list", [v], "val")


def _tuple(it, args, kwargs):
    if not args:
        return ()
    seq = it.concrete_iter(args[0])
    if seq is not None:
        return tuple(seq)
    return it.w.uf("tuple", [args[0]], "val")


def _zip(it, args, kwargs):
    seqs = [it.concrete_iter(a) for a in args]
    if all(s is not None for s in seqs):
        return list(zip(*seqs))
    return it.w.uf("zip", list(args), "val")


def _enumerate(it, args, kwargs):
    seq = it.concrete_iter(args[0])
    start = kwargs.get("start", args[1] if len(args) > 1 else 0)
    if seq is not None and isinstance(start, int):
        return list(enumerate(seq, start))
    return it.w.uf("enumerate", list(args), "val")


def _print(it, args, kwargs):
    return None


_BUILTINS = {
    "isinstance": Builtin("isinstance", _isinstance), "len": Builtin("len", _len), "int": Builtin("int", _int),
    "float": Builtin("float", _float), "abs": Builtin("abs", _abs), "range": Builtin("range", _range),
    "hasattr": Builtin("hasattr", _hasattr), "getattr": Builtin("getattr", _getattr), "setattr": Builtin("setattr", _setattr),
    "min": Builtin("min", _minmax("min")), "max": Builtin("max", _minmax("max")), "sum": Builtin("sum", _sum),
    "sorted": Builtin("sorted", _generic("sorted")), "set": Builtin("set", lambda it, a, k: (it.ext["set"](it, a, k) if "set" in it.ext else _generic("set")(it, a, k))),
    "str": Builtin("str", lambda it, a, k: (str(a[0]) if isinstance(a[0], (int, float, str, np.generic)) else __import__("pycv.wp.symstr", fromlist=["SStr"]).SStr([__import__("pycv.wp.symstr", fromlist=["Tok"]).Tok(a[0])]) if isinstance(a[0], Sym) else _generic("str")(it, a, k))), "bool": Builtin("bool", _generic("bool", "bool")),
    "list": Builtin("list", _list), "tuple": Builtin("tuple", _tuple), "zip": Builtin("zip", _zip),
    "enumerate": Builtin("enumerate", _enumerate), "print": Builtin("print", _print), "dict": Builtin("dict", _generic("dict")),
    "round": Builtin("round", _round), "any": Builtin("any", _generic("any", "bool")),
    "all": Builtin("all", _generic("all", "bool")), "complex": Builtin("complex", _generic("complex")),
    "repr": Builtin("repr", _generic("repr")), "type": Builtin("type", _generic("type")),
    "id": Builtin("id", _generic("id")), "iter": Builtin("iter", _generic("iter")), "next": Builtin("next", _generic("next")),
    "map": Builtin("map", lambda it, a, k: [it.call(a[0], [x], {}) for x in it.concrete_iter(a[1])] if it.concrete_iter(a[1]) is not None else _generic("map")(it, a, k)), "reversed": Builtin("reversed", _generic("reversed")),
}

_DEFAULT_EXT = {}
_LEN_PRESERVING = {"xp.asarray", "np.asarray", "xp.atleast_1d", "xp.abs", "xp.real", "xp.sqrt", "xp.exp", "xp.astype"}
