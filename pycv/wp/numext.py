"""Numeric contracts of backend functions for engine Z (arrays of concrete length, `Vec`)."""

from __future__ import annotations

import ast

import z3

from .execute import SymSeq, Vec, _numeric
from .interp import OutsideSubset, Sym


def _as_real(it, v):
    return it.as_z3(v, "real")


def asarray(it, args, kwargs):
    x = args[0]
    dtype = kwargs.get("dtype", args[1] if len(args) > 1 else None)
    if isinstance(x, (list, tuple)) and x and all(_numeric(e) for e in x):
        v = Vec(x)
        if getattr(dtype, "name", None) == "int":
            out = Vec()
            for e in v:
                if isinstance(e, Sym) and e.kind == "real":
                    raise OutsideSubset("truncating cast of a symbolic real")
                out.append(int(e) if not isinstance(e, Sym) else e)
            return out
        return v
    if isinstance(x, Vec):
        if getattr(dtype, "name", None) == "int" and any(isinstance(e, Sym) and e.kind == "real" for e in x):
            raise OutsideSubset("truncating cast of a symbolic real")
        return Vec(x)
    tag = "xp.asarray" + ("[dtype]" if dtype is not None else "")
    r = it.w.uf(tag, [x] + ([dtype] if dtype is not None else []), "val")
    if isinstance(x, Sym) and x.meta.get("len") is not None:
        r.meta["len"] = x.meta["len"]
    return r


def round_(it, args, kwargs):
    """np.round: round-half-even (assumed contract 'round')."""
    x = args[0]
    if isinstance(x, Vec):
        out = Vec()
        for e in x:
            if not isinstance(e, Sym):
                out.append(round(e))
                continue
            r = it.w.fresh("round", "int")
            xe = _as_real(it, e)
            rr = z3.ToReal(r.e)
            it.p.pc.append(z3.And(rr - xe <= 0.5, xe - rr <= 0.5))
            # ties go to the even neighbour
            it.p.pc.append(z3.Implies(z3.Or(rr - xe == 0.5, xe - rr == 0.5), r.e % 2 == 0))
            out.append(Sym(z3.ToReal(r.e), "real", {"int": r.e}))
        return out
    return it.w.uf("xp.round", list(args), "val")


def asarray_int_of_rounded(it, v):
    out = Vec()
    for e in v:
        if isinstance(e, Sym) and e.kind == "real" and e.meta.get("int") is not None:
            out.append(Sym(e.meta["int"], "int"))
        elif isinstance(e, Sym) and e.kind == "int":
            out.append(e)
        elif isinstance(e, (int, float)) and float(e).is_integer():
            out.append(int(e))
        else:
            raise OutsideSubset("truncating cast of a symbolic real")
    return out


def asarray2(it, args, kwargs):
    x = args[0]
    dtype = kwargs.get("dtype", args[1] if len(args) > 1 else None)
    if isinstance(x, Vec) and getattr(dtype, "name", None) == "int":
        return asarray_int_of_rounded(it, x)
    return asarray(it, args, kwargs)


def sum_(it, args, kwargs):
    x = args[0]
    if isinstance(x, (Vec, list)) and all(_numeric(e) for e in x) and kwargs.get("axis") is None:
        tot = 0
        for e in x:
            tot = it.binop(ast.Add, tot, e)
        return tot
    return it.w.uf("xp.sum" + ("[axis]" if "axis" in kwargs else ""), list(args) + list(kwargs.values()), "val")


def argmax(it, args, kwargs):
    x = args[0]
    if isinstance(x, Vec):
        n = len(x)
        for j in range(n):
            conds = []
            for k in range(n):
                if k == j:
                    continue
                c = it.compare(ast.GtE if k > j else ast.Gt, x[j], x[k])
                conds.append(c.e if isinstance(c, Sym) else z3.BoolVal(bool(c)))
            if it.p.branch(z3.And(*conds) if conds else z3.BoolVal(True)):
                return j
        raise OutsideSubset("argmax: no maximal element")
    return it.w.uf("xp.argmax", list(args), "int")


def norm_positive(it, args, kwargs):
    r = it.w.uf("xp.linalg.norm" + ("[axis]" if "axis" in kwargs else ""), list(args) + list(kwargs.values()), "real")
    it.p.pc.append(r.e >= 0)
    return r


def stack(it, args, kwargs):
    x = args[0]
    if isinstance(x, SymSeq):
        r = it.w.uf("xp.stack", [x], "val")
        r.meta["len"] = x.n
        return r
    r = it.w.uf("xp.stack", list(args), "val")
    if isinstance(x, (list, tuple)):
        r.meta["len"] = len(x)
    return r


NUM_EXT = {
    "xp.asarray": asarray2, "xp.round": round_, "xp.sum": sum_, "xp.argmax": argmax, "xp.linalg.norm": norm_positive,
    "xp.stack": stack,
}


# -------------------------------------------------------------------------------------------------
# abstract 2-d arrays with ghost sums (concrete number of rows, symbolic number of columns)
# -------------------------------------------------------------------------------------------------


class RowArr:
    """1-d real array of symbolic length n: elements (z3 Array Int->Real) and a ghost total that every update keeps exact."""

    def __init__(self, elems, total, n):
        self.elems, self.total, self.n = elems, total, n

    @staticmethod
    def const(c, n):
        return RowArr(z3.K(z3.IntSort(), c), c * z3.ToReal(n) if not isinstance(n, int) else c * n, n)

    @staticmethod
    def fresh(world, name, n):
        k = next(world.fresh_counter)
        return RowArr(z3.Array(f"{name}!e{k}", z3.IntSort(), z3.RealSort()), z3.Real(f"{name}!t{k}"), n)

    def nz(self):
        return self.n if not isinstance(self.n, int) else z3.IntVal(self.n)

    def pos(self, it, idx):
        e = it.as_z3(idx, "int")
        if e is None:
            raise OutsideSubset("non-integer array index")
        p = z3.If(e < 0, self.nz() + e, e)
        it.oblige("array index in bounds", z3.And(p >= 0, p < self.nz()))
        return z3.simplify(p)


class Mat2:
    def __init__(self, rows):
        self.rows = rows

    @property
    def nrows(self):
        return len(self.rows)

    def _rc(self, it, idx):
        if not (isinstance(idx, tuple) and len(idx) == 2):
            raise OutsideSubset(f"2-d array indexed with {idx!r}")
        r, c = idx
        if isinstance(r, Sym):
            raise OutsideSubset("symbolic row index")
        r = int(r)
        if not -self.nrows <= r < self.nrows:
            raise PyRaiseIndex()
        row = self.rows[r]
        return row, row.pos(it, c)

    def z_getitem(self, it, idx):
        if isinstance(idx, int):
            return self.rows[idx]
        row, p = self._rc(it, idx)
        return Sym(z3.Select(row.elems, p), "real")

    def z_setitem(self, it, idx, value):
        row, p = self._rc(it, idx)
        v = it.as_z3(value, "real")
        if v is None:
            raise OutsideSubset("non-numeric array element")
        old = z3.Select(row.elems, p)
        row.total = z3.simplify(row.total - old + v)
        row.elems = z3.Store(row.elems, p, v)

    def z_binop(self, it, op, other, swapped):
        if op is ast.Mult and _numeric(other):
            c = it.as_z3(other, "real")
            out = []
            for r in self.rows:
                if z3.is_K(r.elems):
                    out.append(RowArr(z3.K(z3.IntSort(), z3.simplify(c * r.elems.arg(0))), z3.simplify(c * r.total), r.n))
                else:
                    raise OutsideSubset("scaling of a non-constant abstract array")
            return Mat2(out)
        return NotImplemented

    def total(self):
        t = z3.RealVal(0)
        for r in self.rows:
            t = t + r.total
        return z3.simplify(t)


class PyRaiseIndex(Exception):
    pass


class Stack1:
    def __init__(self, mat):
        self.mat = mat


class Rep3:
    """f[k] == mat for every k < n (the same fillings for every k-point)."""

    def __init__(self, mat, n):
        self.mat, self.n = mat, n


def _shape(it, shp):
    if not isinstance(shp, tuple) or len(shp) != 2:
        return None
    r, c = shp
    if isinstance(r, Sym):
        return None
    return int(r), (c.e if isinstance(c, Sym) and c.kind == "int" else int(c) if not isinstance(c, Sym) else None)


def ones(it, args, kwargs):
    s = _shape(it, args[0])
    if s is None or s[1] is None:
        return it.w.uf("xp.ones", list(args), "val")
    return Mat2([RowArr.const(z3.RealVal(1), s[1]) for _ in range(s[0])])


def zeros(it, args, kwargs):
    s = _shape(it, args[0])
    if s is None or s[1] is None:
        return it.w.uf("xp.zeros", list(args), "val")
    return Mat2([RowArr.const(z3.RealVal(0), s[1]) for _ in range(s[0])])


def sum2(it, args, kwargs):
    x = args[0]
    if isinstance(x, Mat2):
        ax = kwargs.get("axis", args[1] if len(args) > 1 else None)
        if ax is None:
            return Sym(x.total(), "real")
        if ax == 1:
            return Vec([Sym(r.total, "real") for r in x.rows])
        raise OutsideSubset("sum over axis 0 of an abstract array")
    return sum_(it, args, kwargs)


def hstack(it, args, kwargs):
    a, b = args[0]
    if isinstance(a, Mat2) and isinstance(b, Mat2) and a.nrows == b.nrows:
        out = []
        j = z3.Int("j!hs")
        for ra, rb in zip(a.rows, b.rows):
            n = z3.simplify(ra.nz() + rb.nz())
            new = RowArr.fresh(it.w, "hstack", n)
            new.total = z3.simplify(ra.total + rb.total)
            it.p.pc.append(z3.ForAll([j], z3.Select(new.elems, j) == z3.If(j < ra.nz(), z3.Select(ra.elems, j), z3.Select(rb.elems, j - ra.nz()))))
            out.append(new)
        return Mat2(out)
    return it.w.uf("xp.hstack", list(args), "val")


def stack2(it, args, kwargs):
    x = args[0]
    if isinstance(x, list) and len(x) == 1 and isinstance(x[0], Mat2):
        return Stack1(x[0])
    return stack(it, args, kwargs)


def vstack(it, args, kwargs):
    from .execute import RepList

    x = args[0]
    if isinstance(x, RepList) and len(x.items) == 1 and isinstance(x.items[0], Stack1):
        return Rep3(x.items[0].mat, x.n)
    if isinstance(x, list) and all(isinstance(t, Stack1) for t in x) and x:
        return Rep3(x[0].mat, len(x))
    return it.w.uf("xp.vstack", list(args), "val")


def ceil(it, args, kwargs):
    x = args[0]
    if isinstance(x, Sym) and x.kind in ("real", "int"):
        if x.kind == "int":
            return x
        c = it.w.fresh("ceil", "int")
        it.p.pc.append(z3.And(z3.ToReal(c.e) >= x.e, z3.ToReal(c.e) - 1 < x.e))
        return c
    if isinstance(x, (int, float)):
        import math

        return math.ceil(x)
    return it.w.uf("xp.ceil", list(args), "val")


ARR_EXT = dict(NUM_EXT)
ARR_EXT.update({"xp.ones": ones, "xp.zeros": zeros, "xp.sum": sum2, "xp.hstack": hstack, "xp.stack": stack2, "xp.vstack": vstack,
                "xp.ceil": ceil})


class AbsList:
    """Python list of reals with a symbolic length (used for the energy history of the minimisers)."""

    _zpy = True

    def __init__(self, elems, n):
        self.elems, self.n = elems, n

    @staticmethod
    def fresh(world, name):
        k = next(world.fresh_counter)
        n = z3.Int(f"{name}!len{k}")
        return AbsList(z3.Array(f"{name}!e{k}", z3.IntSort(), z3.RealSort()), n)

    @staticmethod
    def of(it, items):
        a = z3.K(z3.IntSort(), z3.RealVal(0))
        for i, v in enumerate(items):
            a = z3.Store(a, i, it.as_z3(v, "real"))
        return AbsList(a, z3.IntVal(len(items)))

    def append(self, it, v):
        self.elems = z3.Store(self.elems, self.n, it.as_z3(v, "real"))
        self.n = z3.simplify(self.n + 1)

    def z_len(self, it):
        return Sym(self.n, "int")

    def z_getitem(self, it, idx):
        if isinstance(idx, slice):
            return it.w.uf("slice", [Sym(self.n, "int"), idx.start, idx.stop], "val")
        e = it.as_z3(idx, "int")
        p = z3.simplify(z3.If(e < 0, self.n + e, e))
        it.oblige("list index in range", z3.And(p >= 0, p < self.n))
        return Sym(z3.Select(self.elems, p), "real")

    def z_binop(self, it, op, other, swapped):
        if op is ast.Add and isinstance(other, list) and not other and swapped:
            return self
        return NotImplemented



# -------------------------------------------------------------------------------------------------
# concrete-shape arrays with symbolic entries, file stubs (parsers)
# -------------------------------------------------------------------------------------------------

import numpy as _np  # noqa: E402


class NdArr:
    """n-d array of concrete shape whose entries are numbers or Syms; indices must be concrete."""

    _zpy = True

    def __init__(self, shape, fill=0, kind=None):
        self.a = _np.empty(shape, dtype=object)
        self.a.fill(fill)
        self.kind = kind  # 'int' / 'float': values assigned as text tokens are parsed (numpy does that on assignment)

    @staticmethod
    def _ix(idx):
        def one(i):
            if isinstance(i, Sym):
                raise OutsideSubset("symbolic index into a concrete-shape array")
            if isinstance(i, slice):
                return i
            return int(i)

        if isinstance(idx, tuple):
            return tuple(one(i) for i in idx)
        return one(idx)

    def z_getitem(self, it, idx):
        try:
            v = self.a[self._ix(idx)]
        except IndexError as e:
            from .interp import PyRaise

            raise PyRaise("IndexError", str(e)) from None
        if isinstance(v, _np.ndarray):
            r = NdArr(v.shape)
            r.a = v  # a view, like numpy
            return r
        return v

    def z_setitem(self, it, idx, value):
        if getattr(self, "kind", None) in ("int", "float") and (isinstance(value, str) or hasattr(value, "pieces")):
            from .symstr import parse_number

            value = parse_number(value, self.kind)
        if isinstance(value, NdArr):
            value = value.a
        try:
            self.a[self._ix(idx)] = value
        except IndexError as e:
            from .interp import PyRaise

            raise PyRaise("IndexError", str(e)) from None

    def z_len(self, it):
        return self.a.shape[0]

    def z_iter(self, it):
        return [self.z_getitem(it, i) for i in range(self.a.shape[0])]

    def z_val(self, world):
        f = world.uf_raw(f"ndarr{self.a.size}", [world_val_sort()] * self.a.size, world_val_sort())
        return f(*[world.to_val(x) for x in self.a.reshape(-1)])


def world_val_sort():
    from .interp import Val

    return Val


def zeros_nd(it, args, kwargs):
    shp = args[0]
    if isinstance(shp, int):
        shp = (shp,)
    if isinstance(shp, tuple) and all(isinstance(s, int) for s in shp):
        return NdArr(shp, 0)
    return zeros(it, args, kwargs)


class LineStub:
    _zpy = True

    def __init__(self, tokens):
        self.tokens = tokens

    def split(self, it, *a):
        return list(self.tokens)


class FileStub:
    """Text file given as a list of token lists (the structure-defining tokens are concrete, the values symbolic)."""

    _zpy = True

    def __init__(self, lines):
        self.lines = list(lines)
        self.pos = 0

    def readline(self, it):
        if self.pos >= len(self.lines):
            return LineStub([])
        ln = self.lines[self.pos]
        self.pos += 1
        return LineStub(ln)

    def __enter__(self):
        return self
