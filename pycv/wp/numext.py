"""Numeric contracts of backend functions for engine Z (arrays of concrete length, `Vec`)."""

from __future__ import annotations

import ast

import z3

from .execute import SymSeq, Vec, _numeric
from .interp import OutsideSubset, Sym


def _as_real(it, v):
    return it.as_z3(v, "real")


def asarray(it, args, kwargs):
    x = args[0]
    dtype = kwargs.get("dtype", args[1] if len(args) > 1 else None)
    if isinstance(x, (list, tuple)) and x and all(_numeric(e) for e in x):
        v = Vec(x)
        if getattr(dtype, "name", None) == "int":
            out = Vec()
            for e in v:
                if isinstance(e, Sym) and e.kind == "real":
                    raise OutsideSubset("truncating cast of a symbolic real")
                out.append(int(e) if not isinstance(e, Sym) else e)
            return out
        return v
    if isinstance(x, Vec):
        if getattr(dtype, "name", None) == "int" and any(isinstance(e, Sym) and e.kind == "real" for e in x):
            raise OutsideSubset("truncating cast of a symbolic real")
        return Vec(x)
    tag = "xp.asarray" + ("[dtype]" if dtype is not None else "")
    r = it.w.uf(tag, [x] + ([dtype] if dtype is not None else []), "val")
    if isinstance(x, Sym) and x.meta.get("len") is not None:
        r.meta["len"] = x.meta["len"]
    return r


def round_(it, args, kwargs):
    """np.round: round-half-even (assumed contract 'round')."""
    x = args[0]
    if isinstance(x, Vec):
        out = Vec()
        for e in x:
            if not isinstance(e, Sym):
                out.append(round(e))
                continue
            r = it.w.fresh("round", "int")
            xe = _as_real(it, e)
            rr = z3.ToReal(r.e)
            it.p.pc.append(z3.And(rr - xe <= 0.5, xe - rr <= 0.5))
            # ties go to the even neighbour
            it.p.pc.append(z3.Implies(z3.Or(rr - xe == 0.5, xe - rr == 0.5), r.e % 2 == 0))
            out.append(Sym(z3.ToReal(r.e), "real", {"int": r.e}))
        return out
    return it.w.uf("xp.round", list(args), "val")


def asarray_int_of_rounded(it, v):
    out = Vec()
    for e in v:
        if isinstance(e, Sym) and e.kind == "real" and e.meta.get("int") is not None:
            out.append(Sym(e.meta["int"], "int"))
        elif isinstance(e, Sym) and e.kind == "int":
            out.append(e)
        elif isinstance(e, (int, float)) and float(e).is_integer():
            out.append(int(e))
        else:
            raise OutsideSubset("truncating cast of a symbolic real")
    return out


def asarray2(it, args, kwargs):
    x = args[0]
    dtype = kwargs.get("dtype", args[1] if len(args) > 1 else None)
    if isinstance(x, Vec) and getattr(dtype, "name", None) == "int":
        return asarray_int_of_rounded(it, x)
    return asarray(it, args, kwargs)


def sum_(it, args, kwargs):
    x = args[0]
    if isinstance(x, (Vec, list)) and all(_numeric(e) for e in x) and kwargs.get("axis") is None:
        tot = 0
        for e in x:
            tot = it.binop(ast.Add, tot, e)
        return tot
    return it.w.uf("xp.sum" + ("[axis]" if "axis" in kwargs else ""), list(args) + list(kwargs.values()), "val")


def argmax(it, args, kwargs):
    x = args[0]
    if isinstance(x, Vec):
        n = len(x)
        for j in range(n):
            conds = []
            for k in range(n):
                if k == j:
                    continue
                c = it.compare(ast.GtE if k > j else ast.Gt, x[j], x[k])
                conds.append(c.e if isinstance(c, Sym) else z3.BoolVal(bool(c)))
            if it.p.branch(z3.And(*conds) if conds else z3.BoolVal(True)):
                return j
        raise OutsideSubset("argmax: no maximal element")
    return it.w.uf("xp.argmax", list(args), "int")


def norm_positive(it, args, kwargs):
    r = it.w.uf("xp.linalg.norm" + ("[axis]" if "axis" in kwargs else ""), list(args) + list(kwargs.values()), "real")
    it.p.pc.append(r.e >= 0)
    return r


def stack(it, args, kwargs):
    x = args[0]
    if isinstance(x, SymSeq):
        r = it.w.fresh("stacked", "val")
        r.meta["len"] = x.n
        return r
    r = it.w.uf("xp.stack", list(args), "val")
    if isinstance(x, (list, tuple)):
        r.meta["len"] = len(x)
    return r


NUM_EXT = {
    "xp.asarray": asarray2, "xp.round": round_, "xp.sum": sum_, "xp.argmax": argmax, "xp.linalg.norm": norm_positive,
    "xp.stack": stack,
}
