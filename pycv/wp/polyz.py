"""Polynomial normal form of a z3 real/int term over 'atoms' (uninterpreted applications, quotients by non-numerals, constants).

An identity between two such polynomials with the atoms as independent indeterminates is valid for every interpretation of the
atoms; used where z3's non-linear arithmetic times out on sums with thousands of uninterpreted terms."""

from __future__ import annotations

from fractions import Fraction

import z3


class TooBig(Exception):
    pass


def poly_of(t, limit=400000):
    cache = {}
    atoms = {}

    def atom(x):
        x = z3.simplify(x)  # canonical representative (z3 terms are hash-consed)
        k = x.get_id()
        atoms[k] = x
        return {((k, 1),): Fraction(1)}

    def mul(p, q):
        out = {}
        if len(p) * len(q) > limit:
            raise TooBig()
        for m1, c1 in p.items():
            for m2, c2 in q.items():
                d = dict(m1)
                for a, e in m2:
                    d[a] = d.get(a, 0) + e
                m = tuple(sorted(d.items()))
                v = out.get(m, 0) + c1 * c2
                if v:
                    out[m] = v
                else:
                    out.pop(m, None)
        return out

    def add(p, q, sign=1):
        out = dict(p)
        for m, c in q.items():
            v = out.get(m, 0) + sign * c
            if v:
                out[m] = v
            else:
                out.pop(m, None)
        return out

    def rec(x):
        k = x.get_id()
        if k in cache:
            return cache[k]
        r = go(x)
        cache[k] = r
        return r

    def go(x):
        if z3.is_rational_value(x) or z3.is_int_value(x):
            f = x.as_fraction() if z3.is_rational_value(x) else Fraction(x.as_long())
            return {(): Fraction(f)} if f else {}
        if z3.is_app(x):
            kind = x.decl().kind()
            ch = x.children()
            if kind == z3.Z3_OP_ADD:
                out = {}
                for c in ch:
                    out = add(out, rec(c))
                return out
            if kind == z3.Z3_OP_SUB:
                out = rec(ch[0])
                for c in ch[1:]:
                    out = add(out, rec(c), -1)
                return out
            if kind == z3.Z3_OP_UMINUS:
                return add({}, rec(ch[0]), -1)
            if kind == z3.Z3_OP_MUL:
                out = {(): Fraction(1)}
                for c in ch:
                    out = mul(out, rec(c))
                return out
            if kind == z3.Z3_OP_DIV:
                den = rec(ch[1])
                if len(den) == 1 and () in den:
                    return {m: c / den[()] for m, c in rec(ch[0]).items()}
                # p / q with a non-numeral q: p * (1/q), the reciprocal being one atom per denominator
                return mul(rec(ch[0]), atom(z3.RealVal(1) / ch[1]))
            if kind == z3.Z3_OP_TO_REAL:
                return rec(ch[0])
            if kind == z3.Z3_OP_POWER and z3.is_int_value(ch[1]) and 0 <= ch[1].as_long() <= 8:
                out = {(): Fraction(1)}
                for _ in range(ch[1].as_long()):
                    out = mul(out, rec(ch[0]))
                return out
        return atom(x)

    return rec(t), atoms


def identical(a, b):
    """True if a - b is the zero polynomial over the atoms; False if not; (the caller treats False as 'not proved')."""
    p, _ = poly_of(a - b)
    return not p
