"""Engine Z: symbolic execution of the real Python ASTs of /repo into z3 terms.

* The source is re-read from $EMINUS_REPO on every run (pycv.loader.source_of); classes and functions are
  interpreted from their AST, nothing is imported or executed natively.
* Values: concrete Python values stay concrete; symbolic values are `Sym(expr, kind)` with kind in
  {int, real, bool, val}; `val` is an uninterpreted sort for everything the engine does not interpret (arrays,
  strings of unknown content, ...).  An operation the engine does not interpret becomes an *uninterpreted
  function application* named after the operation (`xp.asarray`, `matmul`, ...): the only thing assumed about
  it is that it is a deterministic function of its arguments (listed in the evidence as "assumed pure").
* Objects (`Obj`) are records of fields; properties and methods are inlined from the class AST, so
  `self.k = ...` runs the real `k` setter, while `self.wk[j] += ...` is getter + item update (no setter).
* Branching on a symbolic condition forks the path (depth-first re-execution with a decision prefix; both sides
  are checked for feasibility with z3). Loops over concrete sequences are unrolled (complete); loops with a
  symbolic trip count need a sidecar invariant (`LoopSpec`).
"""

from __future__ import annotations

import ast
import copy
import itertools

import z3

from ..loader import source_of

Val = z3.DeclareSort("Val")


class OutsideSubset(Exception):
    pass


class PyRaise(Exception):
    """A Python exception raised by the interpreted code."""

    def __init__(self, etype, msg=""):
        super().__init__(f"{etype}: {msg}")
        self.etype = etype
        self.msg = msg


class _Return(Exception):
    def __init__(self, value):
        self.value = value


class _Break(Exception):
    pass


class _Continue(Exception):
    pass


class Infeasible(Exception):
    pass


class PathEnd(Exception):
    """The path is cut here on purpose (e.g. after the arbitrary iteration of a loop with an invariant): its recorded
    obligations still have to be discharged, but it has no final state."""


class Sym:
    __slots__ = ("e", "kind", "meta")

    def __init__(self, e, kind, meta=None):
        self.e, self.kind, self.meta = e, kind, meta or {}

    def __repr__(self):
        return f"Sym<{self.kind}:{self.e}>"

    # arithmetic for numeric kinds (lets numpy object arrays of Syms broadcast, sum, ...)
    def _num(self, o):
        if self.kind not in ("int", "real"):
            raise TypeError("arithmetic on a non-numeric symbolic value")
        if isinstance(o, Sym):
            if o.kind not in ("int", "real"):
                raise TypeError("arithmetic on a non-numeric symbolic value")
            a, b = self.e, o.e
            kind = "real" if "real" in (self.kind, o.kind) else "int"
            if kind == "real":
                a = z3.ToReal(a) if self.kind == "int" else a
                b = z3.ToReal(b) if o.kind == "int" else b
            return a, b, kind
        if getattr(o, "ndim", 0):
            return None  # an array operand: let numpy broadcast element-wise
        if isinstance(o, bool):
            o = int(o)
        if isinstance(o, int):
            return (self.e, z3.IntVal(o), "int") if self.kind == "int" else (self.e, z3.RealVal(o), "real")
        if isinstance(o, float) or hasattr(o, "__float__"):
            a = z3.ToReal(self.e) if self.kind == "int" else self.e
            return a, z3.RealVal(repr(float(o))), "real"
        return None

    def _bin(self, o, f, swap=False, force_real=False):
        r = self._num(o)
        if r is None:
            return NotImplemented
        a, b, kind = r
        if force_real and kind == "int":
            a, b, kind = z3.ToReal(a), z3.ToReal(b), "real"
        if swap:
            a, b = b, a
        return Sym(z3.simplify(f(a, b)), kind)

    def __add__(self, o):
        return self._bin(o, lambda a, b: a + b)

    def __radd__(self, o):
        return self._bin(o, lambda a, b: a + b, True)

    def __sub__(self, o):
        return self._bin(o, lambda a, b: a - b)

    def __rsub__(self, o):
        return self._bin(o, lambda a, b: a - b, True)

    def __mul__(self, o):
        return self._bin(o, lambda a, b: a * b)

    def __rmul__(self, o):
        return self._bin(o, lambda a, b: a * b, True)

    def __truediv__(self, o):
        return self._bin(o, lambda a, b: a / b, False, True)

    def __rtruediv__(self, o):
        return self._bin(o, lambda a, b: a / b, True, True)

    def __neg__(self):
        return Sym(-self.e, self.kind)

    def __pow__(self, k):
        if self.kind not in ("int", "real") or not isinstance(k, int) or isinstance(k, bool) or not 0 <= k <= 8:
            return NotImplemented
        e = z3.IntVal(1) if self.kind == "int" else z3.RealVal(1)
        for _ in range(k):
            e = e * self.e
        return Sym(z3.simplify(e), self.kind)


class Obj:
    """Instance of an interpreted class."""

    def __init__(self, cls, fields=None):
        self.cls = cls
        self.fields = fields if fields is not None else {}

    def __repr__(self):
        return f"Obj<{self.cls.name}>"


class Cls:
    def __init__(self, name, node, module, bases):
        self.name, self.node, self.module, self.bases = name, node, module, bases
        self.methods = {}
        self.getters = {}
        self.setters = {}
        self.attrs = {}  # class-level assignments (AST)
        for n in node.body:
            if isinstance(n, ast.FunctionDef):
                decos = [ast.unparse(d) for d in n.decorator_list]
                if "property" in decos or "functools.cached_property" in decos:
                    self.getters[n.name] = n
                elif any(d.endswith(".setter") for d in decos):
                    self.setters[n.name] = n
                else:
                    self.methods[n.name] = n
            elif isinstance(n, ast.Assign) and len(n.targets) == 1 and isinstance(n.targets[0], ast.Name):
                self.attrs[n.targets[0].id] = n.value
            elif isinstance(n, ast.AnnAssign) and isinstance(n.target, ast.Name) and n.value is not None:
                self.attrs[n.target.id] = n.value

    def lookup(self, table, name):
        c = self
        seen = []
        todo = [self]
        while todo:
            c = todo.pop(0)
            t = getattr(c, table)
            if name in t:
                return t[name], c
            todo.extend(c.bases)
        return None, None


class Func:
    def __init__(self, node, module, name=None):
        self.node, self.module = node, module
        self.name = name or node.name


class BoundMethod:
    def __init__(self, obj, func):
        self.obj, self.func = obj, func


class Module:
    """Parsed repository module: classes, functions, import table."""

    def __init__(self, world, modname):
        self.world, self.name = world, modname
        self.src = source_of(modname)
        self.tree = ast.parse(self.src)
        self.classes = {}
        self.funcs = {}
        self.imports = {}  # local name -> ("module", modname) | ("from", modname, name) | ("ext", dotted)
        self.globals = {}
        pkg = modname.rpartition(".")[0]
        for n in self.tree.body:
            if isinstance(n, ast.ClassDef):
                self.classes[n.name] = n
            elif isinstance(n, ast.FunctionDef):
                self.funcs[n.name] = Func(n, self)
            elif isinstance(n, ast.Import):
                for a in n.names:
                    self.imports[a.asname or a.name.split(".")[0]] = ("ext", a.name if a.asname else a.name.split(".")[0])
            elif isinstance(n, ast.ImportFrom):
                base = n.module or ""
                if n.level:
                    parts = (modname.split(".")[:-1] if not modname.endswith("__init__") else modname.split("."))
                    parts = parts[: len(parts) - (n.level - 1)]
                    base = ".".join(parts + ([n.module] if n.module else []))
                for a in n.names:
                    self.imports[a.asname or a.name] = ("from", base, a.name)
            elif isinstance(n, ast.Assign) and all(isinstance(t, ast.Name) for t in n.targets):
                for t in n.targets:
                    self.globals[t.id] = n.value
        self._cls_cache = {}

    def get_class(self, name):
        if name in self._cls_cache:
            return self._cls_cache[name]
        node = self.classes[name]
        bases = []
        for b in node.bases:
            bn = ast.unparse(b)
            c = self.world.resolve_class(self, bn)
            if c is not None:
                bases.append(c)
        c = Cls(name, node, self, bases)
        self._cls_cache[name] = c
        return c


class ExtRef:
    """Reference to something outside the interpreted world, by dotted name (xp.asarray, log.warning, ...)."""

    def __init__(self, name):
        self.name = name

    def __repr__(self):
        return f"Ext<{self.name}>"


class World:
    def __init__(self):
        self.modules = {}
        self.uf_cache = {}
        self.const_cache = {}
        self.assumed_pure = set()
        self.fresh_counter = itertools.count()

    def module(self, name):
        m = self.modules.get(name)
        if m is None:
            m = self.modules[name] = Module(self, name)
        return m

    def resolve_class(self, mod, name):
        if name in mod.classes:
            return mod.get_class(name)
        imp = mod.imports.get(name)
        if imp and imp[0] == "from" and imp[1].startswith("eminus"):
            try:
                m2 = self.module(imp[1])
            except FileNotFoundError:
                return None
            if imp[2] in m2.classes:
                return m2.get_class(imp[2])
        return None

    # -- z3 helpers -----------------------------------------------------------------------------
    def fresh(self, name, kind="val"):
        n = f"{name}!{next(self.fresh_counter)}"
        return Sym({"int": z3.Int, "real": z3.Real, "bool": z3.Bool}.get(kind, lambda s: z3.Const(s, Val))(n), kind)

    def const_val(self, pyvalue):
        """Distinct Val constant for a concrete Python value (by repr)."""
        k = repr(pyvalue)
        if " object at 0x" in k:
            raise OutsideSubset(f"value without a stable symbolic name: {k[:80]}")
        c = self.const_cache.get(k)
        if c is None:
            c = self.const_cache[k] = z3.Const(f"py:{k[:40]}#{len(self.const_cache)}", Val)
        return c

    def distinct_axioms(self):
        cs = list(self.const_cache.values())
        return [z3.Distinct(*cs)] if len(cs) > 1 else []

    def to_val(self, v):
        """Coerce any value to a z3 term of sort Val (for UF arguments)."""
        if isinstance(v, Sym):
            if v.kind == "val":
                return v.e
            inj = self.uf_raw(f"inj_{v.kind}", [v.e.sort()], Val)
            return inj(v.e)
        if isinstance(v, Obj):
            return self.const_val(("obj", id(v)))
        if hasattr(v, "z_val"):
            return v.z_val(self)
        if isinstance(v, (list, tuple)):
            if any(isinstance(x, (Sym, Obj)) or hasattr(x, "z_val") or isinstance(x, (list, tuple)) for x in v):
                f = self.uf_raw(f"seq{len(v)}_{type(v).__name__}", [Val] * len(v), Val)
                return f(*[self.to_val(x) for x in v]) if v else self.const_val(v)
            return self.const_val(v)
        if isinstance(v, dict):
            return self.const_val(("dict", tuple(sorted((repr(k), repr(x)) for k, x in v.items()))))
        if hasattr(v, "name") and not isinstance(v, (str, int, float)):
            return self.const_val(("ref", type(v).__name__, v.name))
        if isinstance(v, BoundMethod):
            return self.const_val(("ref", "bound", v.func.name))
        return self.const_val(v)

    def uf_raw(self, name, dom, rng):
        k = (name, tuple(str(s) for s in dom), str(rng))
        f = self.uf_cache.get(k)
        if f is None:
            f = self.uf_cache[k] = z3.Function(name, *dom, rng)
        return f

    def uf(self, name, args, kind="val"):
        rng = {"val": Val, "int": z3.IntSort(), "real": z3.RealSort(), "bool": z3.BoolSort()}[kind]
        f = self.uf_raw(f"{name}/{len(args)}", [Val] * len(args), rng)
        self.assumed_pure.add(name)
        return Sym(f(*[self.to_val(a) for a in args]) if args else z3.Const(f"{name}()", rng), kind)


class _PC(list):
    """Path condition list that mirrors every appended constraint into an incremental solver."""

    def __init__(self, solver, items=()):
        super().__init__()
        self.solver = solver
        for x in items:
            self.append(x)

    def append(self, x):
        super().append(x)
        self.solver.add(x)


class Path:
    """One execution path: decision prefix, path condition, incremental solver."""

    def __init__(self, world, prefix, assumptions):
        self.world = world
        self.prefix = list(prefix)
        self.taken = []
        self.solver = z3.Solver()
        self.solver.set("timeout", 12000)
        self.pc = _PC(self.solver, assumptions)
        self.alternatives = []
        self.events = []  # ghost event log (calls to opaque effects, ...)
        self._ndist = 0

    def feasible(self, extra):
        s = self.solver
        s.push()
        try:
            n = len(self.world.const_cache)
            if n > 1:
                s.add(*self.world.distinct_axioms())
            s.add(extra)
            return s.check() != z3.unsat
        finally:
            s.pop()

    def branch(self, cond):
        """cond: z3 Bool. Returns the Python bool decided for this path."""
        cond = z3.simplify(cond)
        if z3.is_true(cond):
            return True
        if z3.is_false(cond):
            return False
        k = len(self.taken)
        if k < len(self.prefix):
            d = self.prefix[k]
        else:
            ft = self.feasible(cond)
            ff = self.feasible(z3.Not(cond))
            if ft and ff:
                d = True
                self.alternatives.append(self.taken + [False])
            elif ft:
                d = True
            elif ff:
                d = False
            else:
                raise Infeasible()
        self.taken.append(d)
        self.pc.append(cond if d else z3.Not(cond))
        return d


MAX_PATHS = 400
