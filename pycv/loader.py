"""Mechanical re-compilation of the *real* /repo modules for the tracing route (engines A and N).

The module source is read from $EMINUS_REPO (default /repo) on every run and compiled with exactly
these transformations (everything else - control flow, decorators, dataclasses, cached properties,
keyword plumbing - is executed by CPython as written):

 1. every float literal, and every int literal that is a direct operand of an arithmetic
    BinOp (+ - * / **), AugAssign or a unary minus inside one, becomes the exact rational
    denoted by its (shortest round-trip) decimal text:  __cv_Q__("0.031091");
    ints in subscripts, call arguments, range(), comparisons, // and % stay Python ints;
 2. `import math` binds the engine's exact math shim;
 3. `from eminus import backend as xp` / `from . import backend as xp` bind the engine's symbolic
    backend; `import numpy as np` stays numpy;
 4. other `eminus.*` imports resolve recursively to modules loaded the same way, except the
    NATIVE modules (logger, config, version, data) and names for which the obligation supplies
    a contract stub (`stubs={"eminus.xc.lda_c_pw_mod:lda_c_pw_mod": fn}`: callee taken by contract).

What this drops: IEEE-754 rounding, overflow, dtype promotion, array memory layout. Nothing else.
"""

from __future__ import annotations

import ast
import hashlib
import os
import pathlib
import types

NATIVE = {"eminus.logger", "eminus.config", "eminus.version", "eminus.data"}
_ARITH = (ast.Add, ast.Sub, ast.Mult, ast.Div, ast.Pow)


def repo_root():
    return pathlib.Path(os.environ.get("EMINUS_REPO", "/repo"))


def module_path(modname):
    root = repo_root()
    rel = modname.replace(".", "/")
    p = root / (rel + ".py")
    if p.exists():
        return p
    p = root / rel / "__init__.py"
    if p.exists():
        return p
    raise FileNotFoundError(modname)


def source_of(modname):
    return module_path(modname).read_text()


def function_source(modname, qualname):
    """Source text and sha256 of a function / method / class in the current tree."""
    src = source_of(modname)
    tree = ast.parse(src)
    node = find_def(tree, qualname)
    seg = ast.get_source_segment(src, node)
    return seg, hashlib.sha256(seg.encode()).hexdigest()[:16]


def find_def(tree, qualname):
    parts = qualname.split(".")
    body = tree.body
    node = None
    for part in parts:
        node = None
        for n in body:
            if isinstance(n, (ast.FunctionDef, ast.ClassDef, ast.AsyncFunctionDef)) and n.name == part:
                node = n
                break
        if node is None:
            raise KeyError(qualname)
        body = node.body
    return node


class _Literals(ast.NodeTransformer):
    def __init__(self):
        self.nfloat = 0
        self.nint = 0

    def _q(self, node, text):
        return ast.copy_location(
            ast.Call(func=ast.Name(id="__cv_Q__", ctx=ast.Load()), args=[ast.Constant(value=text)], keywords=[]), node
        )

    def visit_Constant(self, node):
        if isinstance(node.value, float):
            self.nfloat += 1
            return self._q(node, repr(node.value))
        if isinstance(node.value, complex):
            if node.value.real != 0:
                raise NotImplementedError("complex literal with a real part")
            self.nfloat += 1
            return ast.copy_location(
                ast.Call(func=ast.Name(id="__cv_J__", ctx=ast.Load()), args=[ast.Constant(value=repr(node.value.imag))], keywords=[]), node)
        return node

    def _conv_operand(self, n):
        if isinstance(n, ast.Constant) and isinstance(n.value, int) and not isinstance(n.value, bool):
            self.nint += 1
            return self._q(n, str(n.value))
        if isinstance(n, ast.UnaryOp) and isinstance(n.op, (ast.USub, ast.UAdd)):
            n.operand = self._conv_operand(n.operand)
        return n

    def visit_BinOp(self, node):
        self.generic_visit(node)
        if isinstance(node.op, _ARITH):
            node.left = self._conv_operand(node.left)
            node.right = self._conv_operand(node.right)
        return node

    def visit_AugAssign(self, node):
        self.generic_visit(node)
        if isinstance(node.op, _ARITH):
            node.value = self._conv_operand(node.value)
        return node


class _Imports(ast.NodeTransformer):
    """Rewrite import statements into assignments from the loader."""

    def __init__(self, modname, is_pkg):
        self.modname = modname
        self.pkg = modname if is_pkg else modname.rpartition(".")[0]

    def _resolve(self, module, level):
        if level == 0:
            return module
        base = self.pkg.split(".")
        if level > 1:
            base = base[: -(level - 1)]
        return ".".join(base + ([module] if module else []))

    def _call(self, fn, *args):
        return ast.Call(func=ast.Name(id=fn, ctx=ast.Load()), args=[ast.Constant(value=a) for a in args], keywords=[])

    def visit_Import(self, node):
        out = []
        for a in node.names:
            if a.name == "math":
                out.append(ast.Assign(targets=[ast.Name(id=a.asname or "math", ctx=ast.Store())],
                                      value=ast.Name(id="__cv_math__", ctx=ast.Load())))
            elif a.name.startswith("eminus"):
                out.append(ast.Assign(targets=[ast.Name(id=a.asname or a.name.split(".")[0], ctx=ast.Store())],
                                      value=self._call("__cv_import_module__", a.name)))
            elif a.name == "numpy":
                out.append(ast.Assign(targets=[ast.Name(id=a.asname or "numpy", ctx=ast.Store())],
                                      value=ast.Name(id="__cv_np__", ctx=ast.Load())))
            else:
                out.append(ast.Import(names=[a]))
        return [ast.copy_location(o, node) for o in out]

    def visit_ImportFrom(self, node):
        mod = self._resolve(node.module, node.level)
        if not mod.startswith("eminus"):
            return node
        out = []
        for a in node.names:
            tgt = ast.Name(id=a.asname or a.name, ctx=ast.Store())
            out.append(ast.Assign(targets=[tgt], value=self._call("__cv_import_from__", mod, a.name)))
        return [ast.copy_location(o, node) for o in out]


class Loader:
    """Loads repository modules for one engine / one obligation."""

    def __init__(self, backend, math_shim, Q, stubs=None, native_extra=(), np_shim=None):
        import numpy

        self.np_shim = np_shim if np_shim is not None else numpy
        self.backend = backend
        self.math_shim = math_shim
        self.Q = Q
        self.stubs = dict(stubs or {})
        self.modules: dict[str, types.ModuleType] = {}
        self.native = set(NATIVE) | set(native_extra)
        self.stats = dict(float_literals=0, int_literals=0, modules=[])
        # import the native package first: while a module is being re-compiled it temporarily shadows
        # its sys.modules entry (dataclasses needs that), which must not be seen by a native import
        import importlib

        importlib.import_module("eminus")

    def imag_unit(self, text):
        """exact value of the literal `<text>j`"""
        from fractions import Fraction

        from .algebra import core

        return core.lift(Fraction(text)) * core.I()

    # -- import plumbing ------------------------------------------------------------------------
    def import_module(self, name):
        if name in ("eminus.backend",):
            return self.backend
        if name in self.native:
            import importlib

            return importlib.import_module(name)
        return self.load(name)

    def import_from(self, mod, name):
        key = f"{mod}:{name}"
        if key in self.stubs:
            return self.stubs[key]
        # submodule?
        full = f"{mod}.{name}"
        if full == "eminus.backend":
            return self.backend
        try:
            module_path(full)
            is_module = True
        except FileNotFoundError:
            is_module = False
        if is_module:
            return self.import_module(full)
        m = self.import_module(mod)
        return getattr(m, name)

    def load(self, modname):
        if modname in self.modules:
            return self.modules[modname]
        path = module_path(modname)
        is_pkg = path.name == "__init__.py"
        src = path.read_text()
        tree = ast.parse(src, filename=str(path))
        lit = _Literals()
        tree = lit.visit(tree)
        tree = _Imports(modname, is_pkg).visit(tree)
        ast.fix_missing_locations(tree)
        self.stats["float_literals"] += lit.nfloat
        self.stats["int_literals"] += lit.nint
        self.stats["modules"].append(modname)
        mod = types.ModuleType(modname)
        mod.__file__ = str(path)
        mod.__package__ = modname if is_pkg else modname.rpartition(".")[0]
        if is_pkg:
            mod.__path__ = [str(path.parent)]
        mod.__dict__.update(
            __cv_Q__=self.Q,
            __cv_J__=self.imag_unit,
            __cv_math__=self.math_shim,
            __cv_np__=self.np_shim,
            __cv_import_module__=self.import_module,
            __cv_import_from__=self.import_from,
        )
        self.modules[modname] = mod
        import sys

        # dataclasses looks the module up in sys.modules (for KW_ONLY / string annotations)
        prev = sys.modules.get(modname)
        sys.modules[modname] = mod
        try:
            code = compile(tree, str(path), "exec")
            exec(code, mod.__dict__)
        finally:
            if prev is not None:
                sys.modules[modname] = prev
            else:
                sys.modules.pop(modname, None)
        return mod

    def get(self, modname, qualname):
        obj = self.load(modname)
        for part in qualname.split("."):
            obj = getattr(obj, part)
        return obj
