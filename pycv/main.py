"""Entry point of ./check: generate the obligations of one property from /repo's current tree, discharge
them, write evidence, report violations.

exit codes: 0 held on everything explored / 1 violation (a VIOLATION line was printed) /
            2 an obligation that the committed baseline lists as discharged is undecided now /
            3 checker error (crash, canary not refuted, zero obligations)
"""

from __future__ import annotations

import argparse
import json
import os
import pathlib
import sys
import time

ROOT = pathlib.Path(__file__).resolve().parent.parent
sys.path.insert(0, str(ROOT))
REPO = os.environ.get("EMINUS_REPO", "/repo")
os.environ["EMINUS_REPO"] = REPO
sys.path.insert(0, REPO)
os.environ.setdefault("OMP_NUM_THREADS", "1")
os.environ.setdefault("OPENBLAS_NUM_THREADS", "1")
os.environ.setdefault("MKL_NUM_THREADS", "1")

from pycv import framework as fw  # noqa: E402
from pycv import registry  # noqa: E402


def main():
    ap = argparse.ArgumentParser()
    ap.add_argument("prop")
    ap.add_argument("--tier", default=os.environ.get("VERIF_TIER", "quick"), choices=["quick", "thorough"])
    ap.add_argument("--replay")
    ap.add_argument("--only")
    ap.add_argument("--list", action="store_true")
    ap.add_argument("--jobs", type=int, default=0)
    ap.add_argument("--no-evidence", action="store_true")
    ap.add_argument("--write-baseline", action="store_true",
                    help="maintainer only: record this run's verdicts in OBLIGATIONS_BASELINE.json (never used by checks)")
    a = ap.parse_args()
    seed = int(os.environ.get("VERIF_SEED", "0"))
    prop = a.prop
    t0 = time.time()

    if a.replay:
        return replay(prop, a.replay)

    spec = registry.PROPERTIES.get(prop)
    if spec is None:
        print(f"unknown or unclaimed property {prop}")
        return 3
    # native import once in the parent: forked workers inherit it
    try:
        import eminus  # noqa: F401

        eminus.config.backend = "numpy"
        eminus.config.verbose = "critical"
    except Exception as e:  # noqa: BLE001
        print(f"cannot import eminus from {REPO}: {e}")
        return 3
    try:
        obs = registry.load(prop)
    except Exception as e:  # noqa: BLE001
        import traceback

        traceback.print_exc()
        print(f"checker error while generating obligations: {e}")
        return 3
    obs = [o for o in obs if a.tier in o.tiers]
    if a.only:
        obs = [o for o in obs if a.only in o.name]
    if a.list:
        for o in obs:
            print(o.name, o.engine, "bounded" if o.bounded else "", "canary" if o.canary else "")
        return 0
    if not obs:
        print("checker error: zero obligations generated")
        return 3

    print(f"{prop}: {len(obs)} obligations, tier={a.tier}, repo={REPO}")
    findings = fw.load_known_findings()
    baseline = fw.load_baseline().get(prop, {})
    if a.tier == "quick" and not a.write_baseline:
        # obligations the committed baseline lists as undecided (prover budget not sufficient) are still generated and
        # numerically pre-checked (a refutation is still reported), but get only a short exact-prover budget in the quick tier
        for o in obs:
            if baseline.get(o.name) == fw.UNDECIDED:
                o.budget = dict(o.budget, quick=min(o.budget.get("quick", 60), 12))
    results = fw.run_obligations(obs, a.tier, seed, jobs=a.jobs or None)

    by = {o.name: o for o in obs}
    violations, known, undecided, errors, discharged, bounded_ok, canary_bad = [], [], [], [], [], [], []
    new_undecided = []
    for name, res in results.items():
        ob = by[name]
        if ob.canary:
            # a canary is a deliberately false claim: the engine is unusable if it ACCEPTS it; an inconclusive canary (the traced
            # code left the modelled subset) is reported but is not an engine failure
            if res.verdict in (fw.DISCHARGED, fw.BOUNDED_OK, fw.ERROR):
                canary_bad.append(name)
            elif res.verdict != fw.REFUTED:
                print(f"NOTE canary {name} inconclusive on this tree: {res.detail[:120]}")
            continue
        if res.verdict == fw.DISCHARGED:
            (bounded_ok if ob.bounded else discharged).append(name)
        elif res.verdict == fw.BOUNDED_OK:
            bounded_ok.append(name)
        elif res.verdict == fw.REFUTED:
            if res.replayed is False:
                # the native run satisfies the post-condition: spurious counter-model -> undecided
                undecided.append(name)
                continue
            f = fw.match_finding(findings, prop, name, res)
            if f is not None:
                known.append((name, f))
            else:
                violations.append(name)
        elif res.verdict == fw.UNDECIDED:
            undecided.append(name)
        else:
            errors.append(name)
    for name in undecided:
        if baseline.get(name) == fw.DISCHARGED:
            new_undecided.append(name)
        elif name not in baseline and name.startswith("C20.full_init."):
            # an allocation site that does not exist on the committed tree and cannot be proved fully assigned: reported like a lost proof
            new_undecided.append(name)

    for name, f in known:
        print(f"KNOWN-FINDING: property={prop} obligation={name} {f['what']}")
    for name in violations:
        res = results[name]
        path = fw.write_replay(prop, by[name], res)
        tail = "" if res.witness and res.replayed else " no-failing-input-found"
        print(f"VIOLATION property={prop} replay={path}{tail}")
        print(f"    obligation {name}: {res.detail.splitlines()[0][:300] if res.detail else ''}")
    for name in new_undecided:
        print(f"UNDECIDED property={prop} obligation={name} (baseline: discharged) {results[name].detail[:200]}")
    for name in errors:
        print(f"CHECKER-ERROR obligation={name}: {results[name].detail[:600]}")
    for name in canary_bad:
        print(f"CHECKER-ERROR canary {name} was not refuted: the engine cannot be trusted on this run")

    wall = time.time() - t0
    if a.write_baseline:
        p = ROOT / "OBLIGATIONS_BASELINE.json"
        data = json.loads(p.read_text()) if p.exists() else {}
        cur = data.setdefault(prop, {})
        if not a.only:
            cur.clear()
        for name, res in results.items():
            if not by[name].canary:
                cur[name] = res.verdict
        p.write_text(json.dumps(data, indent=1, sort_keys=True))
        baseline = cur
        new_undecided = []
    if not a.no_evidence and not a.only:
        write_evidence(prop, spec, a.tier, seed, obs, results, discharged, bounded_ok, known, violations, undecided,
                       errors, wall)
    claimed = len(discharged) + len(violations) + len(new_undecided) + len(errors)
    print(f"{prop}: claimed={claimed} discharged={len(discharged)} known-findings={len(known)} "
          f"undecided(not counted)={len(undecided) - len(new_undecided)} bounded-ok={len(bounded_ok)} "
          f"violations={len(violations)} errors={len(errors)} wall={wall:.1f}s")
    if violations:
        return 1
    if errors or canary_bad:
        return 3
    if new_undecided:
        return 2
    if not discharged and not bounded_ok:
        print("checker error: nothing discharged")
        return 3
    return 0


def write_evidence(prop, spec, tier, seed, obs, results, discharged, bounded_ok, known, violations, undecided, errors,
                   wall):
    fw.EVIDENCE.mkdir(exist_ok=True)
    by = {o.name: o for o in obs}
    real = [o for o in obs if not o.canary]
    per = []
    for o in real:
        r = results[o.name]
        per.append(dict(obligation=o.name, engine=o.engine, verdict=r.verdict, backend=r.backend, time_s=round(r.time_s, 2),
                        bounded=o.bounded, functions=o.functions, doc=o.doc,
                        **({"detail": r.detail[:300]} if r.verdict != fw.DISCHARGED and r.detail else {}),
                        **({"side_conditions": r.side_conditions} if r.side_conditions else {}),
                        **({"stats": r.stats} if r.stats else {})))
    backends = {}
    for o in real:
        r = results[o.name]
        if r.verdict == fw.DISCHARGED and not o.bounded:
            backends[r.backend] = backends.get(r.backend, 0) + 1
    assumptions = list(spec.get("assumptions", []))
    used = sorted({a for o in real for a in o.assumes})
    from pycv import assumed

    for a in used:
        assumptions.append(f"assumed contract/lemma {a}: {assumed.TEXT.get(a, '(see contracts)')}")
    fh = fw.function_hashes(real)
    claimed = len(discharged) + len(violations) + len(errors) + sum(
        1 for n in undecided if fw.load_baseline().get(prop, {}).get(n) == fw.DISCHARGED)
    samples = per[:3] + [p for p in per if p["verdict"] != fw.DISCHARGED][:5]
    cov = dict(
        obligations=max(claimed, 0),
        discharged=len(discharged),
        checker_cmd=f"./check {prop} --tier {tier}",
        trusted_base=spec.get("trusted_base", []),
        generated=len(real),
        by_backend=backends,
        solver_time_s=round(sum(results[o.name].time_s for o in real), 1),
        known_findings=[dict(obligation=n, what=f["what"]) for n, f in known],
        undecided_not_counted=[n for n in undecided],
        bounded_stand_ins=[dict(obligation=n, verdict=results[n].verdict, detail=results[n].detail[:200]) for n in bounded_ok],
        violations=[n for n in violations],
        functions_under_contract=fh,
        canaries=[dict(obligation=o.name, refuted=results[o.name].verdict == fw.REFUTED) for o in obs if o.canary],
        samples=samples,
        per_obligation=per,
        explanation=spec.get("explanation", ""),
    )
    ev = dict(property_id=prop, tier=tier, seed=seed, level=spec.get("level", "proof"), coverage=cov,
              assumptions=assumptions, wall_s=round(wall, 1), violations=len(violations))
    (fw.EVIDENCE / f"{prop}.json").write_text(json.dumps(ev, indent=1, default=str))


def replay(prop, path):
    data = json.loads(pathlib.Path(path).read_text())
    name = data["obligation"]
    import eminus

    eminus.config.backend = "numpy"
    eminus.config.verbose = "critical"
    registry.load(prop)
    ob = fw.REGISTRY.get(name)
    if ob is None:
        print(f"unknown obligation {name}")
        return 3
    print(f"replay of {name} on {REPO}")
    print(json.dumps({k: data[k] for k in ("witness", "replay_info", "detail") if k in data}, indent=1, default=str)[:4000])
    fn = getattr(ob.run, "replay", None)
    if fn is None or not data.get("witness"):
        print("no executable witness: obligation failure only (see solver_output in the replay file)")
        return 1
    ok, info = fn(data["witness"])
    print("native replay:", json.dumps(info, indent=1, default=str)[:4000])
    if ok:
        print(f"VIOLATION property={prop} replay={path}")
        return 1
    print("the native run satisfies the post-condition on this tree")
    return 0


if __name__ == "__main__":
    try:
        rc = main()
    except SystemExit:
        raise
    except BaseException:  # noqa: BLE001  an uncaught exception of the checker is a checker error (exit 3), never a violation (exit 1)
        import traceback

        traceback.print_exc()
        print("CHECKER-ERROR: uncaught exception in the driver")
        rc = 3
    sys.exit(rc)
