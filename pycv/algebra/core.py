"""Engine A kernel: exact Laurent-polynomial arithmetic over Q in a tower of generators.

A value is a `Poly`: a finite sum of monomials  c * prod g_i**e_i  with c in Q, e_i in Z, over
generators that are created on the fly and hash-consed by their canonical defining data:

  kind   meaning                                   relation used by the zero test     derivative
  -----  ----------------------------------------  ---------------------------------  ----------------
  i      imaginary unit                            i**2 = -1 (eager)                  0
  var    independent input x; positive ones are    free                               delta
         stored through g = x**(1/L), L = 12
  root   g = p**(1/L) for a primitive polynomial   g**L = p                           g**(1-L) p'/L
         p (multi-term, or an integer prime);
         1/p is g**(-L)
  fun    log/exp/atan/tanh/erfc/sin/cos/... of a   free (transcendental atom)         chain rule
         canonical argument
  def    let-abstraction of a large intermediate   d = body (unfolded lazily)         def of body'
  opq    value of a callee taken by contract       free                               declared

Soundness of `is_zero`: every rewriting step uses only true relations (g**L = p, d = body, i*i = -1)
and splitting by powers of a generator only ever *strengthens* the requirement (all coefficients must
vanish). Hence `is_zero(p) == True` implies p = 0 for all values of the free atoms, in particular the
real ones, wherever the side conditions hold (radicands and denominators non-zero / positive; these
are recorded in `Ctx.side_conditions`).  `False` means "not proved".
"""

from __future__ import annotations

import itertools
import math as _math
import time
from fractions import Fraction

import mpmath

L = 12  # all radicals are stored as powers of the 12th root (covers 1/2, 1/3, 1/4, 1/6, 1/12)
ABSTRACT_ABOVE = 10  # let-abstraction threshold (terms)
FAST = True  # packed-integer back end of the zero test (fastzero.py); False: reference implementation below


class OutsideSubset(Exception):
    """The traced code used something the engine does not model."""


class Undecided(Exception):
    """A comparison / branch on symbolic data could not be decided from the declared facts."""


class Budget(Exception):
    """Time budget of the zero test exhausted."""


# ------------------------------------------------------------------------------------------------
# special IEEE values
# ------------------------------------------------------------------------------------------------


class Special:
    """IEEE special value: kind in {'inf', 'nan'}, sign in {+1, -1, 0 (unknown)}."""

    __slots__ = ("kind", "sign")

    def __init__(self, kind, sign=0):
        self.kind, self.sign = kind, sign

    def __repr__(self):
        if self.kind == "nan":
            return "nan"
        return {1: "+inf", -1: "-inf", 0: "±inf"}[self.sign]

    # arithmetic -----------------------------------------------------------------------------
    def _bin(self, o, op, swapped=False):
        if self.kind == "nan":
            return NAN
        if isinstance(o, Special):
            if o.kind == "nan":
                return NAN
            if op == "add":
                return self if (self.sign == o.sign and self.sign != 0) else NAN
            if op == "sub":
                return self if (self.sign == -o.sign and self.sign != 0) else NAN
            if op == "mul":
                return Special("inf", self.sign * o.sign)
            if op == "div":
                return NAN
        o = lift(o)
        if o is NotImplemented:
            return NotImplemented
        s = o.sign_or_none()
        if op in ("add", "sub"):
            if op == "sub" and swapped:
                return Special("inf", -self.sign)
            return self
        if op == "mul":
            if o.is_zero_syntactic():
                return NAN
            return Special("inf", self.sign * (s or 0))
        if op == "div":
            if swapped:  # finite / inf
                return ZERO
            if o.is_zero_syntactic():
                return Special("inf", self.sign * 0)
            return Special("inf", self.sign * (s or 0))
        raise AssertionError(op)

    def __add__(self, o):
        return self._bin(o, "add")

    __radd__ = __add__

    def __sub__(self, o):
        return self._bin(o, "sub")

    def __rsub__(self, o):
        return self._bin(o, "sub", swapped=True)

    def __mul__(self, o):
        return self._bin(o, "mul")

    __rmul__ = __mul__

    def __truediv__(self, o):
        return self._bin(o, "div")

    def __rtruediv__(self, o):
        return self._bin(o, "div", swapped=True)

    def __neg__(self):
        return NAN if self.kind == "nan" else Special("inf", -self.sign)

    def __pos__(self):
        return self

    def __abs__(self):
        return NAN if self.kind == "nan" else Special("inf", 1)

    def __pow__(self, o):
        if self.kind == "nan":
            return NAN
        o = lift(o)
        s = o.sign_or_none() if isinstance(o, Poly) else None
        if s is None:
            return NAN
        if s == 0:
            return ONE
        if s > 0:
            return Special("inf", 1 if self.sign == 1 else 0)
        return ZERO

    def __rpow__(self, o):  # finite ** inf
        return NAN

    def _cmp(self, o, op):
        if self.kind == "nan" or (isinstance(o, Special) and o.kind == "nan"):
            return False
        if self.sign == 0:
            raise Undecided("comparison with an infinity of unknown sign")
        if isinstance(o, Special):
            if o.sign == 0:
                raise Undecided("comparison with an infinity of unknown sign")
            a, b = self.sign, o.sign
        else:
            a, b = self.sign, 0
        return {"lt": a < b, "le": a <= b, "gt": a > b, "ge": a >= b}[op]

    def __lt__(self, o):
        return self._cmp(o, "lt")

    def __le__(self, o):
        return self._cmp(o, "le")

    def __gt__(self, o):
        return self._cmp(o, "gt")

    def __ge__(self, o):
        return self._cmp(o, "ge")

    def __eq__(self, o):
        return isinstance(o, Special) and self.kind == "inf" and o.kind == "inf" and self.sign == o.sign != 0

    def __ne__(self, o):
        return not self.__eq__(o)

    __hash__ = object.__hash__

    # ufunc-style methods ---------------------------------------------------------------------
    def sqrt(self):
        return self if (self.kind == "inf" and self.sign == 1) else NAN

    def log(self):
        return self if (self.kind == "inf" and self.sign == 1) else NAN

    def exp(self):
        if self.kind == "nan" or self.sign == 0:
            return NAN
        return self if self.sign == 1 else ZERO

    def tanh(self):
        if self.kind == "nan" or self.sign == 0:
            return NAN
        return ONE if self.sign == 1 else -ONE

    def arctan(self):
        if self.kind == "nan" or self.sign == 0:
            return NAN
        return ctx().pi() * Fraction(self.sign, 2)

    def conjugate(self):
        return self

    conj = conjugate


NAN = Special("nan")
PINF = Special("inf", 1)
NINF = Special("inf", -1)


# ------------------------------------------------------------------------------------------------
# generators and context
# ------------------------------------------------------------------------------------------------


class Gen:
    __slots__ = ("gid", "kind", "name", "data", "L", "positive", "real", "level", "deps", "value", "dcache", "pt", "base_real")

    def __init__(self, gid, kind, name, data=None, Lg=1, positive=False, real=True, level=0, deps=frozenset(),
                 value=None, pt=None):
        self.gid, self.kind, self.name, self.data = gid, kind, name, data
        self.L, self.positive, self.real, self.level, self.deps = Lg, positive, real, level, deps
        self.value = value  # numeric value for constants (pi, ...)
        self.dcache = {}
        self.pt = pt  # grid point tag for the frame (pointwise) obligation
        self.base_real = real

    def __repr__(self):
        return f"<{self.kind} {self.name}#{self.gid}>"


class Ctx:
    """Per-obligation universe of generators."""

    def __init__(self, abstract_above=ABSTRACT_ABOVE):
        self.gens: list[Gen] = []
        self.by_key: dict = {}
        self.abstract_above = abstract_above
        self.side_conditions: list[str] = []
        self.pos_facts: dict = {}  # canonical primitive poly key -> True (declared positive)
        self.deadline = None
        self.stats = dict(defs=0, roots=0, funs=0, unfold=0, splits=0, maxterms=0, skipped=0, wasted=0)
        self.guide_env = {}  # name -> float: sample point for the numeric guidance of the zero test
        self.guide_cache = {}
        self.guide_seed = 12345
        self.I = self._new("i", "i", real=False)
        self._pi = None

    # -- creation -------------------------------------------------------------------------------
    def _new(self, kind, name, key=None, **kw):
        g = Gen(len(self.gens), kind, name, **kw)
        self.gens.append(g)
        if key is not None:
            self.by_key[key] = g
        return g

    def var(self, name, positive=False, value=None, pt=None, real=True):
        key = ("var", name)
        g = self.by_key.get(key)
        if g is None:
            g = self._new("var", name, key, Lg=L if positive else 1, positive=positive, real=real, value=value, pt=pt)
            g.deps = frozenset([g.gid])
        return Poly({((g.gid, g.L),): Fraction(1)})

    def pi(self):
        if self._pi is None:
            self._pi = self.var("pi", positive=True, value="pi")
        return self._pi

    def opaque(self, name, args, derivs, positive=False, pt=None):
        """Value of a callee known only by contract. `derivs`: {var gid: Poly} partial derivatives."""
        deps = frozenset(derivs.keys())
        lvl = 1 + max([0] + [self.gens[g].level for a in args for g in a.gens()])
        g = self._new("opq", name, ("opq", name), data=dict(args=args, derivs=derivs), positive=positive,
                      level=lvl, deps=deps, pt=pt)
        return Poly({((g.gid, 1),): Fraction(1)})

    def assume_positive(self, p):
        c, m, prim = split_content(canon(p))
        self.pos_facts[prim.key()] = (c, m)
        self.max_fact_terms = max(getattr(self, "max_fact_terms", 0), len(prim.t))
        if not hasattr(self, "fact_polys"):
            self.fact_polys = []
        self.fact_polys.append(p)

    def check_deadline(self):
        if self.deadline is not None and time.process_time() > self.deadline:  # CPU time of this prover process: independent of the load of the machine
            raise Budget()


_CTX: Ctx | None = None


def ctx() -> Ctx:
    global _CTX
    if _CTX is None:
        _CTX = Ctx()
    return _CTX


def new_ctx(**kw) -> Ctx:
    global _CTX, ZERO, ONE
    _CTX = Ctx(**kw)
    return _CTX


# ------------------------------------------------------------------------------------------------
# monomials
# ------------------------------------------------------------------------------------------------


def mono_mul(a, b):
    """Product of two monomials (sorted tuples of (gid, exp)). Returns (mono, sign) handling i*i = -1."""
    if not a:
        return b, 1
    if not b:
        return a, 1
    out = []
    i = j = 0
    la, lb = len(a), len(b)
    sign = 1
    while i < la and j < lb:
        ga, ea = a[i]
        gb, eb = b[j]
        if ga == gb:
            e = ea + eb
            if ga == 0:  # imaginary unit
                if e >= 2:
                    sign = -sign
                    e -= 2
            if e:
                out.append((ga, e))
            i += 1
            j += 1
        elif ga < gb:
            out.append(a[i])
            i += 1
        else:
            out.append(b[j])
            j += 1
    if i < la:
        out.extend(a[i:])
    elif j < lb:
        out.extend(b[j:])
    return tuple(out), sign


def mono_pow(m, k):
    return tuple((g, e * k) for g, e in m)


# ------------------------------------------------------------------------------------------------
# polynomials
# ------------------------------------------------------------------------------------------------


def lift(x):
    if isinstance(x, Poly):
        return x
    if isinstance(x, Special):
        return x
    if isinstance(x, bool):
        return Poly({(): Fraction(int(x))}) if x else ZERO
    if isinstance(x, int):
        return Poly({(): Fraction(x)}) if x else ZERO
    if isinstance(x, Fraction):
        return Poly({(): x}) if x else ZERO
    if isinstance(x, float):
        if x != x:
            return NAN
        if x in (float("inf"), float("-inf")):
            return PINF if x > 0 else NINF
        return Poly({(): Fraction(x)}) if x else ZERO
    if isinstance(x, complex):
        return lift(x.real) + lift(x.imag) * I()
    if hasattr(x, "dtype") and hasattr(x, "shape"):
        if x.shape == ():
            return lift(x.item())
        return NotImplemented
    return NotImplemented


def I():
    return Poly({((0, 1),): Fraction(1)})


class Poly:
    __slots__ = ("t", "_key")

    def __init__(self, t):
        self.t = t
        self._key = None

    # -- basics -------------------------------------------------------------------------------
    def key(self):
        if self._key is None:
            self._key = frozenset(self.t.items())
        return self._key

    def gens(self):
        s = set()
        for m in self.t:
            for g, _ in m:
                s.add(g)
        return s

    def is_zero_syntactic(self):
        return not self.t

    def is_const(self):
        return not self.t or (len(self.t) == 1 and () in self.t)

    def const_value(self):
        if not self.t:
            return Fraction(0)
        if len(self.t) == 1 and () in self.t:
            return self.t[()]
        return None

    def nterms(self):
        return len(self.t)

    def __repr__(self):
        return fmt(self)

    def __len__(self):
        raise TypeError("Poly has no len")

    # -- arithmetic ---------------------------------------------------------------------------
    def __add__(self, o):
        o = lift(o)
        if o is NotImplemented:
            return NotImplemented
        if isinstance(o, Special):
            return o.__radd__(self)
        if not o.t:
            return self
        if not self.t:
            return o
        a, b = (self.t, o.t) if len(self.t) >= len(o.t) else (o.t, self.t)
        r = dict(a)
        for m, c in b.items():
            v = r.get(m)
            if v is None:
                r[m] = c
            else:
                v = v + c
                if v:
                    r[m] = v
                else:
                    del r[m]
        return mk(r)

    __radd__ = __add__

    def __neg__(self):
        return Poly({m: -c for m, c in self.t.items()})

    def __pos__(self):
        return self

    def __sub__(self, o):
        o = lift(o)
        if o is NotImplemented:
            return NotImplemented
        if isinstance(o, Special):
            return o.__rsub__(self)
        return self + (-o)

    def __rsub__(self, o):
        o = lift(o)
        if o is NotImplemented:
            return NotImplemented
        return o + (-self)

    def __mul__(self, o):
        o = lift(o)
        if o is NotImplemented:
            return NotImplemented
        if isinstance(o, Special):
            return o.__rmul__(self)
        return mk(raw_mul(self.t, o.t))

    __rmul__ = __mul__

    def __truediv__(self, o):
        o = lift(o)
        if o is NotImplemented:
            return NotImplemented
        if isinstance(o, Special):
            return o.__rtruediv__(self)
        if not o.t:
            if not self.t:
                return NAN
            s = self.sign_or_none()
            return Special("inf", s or 0)
        return self * inverse(o)

    def __rtruediv__(self, o):
        o = lift(o)
        if o is NotImplemented:
            return NotImplemented
        return o / self

    def __pow__(self, o):
        if isinstance(o, int) and not isinstance(o, bool):
            return ipow(self, o)
        o = lift(o)
        if o is NotImplemented:
            return NotImplemented
        if isinstance(o, Special):
            return NAN
        c = o.const_value()
        if c is not None:
            if c.denominator == 1:
                return ipow(self, int(c))
            return qpow(self, c)
        return gpow(self, o)

    def __rpow__(self, o):
        o = lift(o)
        if o is NotImplemented:
            return NotImplemented
        return o ** self

    def __abs__(self):
        s = self.sign_or_none()
        if s is None:
            # |z|: only for declared-real values we can write sqrt(z**2); complex handled by callers
            if self.is_real():
                return qpow(self * self, Fraction(1, 2))
            return qpow(self * self.conjugate(), Fraction(1, 2))
        return self if s >= 0 else -self

    # -- python protocol for exact integer constants ------------------------------------------------
    def __index__(self):
        c = self.const_value()
        if c is None or c.denominator != 1:
            raise TypeError("not an integer constant")
        return int(c)

    __int__ = __index__

    def __float__(self):
        c = self.const_value()
        if c is not None:
            return float(c)
        if not self.is_constant_expr():
            raise TypeError("symbolic value has no float")
        return float(evalf(self, {}))

    def __complex__(self):
        return complex(evalf(self, {}))

    def __bool__(self):
        return bool(self.t)

    def __hash__(self):
        c = self.const_value()
        if c is not None:
            return hash(c)
        return hash(self.key())

    def __eq__(self, o):
        o = lift(o)
        if o is NotImplemented or isinstance(o, Special):
            return False
        if self.t == o.t:
            return True
        d = self - o
        if d.is_constant_expr():
            return abs(evalf(d, {})) < mpmath.mpf(10) ** (-40)
        return bool(is_zero(d, budget=5))

    def __ne__(self, o):
        return not self.__eq__(o)

    def _cmp(self, o, op):
        o = lift(o)
        if o is NotImplemented:
            return NotImplemented
        if isinstance(o, Special):
            return {"lt": o.__gt__, "le": o.__ge__, "gt": o.__lt__, "ge": o.__le__}[op](self)
        d = self - o
        s = d.sign_or_none()
        if s is None:
            raise Undecided(f"sign of {fmt(d, 6)}")
        return {"lt": s < 0, "le": s <= 0, "gt": s > 0, "ge": s >= 0}[op]

    def __lt__(self, o):
        return self._cmp(o, "lt")

    def __le__(self, o):
        return self._cmp(o, "le")

    def __gt__(self, o):
        return self._cmp(o, "gt")

    def __ge__(self, o):
        return self._cmp(o, "ge")

    # -- analysis -------------------------------------------------------------------------------
    def is_constant_expr(self):
        """True if only constant generators (pi, primes, functions of constants) occur."""
        G = ctx().gens
        return all(not G[g].deps for g in self.gens())

    def is_real(self):
        G = ctx().gens
        for m in self.t:
            for g, e in m:
                gg = G[g]
                if not gg.real and not (gg.kind == "root" and gg.base_real and e % L == 0):
                    return False
        return True

    def sign_or_none(self):
        """+1 / -1 / 0 if the sign is determined for all admissible inputs, else None."""
        if not self.t:
            return 0
        c = self.const_value()
        if c is not None:
            return 1 if c > 0 else -1
        if self.is_constant_expr():
            if not self.is_real():
                return None
            v = evalf(self, {})
            if abs(v) < mpmath.mpf(10) ** (-40):
                return 0 if is_zero(self, budget=5) else None
            return 1 if v > 0 else -1
        G = ctx().gens
        signs = set()
        for m, cf in self.t.items():
            s = 1 if cf > 0 else -1
            for g, e in m:
                gg = G[g]
                if gg.positive:
                    continue
                if gg.real and e % 2 == 0:
                    continue  # even power of a real quantity: >= 0 (treated as positive: generic)
                if gg.kind == "root" and gg.base_real and e % (2 * L) == 0:
                    continue  # even power of a real radicand (e.g. 1/det**2)
                return self._sign_from_facts()
            signs.add(s)
            if len(signs) > 1:
                return self._sign_from_facts()
        return signs.pop()

    def _sign_from_facts(self):
        """Sign from the declared facts: self = c * m * prim and a fact  fc * fm * prim > 0  with the same primitive part."""
        C = ctx()
        if not C.pos_facts or (len(self.t) > max(6, getattr(C, "max_fact_terms", 0)) and not getattr(C, "semantic_facts", False)):
            return None
        c, m, prim = split_content(canon(self))
        fact = C.pos_facts.get(prim.key())
        if fact is None:
            # semantic match: self == +-fact as an exact identity (definitions unfolded by the zero test)
            if getattr(C, "semantic_facts", False) and not getattr(C, "_in_fact_check", False):
                C._in_fact_check = True
                try:
                    for f in getattr(C, "fact_polys", []):
                        if is_zero(self - f, budget=5):
                            return 1
                        if is_zero(self + f, budget=5):
                            return -1
                finally:
                    C._in_fact_check = False
            return None
        fc, fm = fact
        sm = Poly({m: Fraction(1)}).sign_or_none() if m else 1
        sfm = Poly({fm: Fraction(1)}).sign_or_none() if fm else 1
        if not sm or not sfm:
            return None
        return (1 if c > 0 else -1) * (1 if fc > 0 else -1) * sm * sfm

    # -- ufunc-style methods (numpy calls these on object arrays) --------------------------------
    def sqrt(self):
        return qpow(self, Fraction(1, 2))

    def log(self):
        return log(self)

    def exp(self):
        return exp(self)

    def tanh(self):
        return fun1("tanh", self)

    def arctan(self):
        return fun1("atan", self)

    def sin(self):
        return fun1("sin", self)

    def cos(self):
        return fun1("cos", self)

    def conjugate(self):
        G = ctx().gens
        r = {}
        slow = None
        for m, c in self.t.items():
            s = 1
            hard = False
            for g, e in m:
                if g == 0:
                    if e % 2:
                        s = -s
                elif not G[g].real and not (G[g].kind == "root" and G[g].base_real and e % L == 0):
                    if G[g].kind == "def" and isinstance(G[g].data, Poly):
                        hard = True
                    else:
                        raise OutsideSubset("conjugate of a non-real generator")
            if hard:
                # a complex definition generator: conj(d) is the (hash-consed) definition of conj(body)
                term = Poly({(): c})
                for g, e in m:
                    if g == 0:
                        f = Poly({((0, 1),): Fraction(-1)})
                    elif G[g].kind == "def" and not G[g].real:
                        f = abstract(G[g].data.conjugate())
                    else:
                        f = Poly({((g, 1),): Fraction(1)})
                    term = term * ipow(f, e)
                slow = term if slow is None else slow + term
            else:
                r[m] = c * s
        out = Poly(r)
        return out if slow is None else out + slow

    conj = conjugate

    @property
    def real(self):
        return (self + self.conjugate()) * Fraction(1, 2)

    @property
    def imag(self):
        return (self - self.conjugate()) * Fraction(1, 2) * (-I())


def raw_mul(a, b):
    if not a or not b:
        return {}
    if len(a) == 1:
        ((ma, ca),) = a.items()
        if not ma:
            return {m: c * ca for m, c in b.items()}
    if len(b) == 1:
        ((mb, cb),) = b.items()
        if not mb:
            return {m: c * cb for m, c in a.items()}
    r = {}
    get = r.get
    for ma, ca in a.items():
        for mb, cb in b.items():
            m, s = mono_mul(ma, mb)
            c = ca * cb if s == 1 else -(ca * cb)
            v = get(m)
            if v is None:
                r[m] = c
            else:
                v = v + c
                if v:
                    r[m] = v
                else:
                    del r[m]
    if len(r) > 2000:
        ctx().check_deadline()
    return r


ZERO = Poly({})
ONE = Poly({(): Fraction(1)})


def const(x):
    return lift(Fraction(x))


def mk(t):
    """Wrap a term dict; abstract large results into a def generator."""
    C = ctx()
    n = len(t)
    if n > C.abstract_above and C.abstract_above > 0:
        return abstract(Poly(t))
    return Poly(t)


def abstract(p):
    """Replace p by c * m * d with d a def-generator whose body is the primitive part of p (hash-consed)."""
    C = ctx()
    cont, m, prim = split_content(p)
    if len(prim.t) <= 1:
        return p
    k = ("def", prim.key())
    g = C.by_key.get(k)
    if g is None:
        gs = prim.gens()
        G = C.gens
        lvl = 1 + max(G[x].level for x in gs)
        deps = frozenset().union(*[G[x].deps for x in gs])
        real = prim.is_real()
        pts = {G[x].pt for x in gs} - {None}
        try:
            pos = real and prim.sign_or_none() == 1
        except Undecided:
            pos = False
        g = C._new("def", f"d{len(C.gens)}", k, data=prim, level=lvl, deps=deps, real=real, positive=pos,
                   pt=(pts.pop() if len(pts) == 1 else ("mixed" if pts else None)))
        C.stats["defs"] += 1
        if n_terms(prim) > C.stats["maxterms"]:
            C.stats["maxterms"] = n_terms(prim)
    mm, sgn = mono_mul(m, ((g.gid, 1),))
    return Poly({mm: cont * sgn})


def n_terms(p):
    return len(p.t)


def ipow(p, k):
    if isinstance(p, Special):
        return p ** k
    if k == 0:
        return ONE
    if k < 0:
        if not p.t:
            return PINF if k % 2 == 0 else Special("inf", 0)
        return ipow(inverse(p), -k)
    if k == 1:
        return p
    if len(p.t) == 1:
        ((m, c),) = p.t.items()
        mm = []
        sign = 1
        for g, e in m:
            ee = e * k
            if g == 0:
                q, ee = divmod(ee, 2)
                if q % 2:
                    sign = -sign
            if ee:
                mm.append((g, ee))
        return Poly({tuple(mm): (c ** k) * sign})
    # square-and-multiply through mk (abstraction keeps sizes in check)
    r = None
    base = p
    while k:
        if k & 1:
            r = base if r is None else r * base
        k >>= 1
        if k:
            base = base * base
    return r


# ------------------------------------------------------------------------------------------------
# canonical forms
# ------------------------------------------------------------------------------------------------


def canon(p):
    """Reduce g**e with e >= L for root generators (g**L -> base). Leaves negative powers alone."""
    G = ctx().gens
    changed = True
    while changed:
        changed = False
        for m in p.t:
            for g, e in m:
                if e >= L and G[g].kind == "root":
                    changed = True
                    break
            if changed:
                break
        if not changed:
            return p
        r = ZERO
        acc = {}
        for m, c in p.t.items():
            factor = None
            mm = []
            for g, e in m:
                gg = G[g]
                if e >= L and gg.kind == "root":
                    q, rem = divmod(e, L)
                    if rem:
                        mm.append((g, rem))
                    f = ipow_raw(gg.data, q)
                    factor = f if factor is None else Poly(raw_mul(factor.t, f.t))
                else:
                    mm.append((g, e))
            if factor is None:
                v = acc.get(m)
                acc[m] = c if v is None else v + c
            else:
                for fm, fc in factor.t.items():
                    m2, s = mono_mul(tuple(mm), fm)
                    cc = c * fc * s
                    v = acc.get(m2)
                    acc[m2] = cc if v is None else v + cc
        p = Poly({m: c for m, c in acc.items() if c})
    return p


def ipow_raw(p, k):
    """Integer power without abstraction (used inside canon / zero test)."""
    r = {(): Fraction(1)}
    b = p.t
    while k:
        if k & 1:
            r = raw_mul(r, b)
        k >>= 1
        if k:
            b = raw_mul(b, b)
    return Poly(r)


def mono_key(m):
    return m


def split_content(p):
    """p = c * m * prim with c in Q (sign of the leading term kept in c so prim's leading coeff > 0),
    m the gcd monomial (only over exponents; may carry negative exponents), prim primitive."""
    if not p.t:
        return Fraction(0), (), p
    # gcd monomial: min exponent per generator across all terms (generator must be in every term)
    it = iter(p.t)
    first = next(it)
    common = dict(first)
    for m in it:
        if not common:
            break
        d = dict(m)
        for g in list(common):
            e = d.get(g)
            if e is None:
                del common[g]
            else:
                if e < common[g]:
                    common[g] = e
    common.pop(0, None)  # never factor the imaginary unit
    # also negative exponents that are not shared: factor out the most negative so prim is polynomial
    mins = {}
    for m in p.t:
        for g, e in m:
            if e < 0 and g != 0:
                if e < mins.get(g, 0):
                    mins[g] = e
    for g, e in mins.items():
        if g not in common or common[g] > e:
            common[g] = e
    cm = tuple(sorted((g, e) for g, e in common.items() if e))
    inv = tuple((g, -e) for g, e in cm)
    # content
    num = 0
    den = 1
    for c in p.t.values():
        num = _math.gcd(num, c.numerator)
        den = den * c.denominator // _math.gcd(den, c.denominator)
    cont = Fraction(num, den)
    terms = {}
    for m, c in p.t.items():
        m2, s = mono_mul(m, inv)
        terms[m2] = c / cont * s
    lead = min(terms)  # deterministic leading monomial
    if terms[lead] < 0:
        cont = -cont
        terms = {m: -c for m, c in terms.items()}
    return cont, cm, Poly(terms)


# ------------------------------------------------------------------------------------------------
# radicals, inverses
# ------------------------------------------------------------------------------------------------

_SMALL_PRIMES = [2, 3, 5, 7, 11, 13, 17, 19, 23, 29, 31, 37, 41, 43, 47, 53, 59, 61, 67, 71, 73, 79, 83, 89, 97]


def factor_int(n):
    out = {}
    for p in _SMALL_PRIMES:
        while n % p == 0:
            out[p] = out.get(p, 0) + 1
            n //= p
        if n == 1:
            return out
    p = 101
    while p * p <= n:
        while n % p == 0:
            out[p] = out.get(p, 0) + 1
            n //= p
        p += 2
    if n > 1:
        out[n] = out.get(n, 0) + 1
    return out


def prime_root(p):
    """Generator for p**(1/L), p an integer prime."""
    C = ctx()
    k = ("prime", p)
    g = C.by_key.get(k)
    if g is None:
        g = C._new("root", f"{p}^(1/{L})", k, data=Poly({(): Fraction(p)}), Lg=L, positive=True, level=0,
                   value=p)
    return g


def root_gen(prim, assume_positive=False):
    """Generator g with g**L = prim (prim primitive, canonical). g is only known to be real and positive
    if prim is (declared or assumed, as a recorded side condition) positive."""
    C = ctx()
    k = ("root", prim.key())
    g = C.by_key.get(k)
    if g is None:
        G = C.gens
        gs = prim.gens()
        lvl = 1 + max([0] + [G[x].level for x in gs])
        deps = frozenset().union(*[G[x].deps for x in gs]) if gs else frozenset()
        breal = prim.is_real()
        pos = breal and (assume_positive or prim.sign_or_none() == 1)
        pts = {G[x].pt for x in gs} - {None}
        g = C._new("root", f"r{len(C.gens)}", k, data=prim, Lg=L, positive=pos, level=lvl, deps=deps, real=pos,
                   pt=(pts.pop() if len(pts) == 1 else ("mixed" if pts else None)))
        g.base_real = breal
        C.stats["roots"] += 1
    elif assume_positive and not g.positive and g.base_real:
        g.positive = g.real = True
    return g


def const_qpow(c, q):
    """c**q for positive rational c and rational q, as a Poly over prime-root generators."""
    if c <= 0:
        raise OutsideSubset(f"fractional power of non-positive constant {c}")
    e12 = q * L
    if e12.denominator != 1:
        raise OutsideSubset(f"exponent {q} needs a root finer than 1/{L}")
    e12 = int(e12)
    mono = {}
    coeff = Fraction(1)
    for n, sgn in ((c.numerator, 1), (c.denominator, -1)):
        for p, k in factor_int(n).items():
            g = prime_root(p)
            e = sgn * k * e12
            # reduce: g**(L*a + r) = p**a * g**r with 0 <= r < L
            a, r = divmod(e, L)
            coeff *= Fraction(p) ** a
            if r:
                mono[g.gid] = mono.get(g.gid, 0) + r
    return Poly({tuple(sorted(mono.items())): coeff})


def inverse(p):
    if isinstance(p, Special):
        return ZERO if p.kind == "inf" else NAN
    if not p.t:
        return Special("inf", 0)
    if len(p.t) == 1:
        ((m, c),) = p.t.items()
        mm = []
        sign = 1
        for g, e in m:
            if g == 0:
                # 1/i = -i
                if e % 2:
                    sign = -sign
                    mm.append((0, 1))
            else:
                mm.append((g, -e))
        return Poly({tuple(mm): sign / c})
    return qpow(p, Fraction(-1))


def qpow(p, q):
    """p**q for rational q (q may be a negative integer: inverse of a multi-term polynomial)."""
    if isinstance(p, Special):
        if p.kind == "nan":
            return NAN
        if q > 0:
            return p if p.sign == 1 else NAN
        return ZERO
    q = Fraction(q)
    if not p.t:
        return ZERO if q > 0 else PINF
    integer = q.denominator == 1
    if integer and len(p.t) == 1:
        return ipow(p, int(q))
    p = canon(p)
    if not p.t:
        return ZERO if q > 0 else PINF
    if integer and len(p.t) == 1:
        return ipow(p, int(q))
    cont, m, prim = split_content(p)
    G = ctx().gens
    if not integer:
        # (c*m*prim)**q = c**q m**q prim**q needs each factor positive
        if cont < 0:
            prim = -prim
            cont = -cont
            if len(prim.t) == 1:
                return NAN  # fractional power of a negative quantity
        keep = tuple((g, e) for g, e in m if not G[g].positive)
        if keep:
            m = tuple((g, e) for g, e in m if G[g].positive)
            prim = Poly(raw_mul(prim.t, {keep: Fraction(1)}))
        if prim.t != ONE.t and prim.sign_or_none() != 1:
            sc = f"{fmt(prim, 8)} > 0 (radicand)"
            if sc not in ctx().side_conditions:
                ctx().side_conditions.append(sc)
        res = const_qpow(cont, q)
    else:
        res = Poly({(): cont ** int(q)})
    mm = []
    for g, e in m:
        ee = Fraction(e) * q
        if ee.denominator != 1:
            raise OutsideSubset(f"exponent {q} of generator {G[g]!r}**{e} needs a finer root")
        mm.append((g, int(ee)))
    if mm:
        res = Poly(raw_mul(res.t, {tuple(mm): Fraction(1)}))
    if prim.t == ONE.t:
        return res
    e12 = q * L
    if e12.denominator != 1:
        raise OutsideSubset(f"exponent {q} needs a root finer than 1/{L}")
    g = root_gen(prim, assume_positive=not integer)
    return Poly(raw_mul(res.t, {((g.gid, int(e12)),): Fraction(1)}))


# ------------------------------------------------------------------------------------------------
# transcendental atoms
# ------------------------------------------------------------------------------------------------


def fun_gen(name, arg, positive=False, real=True):
    C = ctx()
    arg = canon(arg)
    k = ("fun", name, arg.key())
    g = C.by_key.get(k)
    if g is None:
        G = C.gens
        gs = arg.gens()
        lvl = 1 + max([0] + [G[x].level for x in gs])
        deps = frozenset().union(*[G[x].deps for x in gs]) if gs else frozenset()
        pts = {G[x].pt for x in gs} - {None}
        g = C._new("fun", name, k, data=arg, positive=positive, real=real and all(G[x].real for x in gs), level=lvl,
                   deps=deps, pt=(pts.pop() if len(pts) == 1 else ("mixed" if pts else None)))
        C.stats["funs"] += 1
    return g


def fun1(name, x):
    """Generic unary transcendental function with odd/even normalisation."""
    x = lift(x)
    if isinstance(x, Special):
        return getattr(x, {"atan": "arctan"}.get(name, name))()
    if not x.t:
        return {"tanh": ZERO, "atan": ZERO, "sin": ZERO, "cos": ONE, "erfc": ONE, "erf": ZERO, "sinh": ZERO,
                "cosh": ONE}[name]
    x = canon(x)
    odd = name in ("tanh", "atan", "sin", "erf", "sinh")
    even = name in ("cos", "cosh")
    sgn = 1
    if odd or even:
        lead = min(x.t)
        if x.t[lead] < 0:
            x = -x
            if odd:
                sgn = -1
    g = fun_gen(name, x, positive=(name in ("cosh",)))
    r = Poly({((g.gid, 1),): Fraction(sgn)})
    return r


def log(x):
    x = lift(x)
    if isinstance(x, Special):
        return x.log()
    if not x.t:
        return NINF
    x = canon(x)
    if x.t == ONE.t:
        return ZERO
    cont, m, prim = split_content(x)
    G = ctx().gens
    if cont < 0:
        prim = -prim
        cont = -cont
        if len(prim.t) == 1:
            return NAN
    res = ZERO
    # constant: sum over primes
    for n, sgn in ((cont.numerator, 1), (cont.denominator, -1)):
        for p, k in factor_int(n).items():
            g = fun_gen("log", Poly({(): Fraction(p)}))
            res = res + Poly({((g.gid, 1),): Fraction(sgn * k)})
    keep = []
    for g, e in m:
        gg = G[g]
        if not gg.positive:
            keep.append((g, e))
            continue
        if gg.kind == "var":
            base = Poly({((g, gg.L),): Fraction(1)})
            lg = fun_gen("log", base)
            res = res + Poly({((lg.gid, 1),): Fraction(e, gg.L)})
        elif gg.kind == "root":
            if gg.data.is_const():
                lg = fun_gen("log", gg.data)
            else:
                lg = fun_gen("log", gg.data)
            res = res + Poly({((lg.gid, 1),): Fraction(e, L)})
        elif gg.kind == "fun" and gg.name == "exp":
            res = res + gg.data * e
        else:
            keep.append((g, e))
    if keep:
        prim = Poly(raw_mul(prim.t, {tuple(keep): Fraction(1)}))
    if prim.t != ONE.t:
        lg = fun_gen("log", prim)
        res = res + Poly({((lg.gid, 1),): Fraction(1)})
    return res


def _exp_atom(x):
    """exp of one canonical argument: exp(c*u0) = E**(12 c) with E = exp(u0/12) when 12 c is an integer."""
    cont, m, prim = split_content(x)
    u0 = Poly(raw_mul(prim.t, {m: Fraction(1)})) if m else prim
    e12 = cont * L
    if e12.denominator == 1 and abs(e12) <= 96 * L:
        g = fun_gen("exp", u0 * Fraction(1, L), positive=u0.is_real(), real=u0.is_real())
        return Poly({((g.gid, int(e12)),): Fraction(1)})
    g = fun_gen("exp", x, positive=x.is_real(), real=x.is_real())
    return Poly({((g.gid, 1),): Fraction(1)})


def exp(x):
    x = lift(x)
    if isinstance(x, Special):
        return x.exp()
    if not x.t:
        return ONE
    x = canon(x)
    # exp(a + b) = exp(a) exp(b): arguments with few terms are split term by term (normal form of the exponential monoid:
    # phases e^{iG.r}, Gaussians); long arguments stay one atom
    if 1 < len(x.t) <= 8:
        r = ONE
        for m, c in x.t.items():
            r = r * _exp_atom(Poly({m: c}))
        return r
    return _exp_atom(x)


def gpow(a, b):
    """a ** b with a symbolic exponent: exp(b * log a)."""
    a = lift(a)
    if isinstance(a, Special):
        return NAN
    if not a.t:
        s = b.sign_or_none()
        if s is None:
            raise Undecided("0 ** symbolic exponent")
        return ZERO if s > 0 else (ONE if s == 0 else PINF)
    la = log(a)
    if isinstance(la, Special):
        return NAN
    return exp(b * la)


def sqrt(x):
    x = lift(x)
    if isinstance(x, Special):
        return x.sqrt()
    return qpow(x, Fraction(1, 2))


def erfc(x):
    return fun1("erfc", lift(x))


# ------------------------------------------------------------------------------------------------
# differentiation
# ------------------------------------------------------------------------------------------------


def dgen(g: Gen, v: int):
    """d g / d var(v) as a Poly."""
    if v not in g.deps:
        return ZERO
    r = g.dcache.get(v)
    if r is not None:
        return r
    C = ctx()
    me = Poly({((g.gid, 1),): Fraction(1)})
    if g.kind == "var":
        r = Poly({((g.gid, 1 - g.L),): Fraction(1, g.L)}) if g.L != 1 else ONE
    elif g.kind == "root":
        dp = D(g.data, v)
        r = Poly({((g.gid, 1 - L),): Fraction(1, L)}) * dp
    elif g.kind == "def":
        body = D(g.data, v)
        r = body  # mk() inside D already abstracts large results
    elif g.kind == "opq":
        r = g.data["derivs"].get(v, ZERO)
    elif g.kind == "fun":
        u = g.data
        du = D(u, v)
        n = g.name
        if n == "log":
            r = du * inverse(u)
        elif n == "exp":
            r = me * du
        elif n == "tanh":
            r = (ONE - me * me) * du
        elif n == "atan":
            r = du * inverse(ONE + u * u)
        elif n == "sin":
            r = fun1("cos", u) * du
        elif n == "cos":
            r = -fun1("sin", u) * du
        elif n == "sinh":
            r = fun1("cosh", u) * du
        elif n == "cosh":
            r = fun1("sinh", u) * du
        elif n == "erfc":
            r = exp(-(u * u)) * du * (-2) * qpow(C.pi(), Fraction(-1, 2))
        elif n == "erf":
            r = exp(-(u * u)) * du * 2 * qpow(C.pi(), Fraction(-1, 2))
        else:
            raise OutsideSubset(f"no derivative rule for {n}")
    else:
        r = ZERO
    g.dcache[v] = r
    return r


def D(p, v):
    """Partial derivative of p with respect to the variable generator id v (or a var Poly)."""
    if isinstance(v, Poly):
        v = var_gid(v)
    p = lift(p)
    if isinstance(p, Special):
        return NAN
    G = ctx().gens
    res = ZERO
    # group: derivative = sum over generators g in p of (dp/dg) * dg/dv
    by_gen = {}
    for m, c in p.t.items():
        for idx, (g, e) in enumerate(m):
            if v in G[g].deps:
                # d/dg of the monomial
                mm = list(m)
                if e == 1:
                    del mm[idx]
                else:
                    mm[idx] = (g, e - 1)
                d = by_gen.setdefault(g, {})
                key = tuple(mm)
                val = d.get(key)
                cc = c * e
                if val is None:
                    d[key] = cc
                else:
                    val += cc
                    if val:
                        d[key] = val
                    else:
                        del d[key]
    for g, t in by_gen.items():
        if t:
            res = res + mk(t) * dgen(G[g], v)
    return res


def var_gid(p):
    if isinstance(p, Poly) and len(p.t) == 1:
        ((m, c),) = p.t.items()
        if len(m) == 1 and c == 1:
            g, e = m[0]
            gg = ctx().gens[g]
            if gg.kind == "var" and e == gg.L:
                return g
    raise ValueError(f"not a variable: {p!r}")


# ------------------------------------------------------------------------------------------------
# zero test
# ------------------------------------------------------------------------------------------------


def top_gen(p):
    G = ctx().gens
    best = None
    bk = None
    for g in p.gens():
        gg = G[g]
        k = (gg.level, g)
        if bk is None or k > bk:
            bk, best = k, gg
    return best


def is_zero(p, budget=None):
    """Exact zero test (see module docstring). Returns True (proved) or False (not proved).

    Raises Budget if the time budget (seconds) is exhausted."""
    C = ctx()
    old = C.deadline
    if budget is not None:
        C.deadline = time.process_time() + budget
    try:
        p = lift(p)
        if isinstance(p, Special):
            return False
        if FAST:
            from . import fastzero

            return fastzero.is_zero_fast(p)
        return _is_zero(p)
    except Budget:
        if budget is not None and old is None:
            return None
        raise
    finally:
        C.deadline = old


def _collect(p, gid):
    """Group terms of p by the exponent of generator gid -> {exp: termdict}."""
    out = {}
    for m, c in p.t.items():
        e = 0
        mm = m
        for idx, (g, ee) in enumerate(m):
            if g == gid:
                e = ee
                mm = m[:idx] + m[idx + 1:]
                break
        out.setdefault(e, {})[mm] = c
    return out


def _guide_value(gid):
    """Float (complex) value of a generator at the guidance sample point (heuristic only)."""
    C = ctx()
    v = C.guide_cache.get(gid)
    if v is not None:
        return v
    g = C.gens[gid]
    import cmath
    import random as _r

    try:
        if g.kind == "i":
            v = 1j
        elif g.kind == "var":
            if g.value == "pi":
                x = _math.pi
            elif g.value is not None:
                x = float(g.value)
            else:
                x = C.guide_env.get(g.name)
                if x is None:
                    rr = _r.Random(f"{C.guide_seed}/{g.name}")
                    x = 10 ** rr.uniform(-0.7, 0.7) if g.positive else rr.uniform(-0.9, 0.9)
                    C.guide_env[g.name] = x
            v = x ** (1.0 / g.L) if g.L != 1 else x
        elif g.kind == "root":
            b = _guide_poly(g.data.t)
            v = cmath.exp(cmath.log(b) / L) if not (isinstance(b, float) and b > 0) else b ** (1.0 / L)
        elif g.kind == "def":
            v = _guide_poly(g.data.t)
        elif g.kind == "opq":
            x = C.guide_env.get(g.name)
            if x is None:
                rr = _r.Random(f"{C.guide_seed}/{g.name}")
                x = rr.uniform(-0.9, 0.9)
                C.guide_env[g.name] = x
            v = x
        elif g.kind == "fun":
            u = _guide_poly(g.data.t)
            if isinstance(u, complex):
                f = {"log": cmath.log, "exp": cmath.exp, "tanh": cmath.tanh, "atan": cmath.atan, "sin": cmath.sin,
                     "cos": cmath.cos, "sinh": cmath.sinh, "cosh": cmath.cosh}.get(g.name)
                v = f(u) if f else complex(getattr(mpmath, g.name)(u))
            else:
                f = {"log": _math.log, "exp": _math.exp, "tanh": _math.tanh, "atan": _math.atan, "sin": _math.sin,
                     "cos": _math.cos, "erfc": _math.erfc, "erf": _math.erf, "sinh": _math.sinh, "cosh": _math.cosh}[g.name]
                v = f(u)
        else:
            v = float("nan")
    except (ValueError, OverflowError, ZeroDivisionError):
        v = float("nan")
    C.guide_cache[gid] = v
    return v


def _guide_poly(t):
    s = 0.0
    for m, c in t.items():
        v = c.numerator / c.denominator
        for g, e in m:
            v = v * _guide_value(g) ** e
        s = s + v
    return s


def _numerically_zero(t):
    """Heuristic: is the term dict ~0 at the guidance point? (never used as a proof)"""
    try:
        s = 0.0
        a = 0.0
        for m, c in t.items():
            v = c.numerator / c.denominator
            for g, e in m:
                v = v * _guide_value(g) ** e
            s = s + v
            a = a + abs(v)
        if a != a or s != s:
            return False
        return abs(s) <= 1e-9 * a
    except (OverflowError, ZeroDivisionError, ValueError):
        return False


def _is_zero(p):
    """Recursive exact zero test with numeric guidance (the guidance only chooses between sound steps)."""
    C = ctx()
    C.check_deadline()
    if isinstance(p, Special):
        return False
    if not p.t:
        return True
    g = top_gen(p)
    if g is None:
        return False  # non-zero rational constant
    groups = _collect(p, g.gid)
    if g.kind in ("var", "fun", "opq", "i"):
        C.stats["splits"] += 1
        # free atom: all coefficients must vanish; test the numerically suspicious ones first
        items = sorted(groups.values(), key=len)
        for t in items:
            if not _numerically_zero(t):
                return False
        for t in items:
            if not _is_zero(Poly(t)):
                return False
        return True
    # rewritable generator (root / def): first try to treat it as a free atom when the guidance says every
    # coefficient vanishes on its own (cancellation at the higher level), otherwise rewrite
    if len(groups) >= 1 and all(_numerically_zero(t) for t in groups.values()):
        ok = True
        for t in sorted(groups.values(), key=len):
            if not _is_zero(Poly(t)):
                ok = False
                break
        if ok:
            C.stats["skipped"] += 1
            return True
        C.stats["wasted"] += 1
    emin = min(groups)
    if g.kind == "root":
        C.stats["splits"] += 1
        shift = -emin if emin < 0 else 0
        classes = {}
        for e, t in groups.items():
            q, r = divmod(e + shift, L)
            classes.setdefault(r, {})[q] = t
        for r, byq in classes.items():
            if not _is_zero(_horner(byq, g.data)):
                return False
        return True
    if g.kind == "def":
        C.stats["unfold"] += 1
        if emin < 0:
            groups = {e - emin: t for e, t in groups.items()}
        return _is_zero(_horner(groups, g.data))
    raise AssertionError(g.kind)


def _horner(byq, base):
    """sum_q coeff_q * base**q  (q >= 0), computed without abstraction."""
    qmax = max(byq)
    acc = {}
    bt = base.t
    for q in range(qmax, -1, -1):
        if acc:
            acc = raw_mul(acc, bt)
        t = byq.get(q)
        if t:
            if acc:
                for m, c in t.items():
                    v = acc.get(m)
                    if v is None:
                        acc[m] = c
                    else:
                        v = v + c
                        if v:
                            acc[m] = v
                        else:
                            del acc[m]
            else:
                acc = dict(t)
    return Poly(acc)


# ------------------------------------------------------------------------------------------------
# numeric evaluation (pre-check, witnesses, normaliser guard)
# ------------------------------------------------------------------------------------------------

mpmath.mp.dps = 50


def evalf(p, env, cache=None):
    """Evaluate p with mpmath; env maps variable *names* (or gids) to numbers."""
    if isinstance(p, Special):
        return mpmath.nan if p.kind == "nan" else mpmath.inf * (p.sign or 1)
    p = lift(p)
    G = ctx().gens
    if cache is None:
        cache = {}

    def gv(gid):
        v = cache.get(gid)
        if v is not None:
            return v
        g = G[gid]
        if g.kind == "i":
            v = mpmath.mpc(0, 1)
        elif g.kind == "var":
            if g.value == "pi":
                x = mpmath.pi
            elif g.value is not None:
                x = mpmath.mpf(g.value)
            else:
                x = env.get(g.name, env.get(g.gid))
                if x is None:
                    raise KeyError(f"no value for variable {g.name}")
                x = mpmath.mpmathify(x)
            v = mpmath.root(x, g.L) if g.L != 1 else x
        elif g.kind == "root":
            b = ev(g.data)
            v = mpmath.power(b, mpmath.mpf(1) / L)
        elif g.kind == "def":
            v = ev(g.data)
        elif g.kind == "opq":
            x = env.get(g.name)
            if x is None:
                raise KeyError(f"no value for opaque {g.name}")
            v = mpmath.mpmathify(x)
        elif g.kind == "fun":
            u = ev(g.data)
            f = {"log": mpmath.log, "exp": mpmath.exp, "tanh": mpmath.tanh, "atan": mpmath.atan, "sin": mpmath.sin,
                 "cos": mpmath.cos, "erfc": mpmath.erfc, "erf": mpmath.erf, "sinh": mpmath.sinh,
                 "cosh": mpmath.cosh}[g.name]
            v = f(u)
        else:
            raise AssertionError(g.kind)
        cache[gid] = v
        return v

    def ev(q):
        s = mpmath.mpf(0)
        for m, c in q.t.items():
            t = mpmath.mpf(c.numerator) / c.denominator
            for g, e in m:
                t = t * gv(g) ** e
            s = s + t
        return s

    return ev(p)


# ------------------------------------------------------------------------------------------------
# printing
# ------------------------------------------------------------------------------------------------


def fmt(p, maxterms=12):
    if isinstance(p, Special):
        return repr(p)
    if not p.t:
        return "0"
    G = ctx().gens
    out = []
    for k, (m, c) in enumerate(sorted(p.t.items())):
        if k >= maxterms:
            out.append(f"... ({len(p.t)} terms)")
            break
        s = str(c)
        for g, e in m:
            gg = G[g]
            nm = gg.name
            if gg.kind == "var" and gg.L != 1:
                ee = Fraction(e, gg.L)
            elif gg.kind == "root":
                ee = Fraction(e, L)
                nm = f"[{fmt(gg.data, 4)}]" if not gg.data.is_const() else str(gg.data.const_value())
            elif gg.kind == "fun":
                ee = Fraction(e)
                nm = f"{gg.name}({fmt(gg.data, 4)})"
            else:
                ee = Fraction(e)
            s += f"*{nm}" + (f"^{ee}" if ee != 1 else "")
        out.append(s)
    return " + ".join(out)


def gens_of(p, transitive=True):
    """All generator ids reachable from p (through defs, roots, function arguments)."""
    G = ctx().gens
    seen = set()
    todo = list(lift(p).gens())
    while todo:
        g = todo.pop()
        if g in seen:
            continue
        seen.add(g)
        gg = G[g]
        if not transitive:
            continue
        if gg.kind in ("root", "def", "fun") and isinstance(gg.data, Poly):
            todo.extend(gg.data.gens())
        elif gg.kind == "opq":
            for a in gg.data["args"]:
                todo.extend(a.gens())
    return seen
