"""Symbolic array backend for engine A: stands in for `eminus.backend` (numpy / array-api namespace).

Arrays are numpy *object* arrays whose elements are `Poly` / `Special` values; shape handling,
broadcasting, indexing, stacking are done by numpy itself, element functions by the algebra kernel.
"""

from __future__ import annotations

from fractions import Fraction

import numpy as np

from . import core
from .core import NAN, ONE, ZERO, Poly, Special, lift


def _el(x):
    v = lift(x)
    if v is NotImplemented:
        raise core.OutsideSubset(f"cannot lift {type(x)}")
    return v


def arr(x):
    """Object array of lifted elements."""
    if isinstance(x, np.ndarray) and x.dtype == object:
        return x
    a = np.asarray(x, dtype=object) if not isinstance(x, np.ndarray) else x.astype(object)
    out = np.empty(a.shape, dtype=object)
    it = np.nditer(a, flags=["multi_index", "refs_ok"])
    if a.shape == ():
        out[()] = _el(a.item())
        return out
    for _ in it:
        out[it.multi_index] = _el(a[it.multi_index])
    return out


def _map(f, x):
    if isinstance(x, (Poly, Special, int, float, Fraction)):
        return f(_el(x))
    a = arr(x)
    out = np.empty(a.shape, dtype=object)
    flat_in = a.reshape(-1)
    flat_out = out.reshape(-1)
    for i in range(flat_in.size):
        flat_out[i] = f(flat_in[i])
    return out


class _Linalg:
    @staticmethod
    def norm(x, axis=None, **kw):
        a = arr(x)
        sq = np.empty(a.shape, dtype=object)
        fi, fo = a.reshape(-1), sq.reshape(-1)
        for i in range(fi.size):
            v = fi[i]
            fo[i] = v * v.conjugate() if isinstance(v, Poly) else abs(v) * abs(v)
        s = np.sum(sq, axis=axis)
        return _map(core.sqrt, s)

    @staticmethod
    def det(a):
        a = arr(a)
        n = a.shape[0]
        if a.shape != (n, n) or n > 3:
            raise core.OutsideSubset("det only for <=3x3")
        if n == 1:
            return a[0, 0]
        if n == 2:
            return a[0, 0] * a[1, 1] - a[0, 1] * a[1, 0]
        return (a[0, 0] * (a[1, 1] * a[2, 2] - a[1, 2] * a[2, 1]) - a[0, 1] * (a[1, 0] * a[2, 2] - a[1, 2] * a[2, 0])
                + a[0, 2] * (a[1, 0] * a[2, 1] - a[1, 1] * a[2, 0]))

    @staticmethod
    def inv(a):
        a = arr(a)
        n = a.shape[0]
        if a.shape != (n, n) or n > 3:
            raise core.OutsideSubset("inv only for <=3x3")
        d = _Linalg.det(a)
        if n == 1:
            return arr([[ONE / d]])
        if n == 2:
            return arr([[a[1, 1] / d, -a[0, 1] / d], [-a[1, 0] / d, a[0, 0] / d]])
        out = np.empty((3, 3), dtype=object)
        for i in range(3):
            for j in range(3):
                # cofactor C_ji
                r = [k for k in range(3) if k != j]
                c = [k for k in range(3) if k != i]
                minor = a[r[0], c[0]] * a[r[1], c[1]] - a[r[0], c[1]] * a[r[1], c[0]]
                out[i, j] = (minor if (i + j) % 2 == 0 else -minor) / d
        return out


def _solve(a, b):
    return np.asarray(_Linalg.inv(a), dtype=object) @ arr(b)


_Linalg.solve = staticmethod(_solve)


class Backend:
    """Namespace object passed as `xp`."""

    linalg = _Linalg()
    pi = None  # resolved lazily (depends on the context)
    newaxis = None

    def __getattr__(self, name):
        if name == "pi":
            return core.ctx().pi()
        raise core.OutsideSubset(f"backend function xp.{name} is not modelled by engine A")

    # -- element functions --------------------------------------------------------------------
    def sqrt(self, x):
        return _map(core.sqrt, x)

    def log(self, x):
        return _map(core.log, x)

    def exp(self, x):
        return _map(core.exp, x)

    def tanh(self, x):
        return _map(lambda v: core.fun1("tanh", v), x)

    def arctan(self, x):
        return _map(lambda v: core.fun1("atan", v), x)

    def sin(self, x):
        return _map(lambda v: core.fun1("sin", v), x)

    def cos(self, x):
        return _map(lambda v: core.fun1("cos", v), x)

    def abs(self, x):
        return _map(abs, x)

    def conj(self, x):
        return _map(lambda v: v.conjugate(), x)

    def real(self, x):
        return _map(lambda v: v.real if isinstance(v, Poly) else v, x)

    def imag(self, x):
        return _map(lambda v: v.imag if isinstance(v, Poly) else ZERO, x)

    def sign(self, x):
        def f(v):
            s = v.sign_or_none() if isinstance(v, Poly) else (v.sign or None)
            if s is None:
                raise core.Undecided("sign of symbolic value")
            return lift(s)

        return _map(f, x)

    def nan_to_num(self, x, nan=0, posinf=None, neginf=None, **kw):
        def f(v):
            if isinstance(v, Special):
                if v.kind == "nan":
                    return _el(nan)
                if v.sign == 1:
                    if posinf is None:
                        raise core.OutsideSubset("nan_to_num(+inf) -> float max")
                    return _el(posinf)
                if v.sign == -1:
                    if neginf is None:
                        raise core.OutsideSubset("nan_to_num(-inf) -> float min")
                    return _el(neginf)
                # infinity of unknown sign: fine if both map to the same value
                if posinf is not None and neginf is not None and _el(posinf) == _el(neginf):
                    return _el(posinf)
                raise core.Undecided("nan_to_num of an infinity with unknown sign")
            return v

        return _map(f, x)

    def isnan(self, x):
        return np.asarray(_map(lambda v: isinstance(v, Special) and v.kind == "nan", x), dtype=bool)

    def isfinite(self, x):
        return np.asarray(_map(lambda v: not isinstance(v, Special), x), dtype=bool)

    # -- structure ----------------------------------------------------------------------------
    def asarray(self, x, dtype=None, **kw):
        if isinstance(x, np.ndarray) and x.dtype != object and x.dtype.kind in "biu" and dtype is None:
            return x
        if dtype is not None and np.dtype(dtype).kind in "biu":
            return np.asarray(x, dtype=dtype)
        return arr(x)

    array = asarray

    def astype(self, x, dtype, **kw):
        if np.dtype(dtype).kind in "biu":
            return np.asarray(x).astype(dtype)
        return arr(x)

    def stack(self, xs, axis=0):
        return np.stack([arr(x) for x in xs], axis=axis)

    def vstack(self, xs):
        return np.vstack([arr(x) for x in xs])

    def hstack(self, xs):
        return np.hstack([arr(x) for x in xs])

    def concatenate(self, xs, axis=0):
        return np.concatenate([arr(x) for x in xs], axis=axis)

    def where(self, c, a=None, b=None):
        if a is None:
            return np.where(c)
        c = np.asarray(c, dtype=bool)
        a = arr(a) if not isinstance(a, (Poly, Special)) else a
        b = arr(b) if not isinstance(b, (Poly, Special)) else b
        a_, b_ = np.broadcast_arrays(np.asarray(a, dtype=object) if not isinstance(a, np.ndarray) else a,
                                     np.asarray(b, dtype=object) if not isinstance(b, np.ndarray) else b)
        shape = np.broadcast_shapes(c.shape, a_.shape)
        c = np.broadcast_to(c, shape)
        a_ = np.broadcast_to(a_, shape)
        b_ = np.broadcast_to(b_, shape)
        out = np.empty(shape, dtype=object)
        for idx in np.ndindex(*shape):
            out[idx] = _el(a_[idx] if c[idx] else b_[idx])
        return out

    def zeros(self, shape, dtype=None, **kw):
        if dtype is not None and np.dtype(dtype).kind in "biu":
            return np.zeros(shape, dtype=dtype)
        out = np.empty(shape, dtype=object)
        out.fill(ZERO)
        return out

    def ones(self, shape, dtype=None, **kw):
        if dtype is not None and np.dtype(dtype).kind in "biu":
            return np.ones(shape, dtype=dtype)
        out = np.empty(shape, dtype=object)
        out.fill(ONE)
        return out

    def empty(self, shape, dtype=None, **kw):
        out = np.empty(shape, dtype=object)
        out.fill(NAN)  # uninitialised memory must never reach an output
        return out

    def zeros_like(self, x, **kw):
        return self.zeros(np.shape(x))

    def ones_like(self, x, **kw):
        return self.ones(np.shape(x))

    def empty_like(self, x, **kw):
        return self.empty(np.shape(x))

    def eye(self, n, **kw):
        out = self.zeros((n, n))
        for i in range(n):
            out[i, i] = ONE
        return out

    def sum(self, x, axis=None, **kw):
        a = arr(x)
        if a.size == 0:
            return np.sum(np.zeros(a.shape), axis=axis) * ONE
        return np.sum(a, axis=axis)

    def prod(self, x, axis=None):
        return np.prod(arr(x), axis=axis)

    def cumsum(self, x, axis=None):
        return np.cumsum(arr(x), axis=axis)

    def atleast_2d(self, x):
        return np.atleast_2d(x)

    def atleast_1d(self, x):
        return np.atleast_1d(x)

    def nonzero(self, x):
        return np.nonzero(np.asarray(x, dtype=bool))

    def arange(self, *a, **kw):
        return np.arange(*a, **kw)

    def diag(self, x, k=0):
        return np.diag(arr(x), k)

    def ravel(self, x):
        return np.ravel(x)

    def trace(self, x, **kw):
        x = np.asarray(x, dtype=object)
        if x.ndim != 2:
            raise core.OutsideSubset("trace of a non-matrix")
        return sum((x[i, i] for i in range(min(x.shape))), ZERO)

    def einsum(self, spec, *ops, **kw):
        return np.einsum(spec, *[arr(o) for o in ops])

    def all(self, x, **kw):
        return np.all(np.asarray(x, dtype=bool), **kw)

    def any(self, x, **kw):
        return np.any(np.asarray(x, dtype=bool), **kw)

    def max(self, x, **kw):
        a = arr(x).reshape(-1)
        m = a[0]
        for v in a[1:]:
            if v > m:
                m = v
        return m

    def min(self, x, **kw):
        a = arr(x).reshape(-1)
        m = a[0]
        for v in a[1:]:
            if v < m:
                m = v
        return m

    def is_array(self, x):
        return isinstance(x, np.ndarray)

    def to_np(self, x):
        return x

    def permute_dims(self, x, axes):
        return np.transpose(x, axes)


class MathShim:
    """Exact stand-in for the `math` module."""

    @property
    def pi(self):
        return core.ctx().pi()

    @staticmethod
    def sqrt(x):
        return core.sqrt(_el(x))

    @staticmethod
    def log(x):
        return core.log(_el(x))

    @staticmethod
    def exp(x):
        return core.exp(_el(x))

    @staticmethod
    def erfc(x):
        return core.erfc(_el(x))

    @staticmethod
    def cos(x):
        return core.fun1("cos", _el(x))

    @staticmethod
    def sin(x):
        return core.fun1("sin", _el(x))

    @staticmethod
    def ceil(x):
        import math

        return math.ceil(float(x))

    @staticmethod
    def floor(x):
        import math

        return math.floor(float(x))

    @staticmethod
    def isclose(a, b, **kw):
        import math

        return math.isclose(float(a), float(b), **kw)

    inf = core.PINF


def Q(text):
    return lift(Fraction(text))


class NumpyShim:
    """numpy with selected functions replaced by contract stubs (e.g. np.indices -> generic index rows)."""

    def __init__(self, overrides):
        self._ov = dict(overrides)

    def __getattr__(self, name):
        if name in self._ov:
            return self._ov[name]
        return getattr(np, name)


def make_loader(stubs=None, native_extra=(), np_overrides=None):
    from ..loader import Loader

    return Loader(Backend(), MathShim(), Q, stubs=stubs, native_extra=native_extra,
                  np_shim=NumpyShim(np_overrides) if np_overrides else None)


def poly_to_z3(p, varmap):
    """Polynomial over plain variables -> z3 real term. varmap: generator id -> z3 expr (created on demand)."""
    import z3

    from .core import L as _L

    G = core.ctx().gens
    tot = z3.RealVal(0)
    for m, c in p.t.items():
        term = z3.RealVal(c.numerator) / z3.RealVal(c.denominator)
        for g, e in m:
            gg = G[g]
            if gg.kind != "var":
                raise core.OutsideSubset(f"poly_to_z3: generator {gg!r}")
            if e % gg.L:
                raise core.OutsideSubset("poly_to_z3: fractional power")
            k = e // gg.L
            x = varmap.get(g)
            if x is None:
                x = varmap[g] = z3.Real(gg.name)
            if k > 0:
                for _ in range(k):
                    term = term * x
            else:
                for _ in range(-k):
                    term = term / x
        tot = tot + term
    return tot
