"""Fast back end of the exact zero test: packed monomials, integer coefficients.

A Laurent monomial prod g_i**e_i is stored as the signed integer  sum e_i << (W*slot(g_i))  (|e_i| < 2**(W-1)),
so that monomial multiplication is integer addition; coefficients are integers (denominators are cleared
once per polynomial, which does not change whether it is zero).  The algorithm is the one documented in
core.py (`_is_zero`): eliminate generators from the top of the tower, using only the true relations
g**L = base (roots), d = body (defs), i*i = -1, and requiring every coefficient of a free atom to vanish.
The float "guidance" only chooses between sound steps (try "treat as free" first or rewrite at once).
"""

from __future__ import annotations

import math

from . import core
from .core import L

W = 16
HALF = 1 << (W - 1)
MASK = (1 << W) - 1
NSLOTS = 256
H = sum(HALF << (W * k) for k in range(NSLOTS))


class Packer:
    def __init__(self, C):
        self.C = C
        self.slot = {}  # gid -> slot
        self.bodies = {}  # gid -> (terms, den, gens)

    def shift(self, gid):
        s = self.slot.get(gid)
        if s is None:
            s = len(self.slot)
            if s >= NSLOTS:
                raise core.Budget()
            self.slot[gid] = s
        return s * W

    def pack(self, p):
        """Poly -> (terms: {packed: int}, den: int, gens: set). value = sum(terms)/den."""
        den = 1
        for c in p.t.values():
            d = c.denominator
            if d != 1:
                den = den * d // math.gcd(den, d)
        terms = {}
        gens = set()
        for m, c in p.t.items():
            k = 0
            for g, e in m:
                if abs(e) >= HALF:
                    raise core.Budget()
                k += e << self.shift(g)
                gens.add(g)
            terms[k] = c.numerator * (den // c.denominator)
        return terms, den, gens

    def body(self, g):
        b = self.bodies.get(g.gid)
        if b is None:
            b = self.pack(g.data)
            self.bodies[g.gid] = b
        return b


def mul(a, b, ishift=None):
    """Product of packed term dicts. ishift: bit shift of the imaginary unit if it may occur."""
    if len(a) < len(b):
        a, b = b, a
    r = {}
    get = r.get
    big = len(a) * len(b) > 2_000_000
    for mb, cb in b.items():
        if big:
            core.ctx().check_deadline()
        for ma, ca in a.items():
            k = ma + mb
            v = get(k)
            if v is None:
                r[k] = ca * cb
            else:
                r[k] = v + ca * cb
    if ishift is not None:
        r = reduce_i(r, ishift)
    return {k: v for k, v in r.items() if v}


def reduce_i(r, ishift):
    out = {}
    one = 1 << ishift
    for k, v in r.items():
        e = (((k + H) >> ishift) & MASK) - HALF
        if e >= 2 or e < 0:
            q, rem = divmod(e, 2)
            k = k - (q * 2) * one
            if q % 2:
                v = -v
        w = out.get(k)
        out[k] = v if w is None else w + v
    return out


def add_into(acc, t, scale=1):
    get = acc.get
    for k, v in t.items():
        w = get(k)
        acc[k] = v * scale if w is None else w + v * scale


def collect(terms, sh):
    """Group by exponent of the generator at bit shift sh: {e: {packed-without-g: coeff}}."""
    out = {}
    one = 1 << sh
    for k, v in terms.items():
        e = (((k + H) >> sh) & MASK) - HALF
        d = out.get(e)
        if d is None:
            d = out[e] = {}
        d[k - e * one] = v
    return out


class FastZero:
    def __init__(self, C):
        self.C = C
        self.P = Packer(C)
        self.ishift = None
        self.fields_cache = {}
        self._logs = None
        self._masks = {}

    # -- numeric guidance ---------------------------------------------------------------------------
    def numerically_zero(self, terms, gens=None):
        """Heuristic (never a proof): is sum(terms) ~ 0 at the guidance sample point? Vectorised: the packed
        monomials are decoded into an exponent matrix E and the values are c * exp(E @ Log g)."""
        import cmath

        import numpy as np

        n = len(terms)
        if n == 0:
            return True
        if n < 400 and gens is not None:
            return self._nz_small(terms, gens)
        ns = len(self.P.slot)
        if self._logs is None or len(self._logs) != ns:
            logs = np.zeros(ns, dtype=complex)
            for gid, sl in self.P.slot.items():
                v = core._guide_value(gid)
                try:
                    if v != v or v == 0:
                        logs[sl] = np.nan
                    else:
                        logs[sl] = cmath.log(v)
                except (ValueError, OverflowError):
                    logs[sl] = np.nan
            self._logs = logs
        logs = self._logs
        nb = 2 * ns
        try:
            buf = b"".join([((k + H) & self._lowmask(nb)).to_bytes(nb, "little") for k in terms])
            E = np.frombuffer(buf, dtype="<u2").reshape(n, ns).astype(np.int64) - HALF
            used = np.any(E != 0, axis=0)
            if np.any(np.isnan(logs[used])):
                return False
            lg = np.where(used, logs, 0)
            cs = np.array([float(c) for c in terms.values()])
            with np.errstate(all="ignore"):
                vals = cs * np.exp(E @ lg)
                s = vals.sum()
                a = np.abs(vals).sum()
            if not np.isfinite(a) or not np.isfinite(s.real):
                return False
            return bool(abs(s) <= 1e-9 * a)
        except (OverflowError, ValueError):
            return False

    def _nz_small(self, terms, gens):
        try:
            fields = []
            for g in gens:
                v = core._guide_value(g)
                if isinstance(v, float) and v != v:
                    return False
                fields.append((self.P.shift(g), v))
            s = 0.0
            a = 0.0
            for k, c in terms.items():
                y = k + H
                v = float(c)
                for sh, gv in fields:
                    e = ((y >> sh) & MASK) - HALF
                    if e:
                        v = v * gv ** e
                s += v
                a += abs(v)
            if a != a or s != s:
                return False
            return abs(s) <= 1e-9 * a
        except (OverflowError, ZeroDivisionError, ValueError):
            return False

    def _lowmask(self, nb):
        m = self._masks.get(nb)
        if m is None:
            m = self._masks[nb] = (1 << (8 * nb)) - 1
        return m

    # -- main ---------------------------------------------------------------------------------------
    def is_zero(self, p):
        terms, _, gens = self.P.pack(p)
        if 0 in gens:
            self.ishift = self.P.shift(0)
        else:
            # a body may still introduce i
            self.ishift = None
        return self.rec(terms, gens)

    def top(self, gens):
        G = self.C.gens
        best = None
        bk = None
        for g in gens:
            gg = G[g]
            k = (gg.level, g)
            if bk is None or k > bk:
                bk, best = k, gg
        return best

    def rec(self, terms, gens):
        C = self.C
        C.check_deadline()
        if not terms:
            return True
        # restrict the candidate set to the generators that actually occur
        acc = 0
        for k in terms:
            acc |= (k + H) ^ H
        gens = {g for g in gens if (acc >> self.P.shift(g)) & MASK}
        if not gens:
            return False
        g = self.top(gens)
        rest = gens - {g.gid}
        sh = self.P.shift(g.gid)
        groups = collect(terms, sh)
        if g.kind in ("var", "fun", "opq", "i"):
            C.stats["splits"] += 1
            items = sorted(groups.values(), key=len)
            for t in items:
                if not self.numerically_zero(t, rest):
                    return False
            for t in items:
                if not self.rec(t, rest):
                    return False
            return True
        # root / def
        if all(self.numerically_zero(t, rest) for t in groups.values()):
            ok = True
            for t in sorted(groups.values(), key=len):
                if not self.rec(t, rest):
                    ok = False
                    break
            if ok:
                C.stats["skipped"] += 1
                return True
            C.stats["wasted"] += 1
        bt, bden, bgens = self.P.body(g)
        if 0 in bgens and self.ishift is None:
            self.ishift = self.P.shift(0)
        sub = rest | bgens
        emin = min(groups)
        if g.kind == "root":
            C.stats["splits"] += 1
            shift = -emin if emin < 0 else 0
            classes = {}
            for e, t in groups.items():
                q, r = divmod(e + shift, L)
                classes.setdefault(r, {})[q] = t
            for r, byq in sorted(classes.items(), key=lambda kv: sum(len(t) for t in kv[1].values())):
                if not self.rec(self.horner(byq, bt, bden), sub):
                    return False
            return True
        if g.kind == "def":
            C.stats["unfold"] += 1
            if emin < 0:
                groups = {e - emin: t for e, t in groups.items()}
            return self.rec(self.horner(groups, bt, bden), sub)
        raise AssertionError(g.kind)

    def horner(self, byq, bt, bden):
        """den**qmax * sum_q coeff_q * (bt/bden)**q."""
        qmax = max(byq)
        acc = {}
        for q in range(qmax, -1, -1):
            if acc:
                acc = mul(acc, bt, self.ishift)
                self.C.check_deadline()
            t = byq.get(q)
            if t:
                add_into(acc, t, bden ** (qmax - q) if bden != 1 else 1)
        return {k: v for k, v in acc.items() if v}


def is_zero_fast(p):
    C = core.ctx()
    return FastZero(C).is_zero(p)
