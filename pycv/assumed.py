"""Assumed contracts on dependencies and assumed mathematical lemmas (never counted as proved).

Every obligation names the entries it uses (`Obligation.assumes`); the evidence file copies the texts."""

TEXT = {
    # semantics
    "reals": "float64 arithmetic is treated as exact real/complex arithmetic (no rounding, overflow, dtype promotion)",
    "generic": "symbolic inputs are generic: comparisons between symbolic quantities are decided for the generic case "
               "(e.g. |grad n| > 0); the measure-zero cases are separate special-value obligations",
    "numpy-structural": "numpy's structural operations (indexing, broadcasting, stack, where, sum, einsum on object arrays) "
                        "behave on object arrays as on float arrays",
    "cpython": "CPython executes the traced control flow; ast is the parser",
    "engineA": "the in-house exact-algebra normaliser (pycv/algebra/core.py) is part of the trusted base; guarded by "
               "numeric evaluation of every residual and by a canary on every run",
    "engineZ": "the in-house AST->SMT symbolic executor (pycv/wp) is part of the trusted base; guarded by canaries and a "
               "CPython differential self-test",
    "engineN": "the in-house non-commutative normaliser (pycv/opalg) is part of the trusted base; guarded by canaries",
    "engineS": "the in-house chain-rule executor over a function's own locals (pycv/ssa.py) and sympy's rational-function arithmetic (together / expand / "
               "reduced) are part of the trusted base; guarded by a canary (a wrong coefficient in a copy of the traced function must not verify)",
    "mpmath": "mpmath 50-digit evaluation decides signs of closed-form constants and finds refutation witnesses",
    "z3": "z3 5.1 (python API) as SMT back end", "cvc5": "cvc5 1.4 as second SMT back end",
    # calculus / algebra lemmas
    "chain-rule": "derivative rules of log, exp, atan, tanh, erfc, x**q and the chain rule",
    "linearity-of-D": "differentiation is linear (used to lift per-functional identities to the exchange+correlation sum)",
    "pointwise-lift": "a function built from numpy element-wise operations that is pointwise on a 2-point grid is pointwise on every grid",
    "callee-contract": "modular step: the callee is replaced by its contract (free atoms constrained only by its post-condition)",
    # externals
    "np.indices": "np.indices(n).transpose(1,2,3,0).reshape(-1,3) lists every integer triple 0 <= m_c < n_c exactly once (C order)",
    "fft": "scipy.fft.fftn/ifftn (and torch.fft) multiply by the DFT matrix with the documented norm scalings on the given axes",
    "sqrtm": "scipy.linalg.sqrtm of a Hermitian positive matrix returns the principal root S: S S = A, S^H = S, S commutes with A",
    "inv": "linalg.inv returns the two-sided inverse of a non-singular matrix",
    "eigh": "linalg.eigh of a Hermitian matrix returns ascending real eigenvalues and a UNITARY eigenvector matrix",
    "dftpp-gradient": "analytic differential of E(W) = sum_k wk tr(F Y^H H Y), Y = W U^-1/2, U = W^H O W at fixed Hermitian H (Comput. Phys. Commun. 128, 1): "
                      "dY = D U^-1/2 for W^H O D = 0; for D = W A the orbitals rotate by exp(K) with K U^1/2 + U^1/2 K = U^1/2 A U^1/2 - (U^1/2 A U^1/2)^H to first order",
    "sylvester-division": "for d_i > 0 the element-wise quotient C_ij = B_ij / (d_i + d_j) is the unique solution of C D + D C = B (D = diag(d)); it is (anti-)Hermitian if B is",
    "eig": "linalg.eig returns an eigen-decomposition A V = V diag(w) with V invertible - NOT necessarily unitary for a Hermitian A with (nearly) degenerate eigenvalues; eigenvalues of a Hermitian positive definite A are real positive",
    "qr": "scipy.linalg.qr(pivoting=True) returns a unitary Q",
    "expm": "matrix_exp of an anti-Hermitian matrix is unitary",
    "root_scalar": "scipy.optimize.root_scalar(f, bracket=(a, b)) REQUIRES f(a) f(b) < 0 and returns a root in [a, b]",
    "sort": "sort/argsort return an ascending permutation; np.unique returns sorted distinct values",
    "round": "np.round is round-half-even",
    "rng": "np.random.Generator(SFC64(seed)) is a deterministic function of seed",
    "similarity": "R^H M R with R unitary has the same (ascending) eigenvalues as the Hermitian M",
    "interlacing": "Cauchy interlacing: Ritz values of a Hermitian matrix on an orthonormal subspace are >= the exact ones",
    "trace-eigs": "trace of a Hermitian matrix equals the sum of its eigenvalues",
    "gaussian-moments": "int_0^inf x^(2k) exp(-a x^2) dx closed forms; Gaussian Fourier/Hankel transforms",
    "erf-coulomb": "FT[-Z erf(a r)/r](G) = -4 pi Z exp(-G^2/(4 a^2))/G^2; its finite part at G -> 0 is pi Z / a^2",
    "sphere-moments": "monomial integrals over the unit sphere",
    "sylvester-injective": "X S + S X = 0 with S Hermitian positive definite implies X = 0",
    "perm-sum": "finite sums are invariant under permutation of the summands",
    "h5py-group-map": "h5py Group = finite map name -> payload: create_dataset adds an entry, group[name] reads it, len counts entries; iteration is in lexicographic name order",
    "str-injective": "Python's str() on non-negative integers is injective",
    "float-format": "formatting a float with a fixed precision and parsing it back returns the value to that precision",
}
