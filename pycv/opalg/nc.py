"""Engine N kernel: finitely generated non-commutative *-algebra with typed matrix symbols.

An element is a sum of  coeff * word, word = tuple of atoms (matrix symbols), coeff = commutative scalar
(an engine-A Poly over scalar symbols such as Omega, N, wk, f).  Normal forms are computed with a terminating
rewrite system made of
  * structural facts of the symbols (Hermitian, unitary-like pairs, diagonal operators commute, projectors),
  * ASSUMED contracts of externals entered as rules:  X inv(X) -> 1;  for S = sqrtm(A) the defining word of A is
    rewritten to S S (this orientation eliminates A and terminates);  F Fbar -> N (DFT matrix), gather/scatter,
  * let-definitions of multi-term operands (unfolded lazily by `is_zero`).
Equality of two elements = their difference normalises to the empty sum (after unfolding definitions).
"""

from __future__ import annotations

import itertools
from fractions import Fraction

from ..algebra import core as A
from ..algebra.core import Poly, lift

_counter = itertools.count()


class Atom:
    __slots__ = ("name", "rows", "cols", "herm", "diag", "real", "kind", "data", "adj", "uid", "unitary")

    def __init__(self, name, rows, cols, herm=False, diag=False, real=False, kind="sym", data=None, unitary=False):
        self.name, self.rows, self.cols = name, rows, cols
        self.herm, self.diag, self.real, self.kind, self.data = herm, diag, real, kind, data
        self.adj = self if herm else None
        self.uid = next(_counter)
        self.unitary = unitary

    def __repr__(self):
        return self.name

    def dagger(self):
        if self.adj is None:
            a = Atom(self.name + "†", self.cols, self.rows, diag=self.diag, real=self.real, kind=self.kind, data=self.data,
                     unitary=self.unitary)
            a.adj = self
            self.adj = a
        return self.adj


class Ctx:
    def __init__(self):
        self.atoms = {}
        self.rules = []  # list of (lhs word (tuple of atoms), rhs NC)
        self.defs = {}  # atom -> NC polynomial (definition), unfolded lazily
        self.inv_of = {}
        self.sqrt_of = {}
        self.assumed = set()
        self.order = []

    def atom(self, name, rows, cols, **kw):
        a = self.atoms.get(name)
        if a is None:
            a = self.atoms[name] = Atom(name, rows, cols, **kw)
            self.order.append(a)
        return a

    def rule(self, lhs, rhs):
        self.rules.append((tuple(lhs), rhs))


_CTX = None


def ctx():
    return _CTX


def new_ctx():
    global _CTX
    _CTX = Ctx()
    A.new_ctx()
    return _CTX


class NC:
    """Non-commutative polynomial with a matrix type (rows, cols)."""

    __slots__ = ("t", "rows", "cols")

    def __init__(self, t, rows, cols):
        self.t, self.rows, self.cols = t, rows, cols

    @staticmethod
    def of(atom):
        return NC({(atom,): A.ONE}, atom.rows, atom.cols)

    @staticmethod
    def ident(dim, c=None):
        return NC({(): A.ONE if c is None else lift(c)}, dim, dim)

    @staticmethod
    def zero(rows, cols):
        return NC({}, rows, cols)

    def copy(self):
        return NC(dict(self.t), self.rows, self.cols)

    def __add__(self, o):
        if isinstance(o, (int, float)) and o == 0:
            return self
        if not isinstance(o, NC):
            return NotImplemented
        r = dict(self.t)
        for w, c in o.t.items():
            v = r.get(w)
            if v is None:
                r[w] = c
            else:
                v = v + c
                if v.is_zero_syntactic():
                    del r[w]
                else:
                    r[w] = v
        return NC(r, self.rows, self.cols)

    __radd__ = __add__

    def __neg__(self):
        return NC({w: -c for w, c in self.t.items()}, self.rows, self.cols)

    def __sub__(self, o):
        return self + (-o)

    def scale(self, c):
        c = lift(c)
        if isinstance(c, A.Special):
            raise A.OutsideSubset("special scalar")
        if c.is_zero_syntactic():
            return NC({}, self.rows, self.cols)
        return NC({w: v * c for w, v in self.t.items()}, self.rows, self.cols)

    def mul(self, o):
        r = {}
        for w1, c1 in self.t.items():
            for w2, c2 in o.t.items():
                w = w1 + w2
                c = c1 * c2
                v = r.get(w)
                if v is None:
                    r[w] = c
                else:
                    v = v + c
                    if v.is_zero_syntactic():
                        del r[w]
                    else:
                        r[w] = v
        return normalise(NC(r, self.rows, o.cols))

    def dagger(self):
        r = {}
        for w, c in self.t.items():
            w2 = tuple(a.dagger() for a in reversed(w))
            cc = c.conjugate()
            v = r.get(w2)
            r[w2] = cc if v is None else v + cc
        return normalise(NC({w: c for w, c in r.items() if not c.is_zero_syntactic()}, self.cols, self.rows))

    def is_zero_syntactic(self):
        return not self.t

    def __repr__(self):
        if not self.t:
            return "0"
        out = []
        for w, c in list(self.t.items())[:8]:
            out.append(f"({A.fmt(c, 3)})·" + ("·".join(a.name for a in w) if w else "1"))
        return " + ".join(out) + (" + ..." if len(self.t) > 8 else "")


def _sort_diag(word):
    """Diagonal atoms commute with each other: sort maximal runs of diagonal atoms canonically."""
    out = []
    run = []
    for a in word:
        if a.diag:
            run.append(a)
        else:
            if run:
                out.extend(sorted(run, key=lambda x: x.uid))
                run = []
            out.append(a)
    if run:
        out.extend(sorted(run, key=lambda x: x.uid))
    return tuple(out)


def normalise(p, max_steps=10000):
    C = ctx()
    rules = C.rules
    changed = True
    steps = 0
    cur = p.t
    while changed:
        changed = False
        steps += 1
        if steps > max_steps:
            raise A.OutsideSubset("rewrite system did not terminate")
        new = {}

        def add(w, c):
            v = new.get(w)
            if v is None:
                new[w] = c
            else:
                v = v + c
                if v.is_zero_syntactic():
                    del new[w]
                else:
                    new[w] = v

        for w, c in cur.items():
            w2 = _sort_diag(w)
            if w2 != w:
                changed = True
            hit = False
            for lhs, rhs in rules:
                n = len(lhs)
                if n > len(w2):
                    continue
                for i in range(len(w2) - n + 1):
                    if w2[i:i + n] == lhs:
                        pre, post = w2[:i], w2[i + n:]
                        for rw, rc in rhs.t.items():
                            add(pre + rw + post, c * rc)
                        hit = True
                        changed = True
                        break
                if hit:
                    break
            if not hit:
                add(w2, c)
        cur = new
    return NC(cur, p.rows, p.cols)


def unfold(p, atom):
    C = ctx()
    d = C.defs[atom]
    dd = None
    out = NC({}, p.rows, p.cols)
    for w, c in p.t.items():
        parts = [NC({(): c}, p.rows, p.rows)]
        cur = NC({(): c}, None, None)
        acc = NC({(): c}, None, None)
        terms = {(): c}
        for a in w:
            if a is atom:
                sub = d
            elif a.adj is not None and a.adj is atom and a is not atom:
                if dd is None:
                    dd = d.dagger()
                sub = dd
            else:
                sub = None
            nt = {}
            if sub is None:
                for ww, cc in terms.items():
                    nt[ww + (a,)] = cc
            else:
                for ww, cc in terms.items():
                    for sw, sc in sub.t.items():
                        k = ww + sw
                        v = nt.get(k)
                        val = cc * sc
                        nt[k] = val if v is None else v + val
            terms = nt
        out = out + NC({k: v for k, v in terms.items() if not v.is_zero_syntactic()}, p.rows, p.cols)
    return normalise(out)


def is_zero(p):
    """Normal form empty, unfolding definitions (latest first) as long as necessary."""
    C = ctx()
    p = normalise(p)
    while p.t:
        # exact zero test of the scalar coefficients first
        p = NC({w: c for w, c in p.t.items() if not A.is_zero(c, budget=20)}, p.rows, p.cols)
        if not p.t:
            return True
        present = set()
        for w in p.t:
            for a in w:
                if a in C.defs:
                    present.add(a)
                elif a.adj is not None and a.adj in C.defs:
                    present.add(a.adj)
        if not present:
            return False
        latest = max(present, key=lambda a: a.uid)
        p = unfold(p, latest)
    return True


def as_atom(p, hint="d"):
    """(atom, c) with p == c * atom. A single word of several atoms gets a folding rule word -> atom; a multi-term
    polynomial becomes a definition atom that `is_zero` unfolds lazily."""
    C = ctx()
    p = normalise(p)
    if len(p.t) == 1:
        ((w, c),) = p.t.items()
        if len(w) == 1:
            return w[0], c
        if len(w) == 0:
            return None, c
        key = ("word", w)
        a = C.atoms.get(key)
        if a is None:
            herm = tuple(x.dagger() for x in reversed(w)) == w
            a = Atom(f"{hint}{len(C.atoms)}", p.rows, p.cols, herm=herm, kind="def")
            C.atoms[key] = a
            C.rule(w, NC.of(a))
            if not herm:
                C.rule(tuple(x.dagger() for x in reversed(w)), NC.of(a.dagger()))
            _renormalise_defs()
        return a, c
    # canonical scaling: the coefficient of the first word (shortest, then by atom ids) becomes 1
    def canon(q):
        w0 = min(q.t, key=lambda w: (len(w), tuple(x.uid for x in w)))
        c0 = q.t[w0]
        qq = q.scale(A.ONE / c0)
        return qq, c0, ("def", frozenset((w, c.key()) for w, c in qq.t.items()))

    q, c0, key = canon(p)
    a = C.atoms.get(key)
    if a is not None:
        return a, c0
    # the adjoint of an already defined operand
    qd, cd, keyd = canon(p.dagger())
    ad = C.atoms.get(keyd)
    if ad is not None:
        return ad.dagger(), cd
    herm = p.rows == p.cols and is_zero(q - q.dagger())
    a = Atom(f"{hint}{len(C.atoms)}", p.rows, p.cols, herm=herm, kind="def")
    C.atoms[key] = a
    C.defs[a] = q
    return a, c0


def define(p, hint="d"):
    a, c = as_atom(p, hint)
    if a is None:
        return p
    return NC({(a,): c}, p.rows, p.cols)


def single_atom(p):
    if len(p.t) == 1:
        ((w, c),) = p.t.items()
        if len(w) == 1:
            return w[0], c
    return None, None


def inv(p):
    """Assumed contract of linalg.inv: X inv(X) = inv(X) X = 1; inv(c X) = inv(X)/c; inv(X)† = inv(X†)."""
    C = ctx()
    C.assumed.add("inv")
    q = normalise(p)
    if len(q.t) == 1:
        ((w, c0),) = q.t.items()
        # inverse of a product of square factors that are invertible by their contracts (unitary; principal roots of
        # positive definite operands; inverses; positive diagonal eigenvalue roots): inv(w1 ... wn) = inv(wn) ... inv(w1)
        if len(w) > 1 and all(x.rows == x.cols and (x.unitary or x.kind in ("sqrt", "inv", "invertible") or (x.diag and x.kind == "eig")) for x in w):
            out = tuple((x.dagger() if x.unitary else _inv_atom(x)) for x in reversed(w))
            return NC({out: A.ONE / c0}, p.cols, p.rows)
    a, c = as_atom(p, "U")
    if a is None:
        return NC({(): A.ONE / c}, p.rows, p.cols)
    if a in C.defs and a not in C.inv_of:
        # multi-term operand X = c1 w1 + ... : eliminate one single-atom word in favour of X (w_pivot -> (X - rest)/c_pivot),
        # so that products of the defining expression with inv(X) fold (terminating: the pivot atom disappears)
        d = C.defs[a]
        piv = [w for w in d.t if len(w) == 1 and w[0].kind not in ("def", "inv")]
        if piv:
            pw = max(piv, key=lambda w: w[0].uid)
            rest = NC({w: cc for w, cc in d.t.items() if w != pw}, d.rows, d.cols)
            rhs = (NC.of(a) - rest).scale(A.ONE / d.t[pw])
            C.rule(pw, rhs)
            if not pw[0].herm:
                C.rule((pw[0].dagger(),), rhs.dagger())
            del C.defs[a]
            _renormalise_defs()
    return NC({(_inv_atom(a),): A.ONE / c}, p.cols, p.rows)


def _inv_atom(a):
    C = ctx()
    ia = C.inv_of.get(a)
    if ia is not None:
        return ia
    ia = Atom(f"inv({a.name})", a.cols, a.rows, herm=a.herm, diag=a.diag, kind="inv", data=a)
    C.inv_of[a] = ia
    C.inv_of[ia] = a
    one = NC({(): A.ONE}, a.rows, a.rows)
    C.rule((a, ia), one)
    C.rule((ia, a), one)
    if not a.herm:
        ad, iad = a.dagger(), ia.dagger()
        C.rule((ad, iad), one)
        C.rule((iad, ad), one)
        C.inv_of[ad] = iad
        C.inv_of[iad] = ad
    T = C.sqrt_of.get(a)
    if T is not None:
        iT = _inv_atom(T)
        C.rule((ia,), NC({(iT, iT): A.ONE}, a.rows, a.cols))
    eg = getattr(C, "eig_of", {}).get(a)
    if eg is not None:
        Dh, V = eg
        iDh = _inv_atom(Dh)
        C.rule((ia,), NC({(V, iDh, iDh, V.dagger()): A.ONE}, a.rows, a.cols))
    return ia


def _sqrt_atom(U):
    """S = sqrtm(U) for a Hermitian positive definite atom U: Hermitian, rule U -> S S (and inv(U) -> inv(S) inv(S))."""
    C = ctx()
    T = C.sqrt_of.get(U)
    if T is None:
        T = Atom(f"sqrt({U.name})", U.rows, U.cols, herm=True, kind="sqrt", data=U)
        C.sqrt_of[U] = T
        eg = getattr(C, "eig_of", {})
        if U in eg or ("general", U) in eg:
            raise A.OutsideSubset("sqrtm requested after the eigen-decomposition of the same matrix (request the root first)")
        C.rule((U,), NC({(T, T): A.ONE}, U.rows, U.cols))
        if U in C.inv_of:
            iT = _inv_atom(T)
            C.rule((C.inv_of[U],), NC({(iT, iT): A.ONE}, U.rows, U.cols))
        _renormalise_defs()
    return T


def sqrtm(p):
    """Assumed contract of sqrtm for a Hermitian positive definite argument: the principal root S is Hermitian with
    S S = A; sqrtm(c A) = sqrt(c) sqrtm(A) for c > 0; sqrtm(inv(A)) = inv(sqrtm(A))."""
    C = ctx()
    C.assumed.add("sqrtm")
    p = normalise(p)
    if len(p.t) == 1:
        ((w, c0),) = p.t.items()
        if len(w) == 2 and w[0] is w[1] and w[0].herm:
            # sqrtm(c S S) = sqrt(c) S for a Hermitian positive S (uniqueness of the principal root)
            return NC({(w[0],): A.qpow(c0, Fraction(1, 2))}, p.rows, p.cols)
    a, c = as_atom(p, "U")
    sc = A.qpow(c, Fraction(1, 2))
    if a is None:
        return NC({(): sc}, p.rows, p.cols)
    if a.kind == "inv":
        T = _sqrt_atom(a.data)
        return NC({(_inv_atom(T),): sc}, p.rows, p.cols)
    T = _sqrt_atom(a)
    return NC({(T,): sc}, p.rows, p.cols)


def conj_atom(a):
    """Element-wise complex conjugate of an atom (conj(X) is unitary / Hermitian / diagonal iff X is; conj(X†) = conj(X)†)."""
    C = ctx()
    if not hasattr(C, "conj_of"):
        C.conj_of = {}
    if a.real:
        return a
    b = C.conj_of.get(a)
    if b is not None:
        return b
    if a.adj is not None and a.adj is not a and a.adj in C.conj_of:
        b = C.conj_of[a.adj].dagger()
        C.conj_of[a], C.conj_of[b] = b, a
        return b
    if a.kind in ("def", "inv", "sqrt"):
        raise A.OutsideSubset(f"element-wise conjugate of the derived operand {a.name}")
    b = Atom(f"conj({a.name})", a.rows, a.cols, herm=a.herm, diag=a.diag, kind=a.kind, data=a.data, unitary=a.unitary)
    C.conj_of[a], C.conj_of[b] = b, a
    if a.unitary:
        _unitary_rules(b)
    return b


def _unitary_rules(v):
    C = ctx()
    one = NC({(): A.ONE}, v.rows, v.rows)
    if v.herm:
        C.rule((v, v), one)
        return
    vd = v.dagger()
    C.rule((vd, v), NC({(): A.ONE}, v.cols, v.cols))
    C.rule((v, vd), one)


def conj(p):
    """Element-wise complex conjugate: conj(X Y) = conj(X) conj(Y); coefficients are conjugated."""
    out = {}
    for w, c in p.t.items():
        w2 = tuple(conj_atom(x) for x in w)
        out[w2] = out.get(w2, A.ZERO) + A.lift(c).conjugate()
    return NC(out, p.rows, p.cols)


def transpose(p):
    """Plain (unconjugated) transpose: (X Y)^T = Y^T X^T, X^T = conj(X)†; scalars are unchanged."""
    out = {}
    for w, c in p.t.items():
        w2 = tuple(conj_atom(x).dagger() for x in reversed(w))
        out[w2] = out.get(w2, A.ZERO) + c
    return NC(out, p.cols, p.rows)


def eigh(p, hermitian_solver=True):
    """Assumed contracts of the eigen-decompositions of a Hermitian positive definite matrix S (Dh = diag(sqrt(eigenvalues)) is
    real positive diagonal by the spectral theorem in both cases):
      linalg.eigh  ('eigh'): S = V Dh Dh V† with V UNITARY                       (hence inv(S) = V inv(Dh) inv(Dh) V†)
      linalg.eig   ('eig') : S = V Dh Dh inv(V) with V merely INVERTIBLE - the general solver does not orthogonalise the
                             eigenvectors of (nearly) degenerate eigenvalues."""
    C = ctx()
    if not hermitian_solver:
        return _eig_general(p)
    C.assumed.add("eigh")
    p = normalise(p)
    if p.rows != p.cols or not is_zero(p - p.dagger()):
        raise A.OutsideSubset("eigen-decomposition of a matrix that is not provably Hermitian")
    root = _root_square(p)
    if root is not None:
        # S = c T T with T the principal root already requested: decompose T = V (sqrt(c)^-1 ... ) -> T = V Dh V†
        T, c = root
        if not hasattr(C, "eig_of"):
            C.eig_of = {}
        if T not in C.eig_of:
            V = Atom(f"eigvec({T.data.name})", T.rows, T.cols, kind="eig", data=T, unitary=True)
            Dh = Atom(f"eigval^1/2({T.data.name})", T.rows, T.cols, herm=True, diag=True, real=True, kind="eig", data=T)
            _unitary_rules(V)
            iDh = _inv_atom(Dh)
            iDh.real = True
            C.rule((T,), NC({(V, Dh, V.dagger()): A.ONE}, T.rows, T.cols))
            C.eig_of[T] = (Dh, V)
            _renormalise_defs()
        Dh, V = C.eig_of[T]
        return Dh, V, c
    a, c = as_atom(p, "S")
    if a is None:
        raise A.OutsideSubset("eigen-decomposition of a scalar matrix")
    if not hasattr(C, "eig_of"):
        C.eig_of = {}
    if a not in C.eig_of:
        V = Atom(f"eigvec({a.name})", a.rows, a.cols, kind="eig", data=a, unitary=True)
        Dh = Atom(f"eigval^1/2({a.name})", a.rows, a.cols, herm=True, diag=True, real=True, kind="eig", data=a)
        _unitary_rules(V)
        C.rule((a,), NC({(V, Dh, Dh, V.dagger()): A.ONE}, a.rows, a.cols))
        iDh = _inv_atom(Dh)
        iDh.real = True
        if a in C.inv_of:
            C.rule((C.inv_of[a],), NC({(V, iDh, iDh, V.dagger()): A.ONE}, a.rows, a.cols))
        C.eig_of[a] = (Dh, V)
        T = C.sqrt_of.get(a)
        if T is not None:
            # uniqueness of the principal root: sqrtm(S) = V Dh V†
            C.rule((T,), NC({(V, Dh, V.dagger()): A.ONE}, a.rows, a.cols))
        _renormalise_defs()
    Dh, V = C.eig_of[a]
    return Dh, V, c


def eigh_general(p):
    """Assumed contract of linalg.eigh for a Hermitian matrix M (not necessarily definite): M = V Lam V† with V unitary and Lam real
    diagonal (ascending eigenvalues on its diagonal)."""
    C = ctx()
    C.assumed.add("eigh")
    p = normalise(p)
    if p.rows != p.cols or not is_zero(p - p.dagger()):
        raise A.OutsideSubset("eigh of a matrix that is not provably Hermitian")
    if len(p.t) == 1:
        # the matrix is already known by its decomposition (a second request for the same matrix)
        ((w, c0),) = p.t.items()
        if len(w) == 3 and w[0].kind == "eig" and w[0].unitary and w[2] is w[0].dagger() and w[1].kind == "eig" and w[1].diag:
            return w[1], w[0], c0
    a, c = as_atom(p, "M")
    if a is None:
        raise A.OutsideSubset("eigh of a scalar matrix")
    if not hasattr(C, "eigh_of"):
        C.eigh_of = {}
    if a not in C.eigh_of:
        V = Atom(f"eigvec({a.name})", a.rows, a.cols, kind="eig", data=a, unitary=True)
        Lam = Atom(f"eigval({a.name})", a.rows, a.cols, herm=True, diag=True, real=True, kind="eig", data=a)
        _unitary_rules(V)
        C.rule((a,), NC({(V, Lam, V.dagger()): A.ONE}, a.rows, a.cols))
        C.eigh_of[a] = (Lam, V)
        _renormalise_defs()
    Lam, V = C.eigh_of[a]
    return Lam, V, c


def _root_square(p):
    """(T, c) if p == c T T with T a principal-root atom."""
    if len(p.t) == 1:
        ((w, c),) = p.t.items()
        if len(w) == 2 and w[0] is w[1] and w[0].kind == "sqrt":
            return w[0], c
    return None


def _eig_general(p):
    C = ctx()
    C.assumed.add("eig")
    p = normalise(p)
    if p.rows != p.cols or not is_zero(p - p.dagger()):
        raise A.OutsideSubset("eigen-decomposition of a matrix that is not provably Hermitian")
    root = _root_square(p)
    if root is not None:
        T, c = root
        if not hasattr(C, "eig_of"):
            C.eig_of = {}
        key = ("general", T)
        if key not in C.eig_of:
            V = Atom(f"eigvec_general({T.data.name})", T.rows, T.cols, kind="eig", data=T)
            Dh = Atom(f"eigval^1/2({T.data.name})", T.rows, T.cols, herm=True, diag=True, real=True, kind="eig", data=T)
            iV = _inv_atom(V)
            iDh = _inv_atom(Dh)
            iDh.real = True
            C.rule((T,), NC({(V, Dh, iV): A.ONE}, T.rows, T.cols))
            C.eig_of[key] = (Dh, V)
            _renormalise_defs()
        Dh, V = C.eig_of[key]
        return Dh, V, c
    a, c = as_atom(p, "S")
    if a is None:
        raise A.OutsideSubset("eigen-decomposition of a scalar matrix")
    if not hasattr(C, "eig_of"):
        C.eig_of = {}
    key = ("general", a)
    if key not in C.eig_of:
        V = Atom(f"eigvec_general({a.name})", a.rows, a.cols, kind="eig", data=a)
        Dh = Atom(f"eigval^1/2({a.name})", a.rows, a.cols, herm=True, diag=True, real=True, kind="eig", data=a)
        iV = _inv_atom(V)
        C.rule((a,), NC({(V, Dh, Dh, iV): A.ONE}, a.rows, a.cols))
        iDh = _inv_atom(Dh)
        iDh.real = True
        C.eig_of[key] = (Dh, V)
        T = C.sqrt_of.get(a)
        if T is not None:
            C.rule((T,), NC({(V, Dh, iV): A.ONE}, a.rows, a.cols))
        _renormalise_defs()
    Dh, V = C.eig_of[key]
    return Dh, V, c


def _renormalise_defs():
    C = ctx()
    for a in list(C.defs):
        C.defs[a] = normalise(C.defs[a])
