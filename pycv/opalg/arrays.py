"""Engine N arrays: numpy-like surface over the NC algebra, with *symbolic dimensions*.

Dimensions are distinct large integer codes (so that `len(W) == len(atoms.Gk2c[ik])` and `W.ndim`, `W.shape[-1]`
are decided by CPython exactly as in the real dispatch code); no arithmetic is ever done on them.
"""

from __future__ import annotations

from fractions import Fraction

import numpy as np

from ..algebra import core as A
from ..algebra.core import Poly, lift
from . import nc
from .nc import NC, Atom

# dimension codes (pairwise distinct, never combined arithmetically)
DIM = dict(Ns=100003, Nstate=53, Nocc=31, Nunocc=37, s0=101, s1=103, s2=107, one=1)


def dim_active(ik):
    return 10007 + 2 * ik


DIMNAME = {}


def dim_name(d):
    for k, v in DIM.items():
        if v == d:
            return k
    if d >= 10007 and d < 20000:
        return f"Nactive[{(d - 10007) // 2}]"
    return str(d)


def is_scalar(x):
    return isinstance(x, (int, float, complex, Fraction, Poly)) or (isinstance(x, np.generic))


class Idx:
    """Index object standing for xp.nonzero(mask) of the cut-off sphere of k-point ik (a 1-tuple like numpy's)."""

    def __init__(self, ik):
        self.ik = ik

    def __getitem__(self, i):
        if i == 0:
            return self
        raise IndexError(i)

    def __len__(self):
        return 1

    def __iter__(self):
        yield self


class ColMask:
    """Boolean column mask (e.g. f > 0): selects Nocc of the Nstate columns."""

    def __init__(self, name="occ", n=DIM["Nocc"]):
        self.name, self.n = name, n


class MaskCount:
    """Number of selected columns of a mask (xp.sum(f > 0))."""

    def __init__(self, mask):
        self.mask = mask

    def __index__(self):
        raise A.OutsideSubset("numeric value of a symbolic column count")


class NArr:
    def __init__(self, val, shape, pending=None, grid=False, real=False):
        self.val = val  # NC
        self.shape = tuple(shape)
        self.pending = pending  # None | 'conj' | 'T'
        self.grid = grid  # reshaped to the FFT box
        self.isreal = real
        self.dtype = complex
        self.inf0 = False
        self.rowvec = False  # 1-D array that algebraically is a 1 x n row (conjugated column of a matrix)

    # -- numpy surface -----------------------------------------------------------------------------
    @property
    def ndim(self):
        return len(self.shape)

    def __len__(self):
        return self.shape[0]

    def _chk(self):
        if self.pending:
            raise A.OutsideSubset("element-wise conj / transpose used on its own (only .conj().T is a *-algebra operation)")
        if self.grid:
            raise A.OutsideSubset("arithmetic on an FFT-box shaped array")

    def conj(self):
        if self.isreal:
            return self
        if self.pending == "T":
            return NArr(self.val.dagger(), self.shape)
        if self.pending == "conj":
            return NArr(self.val, self.shape)
        if self.ndim == 1:
            # conj of a vector: keep as pending; only v.conj() @ w style products are supported
            return NArr(self.val, self.shape, pending="conj")
        return NArr(self.val, self.shape, pending="conj")

    @property
    def T(self):
        if self.ndim == 1:
            return self
        if self.pending == "conj":
            return NArr(self.val.dagger(), self.shape[::-1])
        if self.pending == "T":
            return NArr(self.val, self.shape[::-1])
        return NArr(self.val, self.shape[::-1], pending="T")

    def reshape(self, *shape):
        if len(shape) == 1 and isinstance(shape[0], (list, tuple)):
            shape = tuple(shape[0])
        box = (DIM["s0"], DIM["s1"], DIM["s2"])
        if tuple(shape[:3]) == box and not self.grid:
            if self.shape[0] != DIM["Ns"]:
                raise A.OutsideSubset(f"reshape of a length-{dim_name(self.shape[0])} array to the FFT box")
            if len(shape) == 3 + (self.ndim - 1):
                return NArr(self.val, self.shape, grid=True)
        if self.grid and shape[0] == DIM["Ns"] and len(shape) == self.ndim and tuple(shape[1:]) == self.shape[1:]:
            return NArr(self.val, self.shape)
        raise A.OutsideSubset(f"reshape {self.shape} -> {shape}")

    def ravel(self):
        if self.grid and self.ndim == 1:
            return NArr(self.val, self.shape)
        if self.ndim == 1:
            return self
        raise A.OutsideSubset("ravel of a matrix")

    def copy(self):
        return NArr(self.val, self.shape, self.pending, self.grid, self.isreal)

    # -- arithmetic ----------------------------------------------------------------------------------
    def __add__(self, o):
        self._chk()
        if isinstance(o, (int, float)) and o == 0:
            return self
        if isinstance(o, NArr):
            o._chk()
            if o.shape != self.shape:
                raise A.OutsideSubset(f"shape mismatch {self.shape} vs {o.shape}")
            return NArr(self.val + o.val, self.shape, real=self.isreal and o.isreal)
        if is_scalar(o) and self.ndim == 2 and self.shape[1] == 1:
            # column vector + scalar: c * ones
            one = nc.ctx().atom(f"ones[{dim_name(self.shape[0])}]", self.shape[0], 1, real=True)
            return NArr(self.val + NC.of(one).scale(o), self.shape, real=self.isreal)
        if is_scalar(o) and self.ndim == 1:
            one = nc.ctx().atom(f"ones[{dim_name(self.shape[0])}]", self.shape[0], 1, real=True)
            return NArr(self.val + NC.of(one).scale(o), self.shape, real=self.isreal)
        return NotImplemented

    __radd__ = __add__

    def __neg__(self):
        self._chk()
        return NArr(-self.val, self.shape, real=self.isreal)

    def __sub__(self, o):
        return self + (-o)

    def __rsub__(self, o):
        return (-self) + o

    def __mul__(self, o):
        self._chk()
        if is_scalar(o):
            r = NArr(self.val.scale(_sc(o)), self.shape, real=self.isreal and not isinstance(o, complex))
            r.rowvec = self.rowvec
            return r
        if isinstance(o, NArr):
            o._chk()
            a, b = self, o
            if a.rowvec and b.ndim == 2 and b.shape[1] == 1:
                return NArr(b.val.mul(a.val), (b.shape[0], a.shape[0]))
            if b.rowvec and a.ndim == 2 and a.shape[1] == 1:
                return NArr(a.val.mul(b.val), (a.shape[0], b.shape[0]))
            # diag(col) * matrix  (broadcast of an (n,1) column or a vector against (n,m) / (n,))
            if a.ndim == 2 and a.shape[1] == 1 and b.shape[0] == a.shape[0]:
                return NArr(diag_of(a.val).mul(b.val), b.shape)
            if b.ndim == 2 and b.shape[1] == 1 and a.shape[0] == b.shape[0]:
                return NArr(diag_of(b.val).mul(a.val), a.shape)
            if a.ndim == 1 and b.ndim == 1 and a.shape == b.shape:
                if is_diagonal_vector(a.val):
                    return NArr(diag_of(a.val).mul(b.val), b.shape, real=a.isreal and b.isreal)
                if is_diagonal_vector(b.val):
                    return NArr(diag_of(b.val).mul(a.val), a.shape, real=a.isreal and b.isreal)
            raise A.OutsideSubset(f"element-wise product of shapes {a.shape} and {b.shape}")
        return NotImplemented

    __rmul__ = __mul__

    def __truediv__(self, o):
        self._chk()
        if is_scalar(o):
            return self * (A.ONE / _sc(o))
        if isinstance(o, NArr):
            o._chk()
            if (o.ndim == 2 and o.shape[1] == 1 or o.ndim == 1) and o.shape[0] == self.shape[0]:
                d = diag_of(o.val)
                dinv, inf0 = diag_inverse(d)
                r = NArr(dinv.mul(self.val), self.shape)
                if inf0 is not None:
                    r.val = r.val + inf0.mul(self.val)
                return r
        return NotImplemented

    def __matmul__(self, o):
        if not isinstance(o, NArr):
            return NotImplemented
        a, b = self, o
        # a bare transpose is a *-algebra operation through X^T = conj(X)† (conj(X): the element-wise conjugate operand)
        if a.pending == "T" and a.ndim == 2:
            a = NArr(nc.transpose(a.val), a.shape)
        if b.pending == "T" and b.ndim == 2:
            b = NArr(nc.transpose(b.val), b.shape)
        if a.pending == "conj" and a.ndim == 2:
            a = NArr(nc.conj(a.val), a.shape)
        if b.pending == "conj" and b.ndim == 2:
            b = NArr(nc.conj(b.val), b.shape)
        if a.pending or b.pending:
            raise A.OutsideSubset("matrix product with a bare conj/transpose operand")
        if a.grid or b.grid:
            raise A.OutsideSubset("matmul on FFT-box array")
        if a.ndim == 1 and b.ndim == 1:
            if a.shape != b.shape:
                raise A.OutsideSubset("vdot shape mismatch")
            if not a.isreal:
                raise A.OutsideSubset("a @ b for a complex vector a is the bilinear (unconjugated) product")
            return NArr(a.val.dagger().mul(b.val), ())
        # multi-term operands are abstracted into definition atoms so that X^H O X folds into one word (unfolded lazily)
        if len(a.val.t) > 1:
            a = NArr(nc.define(a.val, "R"), a.shape)
        if len(b.val.t) > 1:
            b = NArr(nc.define(b.val, "R"), b.shape)
        if a.ndim == 2 and b.ndim == 2:
            if a.shape[1] != b.shape[0]:
                raise A.OutsideSubset(f"matmul shape mismatch {a.shape} @ {b.shape}")
            return NArr(a.val.mul(b.val), (a.shape[0], b.shape[1]))
        if a.ndim == 2 and b.ndim == 1:
            return NArr(a.val.mul(b.val), (a.shape[0],))
        raise A.OutsideSubset("matmul layout")

    # -- indexing ------------------------------------------------------------------------------------
    def __getitem__(self, key):
        C = nc.ctx()
        if isinstance(key, tuple) and len(key) >= 2 and isinstance(key[1], Poly):
            import operator

            key = (key[0], operator.index(key[1])) + tuple(key[2:])
        if isinstance(key, Idx):  # rows of the cut-off sphere
            S = scatter_atom(key.ik)
            shape = (dim_active(key.ik),) + self.shape[1:]
            return NArr(NC.of(S.dagger()).mul(self.val), shape)
        if isinstance(key, tuple) and len(key) in (2, 3) and key[0] == slice(None) and isinstance(key[1], (int, np.integer)) \
                and self.ndim == 2 and (len(key) == 2 or key[2] is None):
            # column j of a matrix: M e_j (as a vector, or as an (n,1) column with a trailing None)
            e = unit_col(self.shape[1], int(key[1]))
            if self.pending == "conj":
                if len(key) == 3:
                    raise A.OutsideSubset("column of a conjugated matrix as a column")
                r = NArr(NC.of(e.dagger()).mul(self.val.dagger()), (self.shape[0],))
                r.rowvec = True
                return r
            if self.pending:
                raise A.OutsideSubset("column of a transposed matrix")
            v = self.val.mul(NC.of(e))
            return NArr(v, (self.shape[0], 1) if len(key) == 3 else (self.shape[0],))
        if isinstance(key, tuple) and len(key) == 2:
            r, c = key
            if isinstance(r, slice) and r == slice(None) and c is None and self.ndim == 1:
                return NArr(self.val, (self.shape[0], 1), real=self.isreal)
            if isinstance(r, slice) and r == slice(None) and isinstance(c, slice) and c.start is None and c.step is None and isinstance(c.stop, MaskCount):
                # the first n columns (n = number of selected columns of a mask): NOT the masked columns unless the mask is a prefix
                Csel = C.atom(f"Cfirst[{c.stop.mask.name}]", self.shape[1], c.stop.mask.n)
                C_dag = Csel.dagger()
                one = NC({(): A.ONE}, c.stop.mask.n, c.stop.mask.n)
                if not any(l == (C_dag, Csel) for l, _ in C.rules):
                    C.rule((C_dag, Csel), one)
                return NArr(self.val.mul(NC.of(Csel)), (self.shape[0], c.stop.mask.n))
            if isinstance(r, slice) and r == slice(None) and isinstance(c, ColMask):
                Csel = C.atom(f"C[{c.name}]", self.shape[1], c.n)
                C_dag = Csel.dagger()
                one = NC({(): A.ONE}, c.n, c.n)
                if not any(l == (C_dag, Csel) for l, _ in C.rules):
                    C.rule((C_dag, Csel), one)
                return NArr(self.val.mul(NC.of(Csel)), (self.shape[0], c.n))
        raise A.OutsideSubset(f"indexing with {key!r}")

    def __setitem__(self, key, value):
        C = nc.ctx()
        if isinstance(key, Idx):
            if self.val.t:
                raise A.OutsideSubset("scatter into a non-zero array")
            if not isinstance(value, NArr) or value.shape[0] != dim_active(key.ik):
                raise A.OutsideSubset("scatter of an array that is not on the cut-off sphere of this k-point")
            S = scatter_atom(key.ik)
            self.val = NC.of(S).mul(value.val)
            return
        zero_row0 = (key == 0) or (isinstance(key, tuple) and len(key) == 2 and key[0] == 0 and key[1] == slice(None))
        if zero_row0 and (value == 0):
            Z0 = zero_mode_atoms(self.shape[0])[0]
            self.val = NC.of(Z0).mul(self.val)
            return
        raise A.OutsideSubset(f"item assignment {key!r}")


def _sc(o):
    if isinstance(o, complex):
        return lift(o)
    if isinstance(o, np.generic):
        return lift(o.item())
    return lift(o)


def scatter_atom(ik):
    C = nc.ctx()
    n = dim_active(ik)
    S = C.atom(f"S{ik}", DIM["Ns"], n)
    Sd = S.dagger()
    if not any(l == (Sd, S) for l, _ in C.rules):
        C.rule((Sd, S), NC({(): A.ONE}, n, n))
        P = C.atom(f"P{ik}", DIM["Ns"], DIM["Ns"], herm=True, diag=True, real=True)
        C.rule((S, Sd), NC.of(P))
        C.rule((P, P), NC.of(P))
        C.rule((P, S), NC.of(S))
        C.rule((Sd, P), NC.of(Sd))
    return S


def unit_col(n, j):
    C = nc.ctx()
    e = C.atom(f"e{j}[{dim_name(n)}]", n, 1, real=True)
    if not getattr(C, "_unit_rules", None):
        C._unit_rules = set()
    return e


def declare_units(n, count):
    """Unit columns e_0..e_{count-1} of an n-dimensional index space: e_i^H e_j = delta_ij."""
    C = nc.ctx()
    es = [unit_col(n, j) for j in range(count)]
    for i, a in enumerate(es):
        for j, b in enumerate(es):
            lhs = (a.dagger(), b)
            if not any(l == lhs for l, _ in C.rules):
                C.rule(lhs, NC({(): A.ONE}, 1, 1) if i == j else NC({}, 1, 1))
    return es


def zero_mode_atoms(n):
    """Z0: diagonal projector that zeroes entry 0; E0 = 1 - Z0."""
    C = nc.ctx()
    Z0 = C.atom(f"Z0[{dim_name(n)}]", n, n, herm=True, diag=True, real=True)
    if not any(l == (Z0, Z0) for l, _ in C.rules):
        C.rule((Z0, Z0), NC.of(Z0))
    return Z0, None


def is_diagonal_vector(v):
    return all(len(w) >= 1 for w in v.t)


def diag_of(v):
    """Diag(v) for a vector-valued NC polynomial v (linear): sum_c c * Diag(word)."""
    C = nc.ctx()
    out = NC({}, v.rows, v.rows)
    for w, c in v.t.items():
        if len(w) == 1 and w[0].name.startswith("ones["):
            out = out + NC({(): c}, v.rows, v.rows)
            continue
        name = "D[" + "·".join(a.name for a in w) + "]"
        real = all(a.real for a in w) and len(w) == 1
        d = C.atom(name, v.rows, v.rows, herm=real, diag=True, real=real, kind="diag", data=w)
        out = out + NC({(d,): c}, v.rows, v.rows)
    return out


def diag_inverse(d):
    """Inverse of a diagonal operator polynomial. A diagonal atom flagged singular at index 0 (|G|^2) gets its
    pseudo-inverse plus an explicit INF * E0 term (numpy: division by zero at G = 0), which must be removed by the
    code (`out[0] = 0`) for any identity to hold."""
    C = nc.ctx()
    a, c = nc.as_atom(d, "Dg")
    if a is None:
        return NC({(): A.ONE / c}, d.rows, d.cols), None
    if a.kind != "def":
        pass
    if getattr(a, "data", None) is not None and a.kind == "diag" and a.data[0].name in SINGULAR0:
        n = a.rows
        Z0, _ = zero_mode_atoms(n)
        pinv = C.atom(f"pinv({a.name})", n, n, herm=True, diag=True, real=True, kind="pinv", data=a)
        if not any(l in ((a, pinv), (pinv, a)) for l, _ in C.rules):
            for l in ((a, pinv), (pinv, a)):
                C.rule(l, NC.of(Z0))
            for l in ((Z0, pinv), (pinv, Z0)):
                C.rule(l, NC.of(pinv))
            for l in ((Z0, a), (a, Z0)):
                C.rule(l, NC.of(a))
        INF = A.ctx().var("INF")
        E0 = NC({(): A.ONE}, n, n) - NC.of(Z0)
        return NC({(pinv,): A.ONE / c}, n, n), E0.scale(INF)
    # generic non-singular diagonal operator
    a.diag = True
    r = nc.inv(d)
    for w in r.t:
        for x in w:
            x.diag = True
    return r, None


SINGULAR0 = set()


class Trace:
    """trace of an NC polynomial (cyclic): kept symbolic; compared through cyclic normal forms."""

    def __init__(self, val):
        self.val = val

    def __mul__(self, o):
        return Trace(self.val.scale(_sc(o)))

    __rmul__ = __mul__

    def __add__(self, o):
        if isinstance(o, (int, float)) and o == 0:
            return self
        return Trace(self.val + o.val)

    __radd__ = __add__

    def __neg__(self):
        return Trace(-self.val)

    def __sub__(self, o):
        return Trace(self.val - o.val)


class NStack:
    """3-D array: spin-stacked matrices (axis 0 concrete)."""

    def __init__(self, parts):
        self.parts = list(parts)
        self.dtype = complex

    @property
    def ndim(self):
        return 3

    @property
    def shape(self):
        return (len(self.parts),) + tuple(self.parts[0].shape)

    def __len__(self):
        return len(self.parts)

    def __iter__(self):
        return iter(self.parts)

    def __getitem__(self, k):
        if isinstance(k, int):
            return self.parts[k]
        if isinstance(k, tuple) and len(k) == 2 and k[0] == slice(None) and isinstance(k[1], Idx):
            return NStack([p[k[1]] for p in self.parts])
        raise A.OutsideSubset(f"stack indexing {k!r}")

    def __setitem__(self, k, v):
        if isinstance(k, int):
            self.parts[k] = v
            return
        if isinstance(k, tuple) and len(k) == 2 and k[0] == slice(None) and isinstance(k[1], Idx):
            for p, q in zip(self.parts, v.parts if isinstance(v, NStack) else v):
                p[k[1]] = q
            return
        raise A.OutsideSubset(f"stack item assignment {k!r}")

    def reshape(self, *shape):
        if len(shape) == 1 and isinstance(shape[0], (list, tuple)):
            shape = tuple(shape[0])
        if shape[0] != len(self.parts):
            raise A.OutsideSubset("stack reshape changes the spin axis")
        return NStack([p.reshape(*shape[1:]) for p in self.parts])

    def _map(self, f):
        return NStack([f(p) for p in self.parts])

    def __mul__(self, o):
        return self._map(lambda p: p * o)

    __rmul__ = __mul__

    def __neg__(self):
        return self._map(lambda p: -p)

    def __add__(self, o):
        if isinstance(o, NStack):
            return NStack([a + b for a, b in zip(self.parts, o.parts)])
        return NotImplemented

    def __sub__(self, o):
        if isinstance(o, NStack):
            return NStack([a - b for a, b in zip(self.parts, o.parts)])
        return NotImplemented


class EigVals:
    """Eigenvalue vector of a Hermitian positive definite matrix: c^(p/2) * Dh^p as a diagonal (Dh = diag(sqrt(eigenvalues)))."""

    def __init__(self, Dh, power, c):
        self.Dh, self.power, self.c = Dh, power, c
        self.ndim = 1

    def pow(self, q):
        pw = self.power * q
        if pw != int(pw):
            raise A.OutsideSubset("fractional power of sqrt(eigenvalues)")
        r = EigVals(self.Dh, int(pw), self.c)
        r.ndim = self.ndim
        return r

    def __rtruediv__(self, o):
        if o != 1:
            raise A.OutsideSubset("only 1 / eigenvalues")
        r = EigVals(self.Dh, -self.power, self.c)
        r.ndim = self.ndim
        return r

    def __getitem__(self, key):
        if key == (slice(None), None):
            r = EigVals(self.Dh, self.power, self.c)
            r.ndim = 2
            return r
        raise A.OutsideSubset("indexing of an eigenvalue vector")

    def __len__(self):
        return self.Dh.rows

    def __matmul__(self, o):
        # column of eigenvalue roots times a row of ones: the matrix d_i (same for every column j)
        if isinstance(o, OnesRow) and self.ndim == 2 and self.power == 1:
            return RootOuter(self, transposed=False)
        raise A.OutsideSubset("matrix product with an eigenvalue vector")

    def as_matrix(self):
        n = self.Dh.rows
        at = self.Dh if self.power >= 0 else nc._inv_atom(self.Dh)
        sc = A.qpow(self.c, Fraction(self.power, 2))
        return NArr(NC({tuple([at] * abs(self.power)): sc}, n, n), (n, n))


class OnesRow:
    def __init__(self, n):
        self.n = n


class RootOuter:
    """sqrt(mu_i) broadcast over the columns (or its transpose); the sum of both is the Sylvester denominator."""

    def __init__(self, ev, transposed, conj=False):
        self.ev, self.transposed = ev, transposed

    def conj(self):
        return self  # real

    @property
    def T(self):
        return RootOuter(self.ev, not self.transposed)

    def __add__(self, o):
        if isinstance(o, RootOuter) and o.ev.Dh is self.ev.Dh and o.transposed != self.transposed:
            return SylvesterDenominator(self.ev)
        raise A.OutsideSubset("sum of eigenvalue-root outer products")


class SylvesterDenominator:
    """D_ij = sqrt(mu_i) + sqrt(mu_j). B / D (element-wise) is the unique C with C Dh + Dh C = B (Dh = diag(sqrt(mu)) > 0)."""

    def __init__(self, ev):
        self.ev = ev

    def __rtruediv__(self, B):
        if not isinstance(B, NArr) or B.ndim != 2:
            raise A.OutsideSubset("element-wise division by the Sylvester denominator")
        C = nc.ctx()
        C.assumed.add("sylvester-division")
        Dh = self.ev.Dh
        n = Dh.rows
        k = len([a for a in C.atoms if isinstance(a, str) and a.startswith("sylv")])
        Cat = C.atom(f"sylv{k}", n, n)
        sc = A.qpow(self.ev.c, Fraction(1, 2))
        # (sqrt(c) Dh is the actual root matrix): C (sc Dh) + (sc Dh) C = B  ->  C Dh = B / sc - Dh C
        bval = nc.define(B.val, "B") if len(B.val.t) > 1 else B.val
        rhs = bval.scale(A.ONE / sc) - NC({(Dh, Cat): A.ONE}, n, n)
        C.rule((Cat, Dh), rhs)
        if B.val.rows == B.val.cols and nc.is_zero(B.val + B.val.dagger()):
            # anti-Hermitian right-hand side: the solution is anti-Hermitian as well (uniqueness)
            C.rule((Cat.dagger(),), NC({(Cat,): -A.ONE}, n, n))
        elif B.val.rows == B.val.cols and nc.is_zero(B.val - B.val.dagger()):
            C.rule((Cat.dagger(),), NC({(Cat,): A.ONE}, n, n))
        return NArr(NC.of(Cat), (n, n))


class Backend:
    """`xp` for engine N."""

    complex128 = complex

    def __getattr__(self, name):
        raise A.OutsideSubset(f"backend function xp.{name} is not modelled by engine N")

    class linalg:  # noqa: N801
        @staticmethod
        def inv(x):
            return NArr(nc.inv(x.val), x.shape[::-1])

        @staticmethod
        def eigh(x):
            if getattr(x, "positive_definite", True) and not getattr(Backend, "eigh_indefinite", False):
                Dh, V, c = nc.eigh(x.val)
                return EigVals(Dh, 2, c), NArr(NC.of(V), x.shape)
            Lam, V, c = nc.eigh_general(x.val)
            return NArr(NC({(Lam,): c}, Lam.rows, Lam.cols), (Lam.rows,)), NArr(NC.of(V), x.shape)

        @staticmethod
        def eigvalsh(x):
            Lam, V, c = nc.eigh_general(x.val)
            return NArr(NC({(Lam,): c}, Lam.rows, Lam.cols), (Lam.rows,))

        @staticmethod
        def eig(x):
            Dh, V, c = nc.eigh(x.val, hermitian_solver=False)
            return EigVals(Dh, 2, c), NArr(NC.of(V), x.shape)

        @staticmethod
        def multi_dot(xs):
            out = xs[0]
            for x in xs[1:]:
                out = out @ x
            return out

    def sqrtm(self, x):
        return NArr(nc.sqrtm(x.val), x.shape)

    def sqrt(self, x):
        if isinstance(x, EigVals):
            return x.pow(Fraction(1, 2))
        raise A.OutsideSubset("xp.sqrt of an array is not modelled by engine N")

    def sum(self, x, *a, **kw):
        if isinstance(x, ColMask):
            return MaskCount(x)
        raise A.OutsideSubset("xp.sum of an array is not modelled by engine N")

    def count_nonzero(self, x, *a, **kw):
        return self.sum(x)

    def any(self, x):
        if hasattr(x, "any") and not isinstance(x, NArr):
            return x.any()
        raise A.OutsideSubset("xp.any of an array")

    def ones(self, shape, dtype=None, **kw):
        shape = tuple(shape) if not isinstance(shape, int) else (shape,)
        if len(shape) == 2 and shape[0] == 1:
            return OnesRow(shape[1])
        raise A.OutsideSubset("xp.ones of a general shape")

    def diag(self, x):
        if isinstance(x, EigVals):
            return x.as_matrix()
        raise A.OutsideSubset("xp.diag of a general array is not modelled by engine N")

    def empty(self, shape, dtype=None, **kw):
        shape = tuple(shape)
        if len(shape) == 3 and isinstance(shape[1], int) and shape[1] <= 4:
            # (Nk, Nspin, n): a table of vectors, filled entry by entry
            return [[None for _ in range(shape[1])] for _ in range(shape[0])]
        if len(shape) == 3:
            return NStack([None for _ in range(shape[0])])
        raise A.OutsideSubset("xp.empty of a non-stack shape")

    def sort(self, x, **kw):
        if isinstance(x, NArr) and len(x.val.t) == 1:
            ((w, c),) = x.val.t.items()
            if len(w) == 1 and w[0].kind == "eig" and w[0].diag:
                return x  # eigenvalues are returned in ascending order (contract of eigh / eigvalsh)
        raise A.OutsideSubset("xp.sort of a general array")

    def zeros(self, shape, dtype=None, **kw):
        if isinstance(shape, int):
            shape = (shape,)
        shape = tuple(shape)
        if len(shape) == 3:
            return NStack([NArr(NC.zero(shape[1], shape[2]), shape[1:]) for _ in range(shape[0])])
        return NArr(NC.zero(shape[0], shape[1] if len(shape) > 1 else 1), shape)

    def empty_like(self, x):
        if isinstance(x, NStack):
            return NStack([None for _ in x.parts])
        return NArr(NC.zero(x.val.rows, x.val.cols), x.shape)

    def stack(self, xs, axis=0):
        return NStack(list(xs))

    def zeros_like(self, x, dtype=None, **kw):
        return NArr(NC.zero(x.val.rows, x.val.cols), x.shape)

    def astype(self, x, dtype, **kw):
        return x

    def trace(self, x):
        return Trace(x.val)

    def real(self, x):
        if isinstance(x, Trace):
            return x
        if isinstance(x, NArr) and x.isreal:
            return x
        if isinstance(x, NArr) and x.ndim == 1 and not x.pending and not x.grid:
            # Re(sum_w c_w w) over vector words: a real vector atom keeps Re(c_w); a complex word w is abstracted into the
            # REAL vector atom Re[w] (sound: all that is used is that it is real); only real multiples c of complex words are handled
            C = nc.ctx()
            v = nc.normalise(x.val)
            out = NC({}, v.rows, v.cols)
            half = A.lift(Fraction(1, 2))
            for w, c in v.t.items():
                c = A.lift(c)
                cre = (c + c.conjugate()) * half
                if len(w) == 1 and w[0].real:
                    out = out + NC({w: cre}, v.rows, v.cols)
                    continue
                if len(w) == 0:
                    raise A.OutsideSubset("real part of a scalar word in a vector")
                if not A.is_zero(c - c.conjugate()):
                    raise A.OutsideSubset("real part of a complex multiple of a complex vector")
                re = C.atom("Re[" + "·".join(a.name for a in w) + "]", v.rows, 1, real=True)
                out = out + NC({(re,): cre}, v.rows, v.cols)
            return NArr(out, x.shape, real=True)
        raise A.OutsideSubset("real part of a complex array")

    def asarray(self, x, dtype=None, **kw):
        return x

    def is_array(self, x):
        return isinstance(x, (NArr, NStack))

    def _fft(self, x, norm, axes, inverse):
        if isinstance(x, NStack):
            if axes != (1, 2, 3):
                raise A.OutsideSubset(f"fft axes {axes} for a spin stack")
            return NStack([self._fft(p, norm, (0, 1, 2), inverse) for p in x.parts])
        if not x.grid:
            raise A.OutsideSubset("fft of an array that is not shaped to the FFT box")
        if axes is not None and tuple(axes) != (0, 1, 2):
            raise A.OutsideSubset(f"fft axes {axes}")
        if axes is None and x.ndim != 1:
            raise A.OutsideSubset("fftn over all axes of a matrix")
        C = nc.ctx()
        C.assumed.add("fft")
        Ns = DIM["Ns"]
        F = C.atom("F", Ns, Ns)
        Fb = F.dagger()
        Fb.name = "Fbar"
        N = A.ctx().var("Ngrid", positive=True)
        if not any(l == (F, Fb) for l, _ in C.rules):
            C.rule((F, Fb), NC({(): N}, Ns, Ns))
            C.rule((Fb, F), NC({(): N}, Ns, Ns))
        scale = {("backward", False): A.ONE, ("forward", False): A.ONE / N, ("ortho", False): A.qpow(N, Fraction(-1, 2)),
                 ("backward", True): A.ONE / N, ("forward", True): A.ONE, ("ortho", True): A.qpow(N, Fraction(-1, 2))}[(norm or "backward", inverse)]
        op = NC.of(Fb if inverse else F)
        return NArr(op.mul(x.val).scale(scale), x.shape, grid=True)

    def fftn(self, x, norm=None, axes=None, **kw):
        return self._fft(x, norm, axes, False)

    def ifftn(self, x, norm=None, axes=None, **kw):
        return self._fft(x, norm, axes, True)
