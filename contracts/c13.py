"""C13 - occupations conserve electron number and spin (engines Z and A).

* setters / fill on the real Occupations class (engine Z): charge bookkeeping, integer and fractional filling loops with
  loop invariants over an abstract 2-d array with ghost sums (unbounded in the number of states),
* Fermi smearing: the objective handed to the root finder is the k-weighted electron count (loop invariant over k),
  the bracket satisfies the root finder's pre-condition whenever a Fermi level exists, the Fermi function is a
  decreasing map into (0, 1), the entropy term is non-positive.
"""

from __future__ import annotations

import ast
import time
from fractions import Fraction

import numpy as np
import z3

from pycv.framework import DISCHARGED, REFUTED, UNDECIDED, Obligation, Result, register
from pycv.wp.execute import Closure, LoopSpec
from pycv.wp.explore import check_valid, discharge_obligations, explore, named
from pycv.wp.interp import Obj, OutsideSubset, PyRaise, Sym, World
from pycv.wp.numext import NUM_EXT

PROP = "C13"


def gen_occ(w, tag="o"):
    O = w.module("eminus.occupations").get_class("Occupations")
    o = Obj(O, {})
    f = o.fields
    for n in ("_Nelec", "_Nspin", "_charge", "_Nstate", "_Nempty", "_Nk", "_bands", "_spin"):
        f[n] = named(w, f"{tag}.{n}", "int")
    f["_smearing"] = named(w, f"{tag}._smearing", "real")
    f["is_filled"] = named(w, f"{tag}.is_filled", "bool")
    f["_wk"] = named(w, f"{tag}._wk")
    f["_f"] = named(w, f"{tag}._f")
    return o


def typing(o):
    f = o.fields
    return [z3.Or(f["_Nspin"].e == 1, f["_Nspin"].e == 2), f["_Nelec"].e >= 0, f["_bands"].e >= 0, f["_Nk"].e >= 1,
            f["_smearing"].e >= 0, f["_spin"].e >= 0, z3.Implies(f["_Nspin"].e == 1, f["_spin"].e == 0)]


# -------------------------------------------------------------------------------------------------
# charge bookkeeping
# -------------------------------------------------------------------------------------------------


class ChargeDelta:
    """occ.charge = v: Nelec' - Nelec == charge - v and charge' == v (any state, any order of assignments)."""

    def __call__(self, ob, tier, seed):
        w = World()
        o = gen_occ(w)
        v = named(w, "v", "int")
        base = typing(o)
        ne0, ch0 = o.fields["_Nelec"].e, o.fields["_charge"].e

        def run(it):
            from contracts.state_common import clone

            s = clone(o)
            it.set_attr(s, "charge", v)
            return None, s

        try:
            res = explore(w, run, assumptions=base)
        except OutsideSubset as e:
            return Result(UNDECIDED, backend="engine-Z", detail=str(e))
        for r in res:
            if r.outcome != "return":
                continue
            s = r.state
            goal = z3.And(s.fields["_Nelec"].e == ne0 + ch0 - v.e if isinstance(s.fields["_Nelec"], Sym) else z3.BoolVal(False),
                          (s.fields["_charge"].e if isinstance(s.fields["_charge"], Sym) else z3.IntVal(s.fields["_charge"])) == v.e)
            verdict, model = check_valid(w, r.path.pc, goal)
            if verdict == "proved":
                continue
            if verdict == "unknown":
                return Result(UNDECIDED, backend="z3", detail=str(model))
            wit = dict(Nelec=model.eval(ne0, model_completion=True).as_long(), charge=model.eval(ch0, model_completion=True).as_long(),
                       new_charge=model.eval(v.e, model_completion=True).as_long())
            ok, info = self.replay(wit)
            return Result(REFUTED, backend="z3", witness=wit, replayed=ok, replay_info=info, solver_output=str(model)[:800],
                          detail=f"charge setter: from Nelec={wit['Nelec']}, charge={wit['charge']} setting charge={wit['new_charge']} "
                                 f"does not change Nelec by the charge difference")
        return Result(DISCHARGED, backend="z3", stats=dict(paths=len(res)))

    def replay(self, wit):
        import eminus
        from eminus.occupations import Occupations

        eminus.config.backend = "numpy"
        o = Occupations()
        o._Nelec, o._charge = int(wit["Nelec"]), int(wit["charge"])
        o.charge = int(wit["new_charge"])
        want = wit["Nelec"] + wit["charge"] - wit["new_charge"]
        return bool(o.Nelec != want or o.charge != wit["new_charge"]), dict(Nelec_after=int(o.Nelec), expected=int(want), charge_after=int(o.charge))


# -------------------------------------------------------------------------------------------------
# Fermi level: objective and bracket
# -------------------------------------------------------------------------------------------------


def _efermi_world():
    w = World()
    m = w.module("eminus.tools")
    occ = gen_occ(w, "occ")
    wk_arr = z3.Array("wk", z3.IntSort(), z3.RealSort())
    from pycv.wp.interp import Val

    occ.fields["_wk"] = Sym(z3.Const("occ.wk", Val), "val", {"zarray": wk_arr})
    return w, m, occ, wk_arr


class EfermiObjective:
    """electron_root(mu) == (2/Nspin) sum_k wk[k] * S_k(mu) - Nelec with S_k = sum over the states of k of the Fermi function:
    proved with a loop invariant over k (any number of k-points / states / weights)."""

    def __call__(self, ob, tier, seed):
        w, m, occ, wk_arr = _efermi_world()
        eps = named(w, "epsilon")
        mu = named(w, "mu", "real")
        captured = {}
        PS = z3.Function("PS", z3.IntSort(), z3.RealSort())  # ghost: partial k-weighted sum
        SK = {}

        def root_scalar(it, args, kwargs):
            captured["f"] = args[0]
            captured["bracket"] = kwargs.get("bracket")
            return it.w.fresh("rootres", "val")

        def xp_sum(it, args, kwargs):
            # state sum of one k-point: an (uninterpreted) real function of the summed array
            r = it.w.uf("statesum", [args[0]], "real")
            return r

        def accumulator(it):
            """The accumulated local: the one name the loop body updates with `+=` / `x = x + ...` (role read off the AST, not its name)."""
            node = it.loop_node
            names = {n.target.id for n in node.body if isinstance(n, ast.AugAssign) and isinstance(n.op, ast.Add) and isinstance(n.target, ast.Name)}
            names |= {n.targets[0].id for n in node.body if isinstance(n, ast.Assign) and isinstance(n.targets[0], ast.Name) and isinstance(n.value, ast.BinOp)
                      and isinstance(n.value.op, ast.Add) and any(isinstance(x, ast.Name) and x.id == n.targets[0].id for x in (n.value.left, n.value.right))}
            if len(names) != 1:
                raise OutsideSubset(f"k-point loop without a single accumulated local: {sorted(names)}")
            return names.pop()

        def inv(it, env, idx):
            v = env[accumulator(it)]
            e = it.as_z3(v, "real")
            if e is None:
                raise OutsideSubset("the accumulated electron count is not numeric")
            return e == PS(idx)

        specs = {("for", "range(occ.Nk)", "*"): LoopSpec(lambda it, env: {accumulator(it): "real"}, inv, havoc_assigned=True)}
        ext = dict(NUM_EXT)
        ext.update({"root_scalar": root_scalar, "xp.sum": xp_sum, "xp.min": lambda it, a, k: it.w.uf("xp.min", a, "real"),
                    "xp.max": lambda it, a, k: it.w.uf("xp.max", a, "real")})
        base = typing(occ) + [occ.fields["_smearing"].e > 0, PS(0) == 0]
        state = {}

        def run(it):
            captured.clear()  # per path: EVERY path with a positive width has to reach the root finder
            f = it.lookup_global("get_Efermi", m)
            it.call(f, [occ, eps], {})
            fn = captured.get("f")
            if fn is None:
                raise OutsideSubset("a path with smearing > 0 returns without calling the root finder")
            # the recursive definition of the ghost sum uses the state-sum term of the arbitrary iteration
            val = it.call(fn, [mu], {})
            return val, None

        try:
            res = explore(w, run, assumptions=base, ext=ext, loop_specs=specs)
        except OutsideSubset as e:
            # outside the modelled subset: the contract is evaluated natively (a failure is a refutation by a concrete input, a pass proves nothing)
            wit = dict(clause="native", reason=str(e)[:200])
            ok, info = self.replay(wit)
            if ok:
                return Result(REFUTED, backend="native", witness=wit, replayed=True, replay_info=info, detail=f"smeared fillings through get_Efermi do not sum to Nelec: {info}")
            return Result(UNDECIDED, backend="engine-Z", detail=str(e))
        # obligations: invariant entry / preservation need the definition PS(i+1) = PS(i) + wk[i] * S_i where S_i is the term the
        # body computed; we *define* PS that way and then require the body's increment to be exactly wk[i] * statesum(...)
        nobl = 0
        for r in res:
            if r.outcome not in ("return", "cut"):
                # a feasible path with a positive width that does not end in the objective of the root finder (an exception in the traced code)
                wit = dict(clause="native", reason=f"path outcome {r.outcome}")
                ok, info = self.replay(wit)
                if ok:
                    return Result(REFUTED, backend="native", witness=wit, replayed=True, replay_info=info, detail=f"get_Efermi with a positive smearing width does not reach the root finder on every path ({r.outcome}): {info}")
                return Result(UNDECIDED, backend="engine-Z", detail=f"a path with smearing > 0 ends with {r.outcome}; the native evaluation passes")
            for label, pc, formula in r.interp.obligations:
                if "preserved" in label:
                    # formula: occ_sum' == PS(i+1). Under the hypothesis occ_sum == PS(i) (in pc) this requires
                    # PS(i+1) - PS(i) == increment. We check the *shape* of the increment instead: it must be wk[i] * statesum(t)
                    lhs = formula.arg(0)
                    i1 = formula.arg(1).arg(0)
                    i = z3.simplify(i1 - 1)
                    inc = z3.simplify(lhs - PS(i))
                    ok_shape = False
                    # find statesum applications in inc
                    ss = [t for t in _subterms(inc) if z3.is_app(t) and t.decl().name().startswith("statesum")]
                    for t in ss:
                        v, _ = check_valid(w, pc, inc == z3.Select(wk_arr, i) * t)
                        if v == "proved":
                            ok_shape = True
                            SK["term"] = t
                    nobl += 1
                    if not ok_shape:
                        wit = dict(clause="objective", increment=str(inc)[:300])
                        ok, info = self.replay(wit)
                        return Result(REFUTED, backend="z3", witness=wit, replayed=ok, replay_info=info,
                                      detail="the contribution of k-point ik to the electron count is not wk[ik] * sum_states fermi(e[ik], mu): "
                                             f"increment = {str(inc)[:200]}")
                elif "entry" in label:
                    v, mdl = check_valid(w, pc, formula)
                    nobl += 1
                    if v != "proved":
                        return Result(UNDECIDED if v == "unknown" else REFUTED, backend="z3", detail=f"{label}: {v}")
                else:
                    v, mdl = check_valid(w, pc, formula)
                    nobl += 1
                    if v != "proved":
                        return Result(UNDECIDED, backend="z3", detail=f"{label}: {v}")
            if r.outcome == "return":
                val = r.value
                e = r.interp.as_z3(val, "real") if not isinstance(val, (int, float)) else z3.RealVal(val)
                if e is None:
                    return Result(UNDECIDED, backend="engine-Z", detail="objective is not numeric")
                nk = occ.fields["_Nk"].e
                want = PS(z3.If(nk > 0, nk, 0)) * 2 / z3.ToReal(occ.fields["_Nspin"].e) - z3.ToReal(occ.fields["_Nelec"].e)
                v, mdl = check_valid(w, r.path.pc, e == want)
                nobl += 1
                if v != "proved":
                    wit = dict(clause="objective-final")
                    ok, info = self.replay(wit)
                    return Result(REFUTED if v == "refuted" else UNDECIDED, backend="z3", witness=wit, replayed=ok, replay_info=info,
                                  detail="electron_root(mu) != (2/Nspin) * sum_k wk[k] S_k(mu) - Nelec")
        if nobl == 0:
            return Result(UNDECIDED, backend="engine-Z", detail="no obligations generated")
        return Result(DISCHARGED, backend="z3", stats=dict(paths=len(res), obligations=nobl))

    def replay(self, wit):
        """unequal k-point weights, k-dependent spectra: the smeared fillings must sum to Nelec with the weights."""
        import eminus
        from eminus.occupations import Occupations

        eminus.config.backend = "numpy"
        o = Occupations()
        o.Nelec, o.Nspin, o.spin, o.charge = 4, 1, 0, 0
        o.smearing = 0.05
        o.wk = [0.25, 0.75]
        o.bands = 4
        o.fill()
        eps = np.array([[[-0.5, -0.1, 0.0, 0.2]], [[-0.3, 0.05, 0.1, 0.4]]])
        try:
            o.smear(eps)
        except Exception as e:  # noqa: BLE001
            return True, dict(weights=[0.25, 0.75], smearing=0.05, raised=f"{type(e).__name__}: {e}")
        tot = float(np.sum(np.asarray(o.wk)[:, None, None] * np.asarray(o.f)))
        return bool(abs(tot - 4) > 1e-8), dict(weights=[0.25, 0.75], weighted_filling_sum=tot, Nelec=4)


def _subterms(e, seen=None):
    seen = {} if seen is None else seen
    if e.get_id() in seen:
        return []
    seen[e.get_id()] = e
    out = [e]
    for c in e.children():
        out.extend(_subterms(c, seen))
    return out


class EfermiBracket:
    """Call-site obligation: root_scalar requires f(a) f(b) < 0 for the bracket it is given. Instance with one k-point, two
    states e0 <= e1, abstract decreasing Fermi function F: (0 < Nelec*Nspin/2 < 2, i.e. a Fermi level exists) must imply
    a sign change between the bracket ends computed by the real code."""

    def __call__(self, ob, tier, seed):
        w, m, occ, wk_arr = _efermi_world()
        e0, e1 = z3.Real("e0"), z3.Real("e1")
        F = z3.Function("F", z3.RealSort(), z3.RealSort())
        x, y = z3.Reals("x y")
        kT = occ.fields["_smearing"].e
        ax = [z3.ForAll([x], z3.And(F(x) > 0, F(x) < 1)), z3.ForAll([x, y], z3.Implies(x < y, F(x) > F(y))), F(0) == 0.5,
              z3.ForAll([x], F(x) + F(-x) == 1),
              # exp(-36) < 3e-16: far outside the spectrum the occupation is (numerically) empty / full
              z3.ForAll([x], z3.Implies(x >= 36, F(x) < z3.RealVal("1/1000000")))]
        captured = {}

        def root_scalar(it, args, kwargs):
            captured["f"] = args[0]
            captured["bracket"] = kwargs.get("bracket")
            return it.w.fresh("rootres", "val")

        from pycv.wp.execute import Vec

        eps = [Vec([Vec([Sym(e0, "real"), Sym(e1, "real")])])]  # epsilon[ik][spin] -> states

        def fermi(it, args, kwargs):
            E, mu_, kbt = args

            def one(v):
                return Sym(F((it.as_z3(v, "real") - it.as_z3(mu_, "real")) / it.as_z3(kbt, "real")), "real")

            def rec(v):
                if isinstance(v, list):
                    return Vec([rec(t) for t in v])
                return one(v)

            return rec(E)

        def xsum(it, args, kwargs):
            tot = 0

            def rec(v):
                nonlocal tot
                if isinstance(v, list):
                    for t in v:
                        rec(t)
                else:
                    tot = it.binop(ast.Add, tot, v)

            rec(args[0])
            return tot

        def xmin(it, args, kwargs):
            return Sym(e0, "real")

        def xmax(it, args, kwargs):
            return Sym(e1, "real")

        ext = dict(NUM_EXT)
        ext.update({"root_scalar": root_scalar, "func:fermi_distribution": fermi, "xp.sum": xsum, "xp.min": xmin, "xp.max": xmax})
        ne, ns = occ.fields["_Nelec"].e, occ.fields["_Nspin"].e
        nkc = occ.fields["_Nk"].e
        base = [c for c in typing(occ) if not any(t.eq(nkc) for t in _subterms(c))] + [kT > 0, e0 <= e1, z3.Select(wk_arr, 0) == 1,
                                                                      ne >= 1, z3.ToReal(ne) * z3.ToReal(ns) / 2 < 2]
        occ.fields["_Nk"] = 1  # one k-point: the loop over k is unrolled

        def run(it):
            f = it.lookup_global("get_Efermi", m)
            it.call(f, [occ, eps], {})
            fn, br = captured.get("f"), captured.get("bracket")
            if fn is None or br is None:
                raise OutsideSubset("root_scalar(bracket=...) was not called")
            fa = it.call(fn, [br[0]], {})
            fb = it.call(fn, [br[1]], {})
            return (fa, fb, br), None

        try:
            res = explore(w, run, assumptions=base, ext=ext, unroll=4)
        except OutsideSubset as e:
            return Result(UNDECIDED, backend="engine-Z", detail=str(e))
        for r in res:
            if r.outcome != "return":
                continue
            fa, fb, br = r.value
            za, zb = r.interp.as_z3(fa, "real"), r.interp.as_z3(fb, "real")
            s = z3.Solver()
            s.set("timeout", 30000)
            s.add(*r.path.pc)
            # ground instances of the Fermi-function lemmas for the arguments that actually occur
            args = [z3.RealVal(0)]
            for t in _subterms(za) + _subterms(zb):
                if z3.is_app(t) and t.decl().name() == "F":
                    if not any(t.arg(0).eq(a) for a in args):
                        args.append(t.arg(0))
            for a in args:
                s.add(F(a) > 0, F(a) < 1, z3.Implies(a >= 36, F(a) < z3.RealVal("1/1000000")),
                      z3.Implies(a <= -36, F(a) > 1 - z3.RealVal("1/1000000")), z3.Implies(a == 0, F(a) == 0.5))
                for b in args:
                    s.add(z3.Implies(a < b, F(a) > F(b)), z3.Implies(a == -b, F(a) + F(b) == 1))
            s.add(z3.Not(za * zb < 0))
            c = s.check()
            if c == z3.unsat:
                continue
            if c == z3.unknown:
                return Result(UNDECIDED, backend="z3", detail="z3 unknown on the bracket obligation")
            mdl = s.model()
            wit = dict(Nelec=mdl.eval(ne, model_completion=True).as_long(), Nspin=mdl.eval(ns, model_completion=True).as_long(),
                       model=str(mdl)[:600])
            ok, info = self.replay(wit)
            return Result(REFUTED, backend="z3", witness=wit, replayed=ok, replay_info=info, solver_output=str(mdl)[:1500],
                          detail=f"the bracket handed to root_scalar has no sign change for Nelec={wit['Nelec']}, Nspin={wit['Nspin']} in two states "
                                 "although a Fermi level exists (narrow spectrum)")
        return Result(DISCHARGED, backend="z3", stats=dict(paths=len(res)))

    def replay(self, wit):
        import eminus
        from eminus.occupations import Occupations
        from eminus.tools import get_Efermi

        eminus.config.backend = "numpy"
        tried = []
        for ne, ns in ((int(wit.get("Nelec", 3)), int(wit.get("Nspin", 1))), (3, 1), (1, 1), (1, 2)):
            for spread in (1e-4, 1e-2, 0.0):
                o = Occupations()
                o.Nelec, o.Nspin, o.spin, o.charge = ne, ns, (ne % 2 if ns == 2 else 0), 0
                o.smearing = 0.01
                o.wk = [1.0]
                eps = np.array([[[0.1, 0.1 + spread]] * ns])
                if ne * ns / 2 >= 2:
                    continue
                try:
                    ef = get_Efermi(o, eps)
                    tried.append(dict(Nelec=ne, Nspin=ns, spread=spread, Efermi=float(ef)))
                except ValueError as e:
                    return True, dict(Nelec=ne, Nspin=ns, epsilon=eps.tolist(), smearing=0.01, raised=f"ValueError: {e}")
        return False, dict(tried=tried)


class FermiFunction:
    """fermi_distribution(E, mu, kT) in (0, 1) and strictly decreasing in E (engine A: exact derivative and sign analysis)."""

    def __call__(self, ob, tier, seed):
        from pycv.algebra import core as A
        from pycv.algebra.backend import make_loader

        C = A.new_ctx()
        ld = make_loader(native_extra=("eminus",))
        fd = ld.get("eminus.tools", "fermi_distribution")
        E, mu = C.var("E"), C.var("mu")
        kT = C.var("kT", positive=True)
        arr = np.empty((1,), dtype=object)
        arr[0] = E
        f = fd(arr, mu, kT)[0]
        # f = 1/(exp(x)+1): positivity and f < 1 from the sign analysis (all generators positive)
        if f.sign_or_none() != 1:
            return Result(REFUTED, backend="engine-A", detail="fermi_distribution is not provably positive", witness=dict(clause="range"))
        if (1 - f).sign_or_none() != 1:
            # 1 - f = exp(x)/(exp(x)+1): check through the exact identity
            ex = A.exp((E - mu) / kT)
            if not A.is_zero((1 - f) - ex * f, budget=10) or (ex * f).sign_or_none() != 1:
                return Result(REFUTED, backend="engine-A", detail="1 - fermi_distribution is not provably positive", witness=dict(clause="range"))
        d = A.D(f, E)
        if d.sign_or_none() != -1:
            ex = A.exp((E - mu) / kT)
            want = -(ex * f * f) / kT
            if not A.is_zero(d - want, budget=10) or want.sign_or_none() != -1:
                return Result(REFUTED, backend="engine-A", detail=f"d fermi/dE is not provably negative: {A.fmt(d, 6)}", witness=dict(clause="monotone"))
        return Result(DISCHARGED, backend="algebra-normaliser+sign-analysis")


class EntropyNonPositive:
    """electronic_entropy <= 0 on both branches: f log f + (1-f) log(1-f) with 0 < f < 1 (lemma: log x < 0 on (0,1))."""

    def __call__(self, ob, tier, seed):
        w = World()
        m = w.module("eminus.tools")
        E, mu = named(w, "E", "real"), named(w, "mu", "real")
        kT = named(w, "kT", "real")
        LOG = z3.Function("log", z3.RealSort(), z3.RealSort())
        x = z3.Real("x")
        ax = [z3.ForAll([x], z3.Implies(z3.And(x > 0, x < 1), LOG(x) < 0))]
        f = z3.Real("f")

        def fermi(it, args, kwargs):
            it.p.pc.append(z3.And(f > 0, f < 1))  # post-condition of fermi_distribution (C13.fermi_distribution.range_monotone)
            return Sym(f, "real")

        def mlog(it, args, kwargs):
            return Sym(LOG(it.as_z3(args[0], "real")), "real")

        ext = {"func:fermi_distribution": fermi, "math.log": mlog, "xp.log": mlog}

        def run(it):
            fn = it.lookup_global("electronic_entropy", m)
            return it.call(fn, [E, mu, kT], {}), None

        try:
            res = explore(w, run, assumptions=[kT.e > 0], ext=ext)
        except OutsideSubset as e:
            return Result(UNDECIDED, backend="engine-Z", detail=str(e))
        for r in res:
            if r.outcome != "return":
                return Result(UNDECIDED, backend="engine-Z", detail=f"path ended with {r.outcome}")
            v = r.value
            e = r.interp.as_z3(v, "real") if not isinstance(v, (int, float)) else z3.RealVal(v)
            if e is None:
                return Result(UNDECIDED, backend="engine-Z", detail="entropy value is not numeric")
            verdict, model = check_valid(w, list(r.path.pc) + ax, e <= 0)
            if verdict != "proved":
                return Result(REFUTED if verdict == "refuted" else UNDECIDED, backend="z3", detail="electronic_entropy can be positive",
                              witness=dict(clause="entropy"), solver_output=str(model)[:500])
        return Result(DISCHARGED, backend="z3", stats=dict(paths=len(res)))

    def replay(self, wit):
        import eminus
        from eminus.tools import electronic_entropy

        eminus.config.backend = "numpy"
        bad = [x for x in np.linspace(-40, 40, 401) if electronic_entropy(float(x), 0.0, 1.0) > 1e-15]
        return bool(bad), dict(positive_at=bad[:5])


class Canary:
    def __call__(self, ob, tier, seed):
        w = World()
        o = gen_occ(w)
        v = named(w, "v", "int")
        ne0 = o.fields["_Nelec"].e

        def run(it):
            from contracts.state_common import clone

            s = clone(o)
            it.set_attr(s, "charge", v)
            return None, s

        for r in explore(w, run, assumptions=typing(o)):
            verdict, _ = check_valid(w, r.path.pc, r.state.fields["_Nelec"].e == ne0)  # false: Nelec changes
            if verdict == "refuted":
                return Result(REFUTED, backend="z3", detail="canary")
        return Result(DISCHARGED, detail="canary not refuted")


def _register():
    Z = ("engineZ", "z3")
    register(Obligation(name="C13.charge.delta", prop=PROP, engine="Z", functions=["eminus.occupations:Occupations"], run=ChargeDelta(),
                        assumes=Z, doc="charge setter: Nelec' = Nelec + charge - charge' from every state"))
    register(Obligation(name="C13.get_Efermi.objective_is_k_weighted_count", prop=PROP, engine="Z",
                        functions=["eminus.tools:get_Efermi", "eminus.tools:fermi_distribution"], run=EfermiObjective(),
                        assumes=Z + ("root_scalar",), doc="electron_root(mu) = (2/Nspin) sum_k wk[k] sum_i fermi(e_ki, mu) - Nelec (loop invariant over k)"))
    register(Obligation(name="C13.get_Efermi.bracket_precondition", prop=PROP, engine="Z", functions=["eminus.tools:get_Efermi"],
                        run=EfermiBracket(), assumes=Z + ("root_scalar",),
                        doc="the bracket handed to root_scalar has a sign change whenever a Fermi level exists (1 k-point, 2 states, any spectrum)"))
    register(Obligation(name="C13.fermi_distribution.range_monotone", prop=PROP, engine="A", functions=["eminus.tools:fermi_distribution"],
                        run=FermiFunction(), assumes=("engineA", "reals"), doc="0 < fermi < 1 and d fermi/dE < 0"))
    register(Obligation(name="C13.electronic_entropy.nonpositive", prop=PROP, engine="Z", functions=["eminus.tools:electronic_entropy"],
                        run=EntropyNonPositive(), assumes=Z + ("callee-contract",), doc="entropy term <= 0 on the cut-off branch and the regular branch"))
    register(Obligation(name="C13.canary.charge_keeps_Nelec", prop=PROP, engine="Z", functions=["eminus.occupations:Occupations"],
                        run=Canary(), canary=True, doc="'the charge setter never changes Nelec' must be refuted"))


_register()


# -------------------------------------------------------------------------------------------------
# fill(): integer and fractional filling loops (abstract arrays with ghost sums, loop invariants)
# -------------------------------------------------------------------------------------------------

from pycv.wp.numext import ARR_EXT, Mat2, Rep3, RowArr  # noqa: E402


def _filled_world(Nspin, fractional=False):
    w = World()
    occ = gen_occ(w, "occ")
    occ.fields["_Nspin"] = Nspin
    occ.fields["is_filled"] = False
    ne, sp = occ.fields["_Nelec"].e, occ.fields["_spin"].e
    base = [ne >= 1, occ.fields["_bands"].e >= 0, occ.fields["_Nk"].e >= 1, occ.fields["_smearing"].e >= 0, sp >= 0]
    if Nspin == 1:
        occ.fields["_spin"] = 0
    else:
        base += [sp <= ne]
        base += [(ne % 2 != sp % 2) if fractional else (ne % 2 == sp % 2)]
    return w, occ, base


def _overflow_loop(node):
    """Structural key of the overflow-removal loops: `while <rest>[<row>]? > 0:` whose body counts a local up by one."""
    t = node.test
    return (isinstance(node, ast.While) and isinstance(t, ast.Compare) and len(t.ops) == 1 and isinstance(t.ops[0], ast.Gt)
            and isinstance(t.comparators[0], ast.Constant) and t.comparators[0].value == 0 and _roles(node) is not None)


def _roles(node):
    """The names the loop uses for its roles, read off its AST: (rest variable, row-index expression or None, counter variable)."""
    t = node.test.left
    if isinstance(t, ast.Name):
        rest, row = t.id, None
    elif isinstance(t, ast.Subscript) and isinstance(t.value, ast.Name):
        rest, row = t.value.id, t.slice
    else:
        return None
    counters = [n.target.id for n in ast.walk(node) if isinstance(n, ast.AugAssign) and isinstance(n.op, ast.Add) and isinstance(n.target, ast.Name)
                and isinstance(n.value, ast.Constant) and n.value.value == 1]
    if len(set(counters)) != 1:
        return None
    if row is None:
        # the row is the one the body indexes: self._f[<row>, -counter]
        rows = {ast.unparse(n.slice.elts[0]) for n in ast.walk(node) if isinstance(n, ast.Subscript) and isinstance(n.slice, ast.Tuple) and len(n.slice.elts) == 2
                and ast.unparse(n.value) == "self._f"}
        if len(rows) != 1:
            return None
        row = ast.parse(rows.pop(), mode="eval").body
    return rest, row, counters[0]


def _while_spec():
    """Loop contract of the overflow-removal loops `while rest[...] > 0` (see DESIGN appendix B), stated over ROLES that are read off the loop's
    AST (the variable compared with 0, the counter that is incremented, the row of self._f that is indexed), not over the names the code uses.

    ghost: C = number of columns, f = filling value (parameter of the method), tgt = total(row) - rest in the state in which the loop is entered.
    Invariant: i >= 1, rest >= 0, total(row) - rest == tgt, rest <= f*(C - i + 1),
      columns 0..C-i of the row still hold f, columns C-i+1.. hold 0; every other row is untouched."""
    from pycv.wp.execute import Vec

    def roles(it):
        r = _roles(it.loop_node)
        if r is None:
            raise OutsideSubset("overflow loop without the expected roles")
        return r

    def get(it, env):
        rest_name, row_expr, cnt = roles(it)
        self_ = env["self"]
        mat = self_.fields["_f"]
        if not isinstance(mat, Mat2):
            raise OutsideSubset("fillings are not an abstract array")
        r = it.eval(row_expr, env)
        if isinstance(r, Sym):
            raise OutsideSubset("symbolic row index")
        r = int(r)
        return mat, mat.rows[r], r

    def rest_of(it, env):
        rest_name, row_expr, cnt = roles(it)
        rest = env[rest_name]
        if isinstance(rest, Vec):
            rest = rest[get(it, env)[2]]
        return it.as_z3(rest, "real")

    def on_entry(it, env):
        mat, row, r = get(it, env)
        env["__tgt"] = row.total - rest_of(it, env)

    def havoc_row(it, env, tag):
        mat, row, r = get(it, env)
        mat.rows[r] = RowArr.fresh(it.w, f"row{tag}", row.n)
        return None

    def havoc_rest(it, env, tag):
        cur = env[roles(it)[0]]
        if isinstance(cur, Vec):
            r = get(it, env)[2]
            new = Vec(cur)
            new[r] = it.w.fresh(f"rest{tag}", "real")
            return new
        return it.w.fresh(f"rest{tag}", "real")

    def vars_(it, env):
        rest_name, row_expr, cnt = roles(it)
        return {rest_name: havoc_rest, cnt: "int", "self._f": havoc_row}

    def inv(it, env, idx):
        mat, row, r = get(it, env)
        f = it.as_z3(env["f"], "real")
        C = row.nz()
        i = it.as_z3(env[roles(it)[2]], "int")
        rest = rest_of(it, env)
        tgt = env["__tgt"]
        c = z3.Int("c!inv")
        return z3.And(
            i >= 1, rest >= 0, row.total - rest == tgt, rest <= f * z3.ToReal(C - i + 1),
            z3.ForAll([c], z3.Implies(z3.And(c >= 0, c <= C - i), z3.Select(row.elems, c) == f)),
            z3.ForAll([c], z3.Implies(z3.And(c > C - i, c < C), z3.Select(row.elems, c) == 0)),
        )

    def variant(it, env):
        mat, row, r = get(it, env)
        return row.nz() - it.as_z3(env[roles(it)[2]], "int") + 1

    return LoopSpec(vars_, inv, variant, on_entry=on_entry)


class Fillings:
    """Post-conditions of fill() on the real Occupations code for a symbolic electron count / spin / band count / smearing:
    sum of the fillings == Nelec, 0 <= f_i <= 2/Nspin, up - down == spin, same fillings for every k-point."""

    def __init__(self, Nspin, fractional=False, magnetization=False, f=None):
        self.Nspin, self.fractional, self.magnetization = Nspin, fractional, magnetization
        self.f = f  # explicit scalar filling handed to fill() (None: the default 2 / Nspin)

    def __call__(self, ob, tier, seed):
        Nspin = self.Nspin
        w, occ, base = _filled_world(Nspin, self.fractional)
        mag = None
        if self.magnetization:
            mag = named(w, "m", "real")
            base = [c for c in base if "%" not in str(c)] + [mag.e >= -1, mag.e <= 1]
        ne = occ.fields["_Nelec"].e
        sp = occ.fields["_spin"].e if isinstance(occ.fields["_spin"], Sym) else z3.IntVal(0)
        specs = {("while", _overflow_loop): _while_spec()}

        def run(it):
            from contracts.state_common import clone

            s = clone(occ)
            f = it.get_attr(s, "fill")
            it.call(f, [] if self.f is None else [float(self.f)], {} if mag is None else {"magnetization": mag})
            return None, s

        try:
            res = explore(w, run, assumptions=base, ext=ARR_EXT, loop_specs=specs, max_paths=2000)
        except OutsideSubset as e:
            return Result(UNDECIDED, backend="engine-Z", detail=f"outside subset: {e}")
        nobl, fails = discharge_obligations(w, res)
        if fails:
            label, v, model = fails[0]
            if v == "unknown":
                return Result(UNDECIDED, backend="z3", detail=f"{label}: z3 unknown")
            return self._refute(f"obligation `{label}` fails", model, ne, sp, w)
        npost = 0
        slow = {}
        fval = 2.0 / Nspin if self.f is None else float(self.f)
        for r in res:
            if r.outcome == "cut":
                continue
            if r.outcome != "return":
                return Result(UNDECIDED, backend="engine-Z", detail=f"path ended with {r.outcome}: {r.value}")
            s = r.state
            final = s.fields["_f"]
            if not isinstance(final, Rep3):
                return self._refute("the final fillings are not the same array repeated for every k-point", None, ne, sp, w)
            mat = final.mat
            goals = [("sum of fillings == Nelec", mat.total() == z3.ToReal(ne)),
                     ("one copy per k-point", (final.n if not isinstance(final.n, int) else z3.IntVal(final.n)) == occ.fields["_Nk"].e)]
            c = z3.Int("c!post")
            for k, row in enumerate(mat.rows):
                goals.append((f"0 <= f[{k}, c] <= {fval}", z3.ForAll([c], z3.Implies(z3.And(c >= 0, c < row.nz()),
                                                                            z3.And(z3.Select(row.elems, c) >= 0, z3.Select(row.elems, c) <= fval)))))
                ns = s.fields["_Nstate"]
                goals.append(("Nstate == number of columns", row.nz() == (ns.e if isinstance(ns, Sym) else z3.IntVal(int(ns)))))
            if Nspin == 2 and mag is None:
                goals.append(("up - down == spin", mat.rows[0].total - mat.rows[1].total == z3.ToReal(sp)))
            if mag is not None:
                goals.append(("(up - down) / Nelec == requested magnetization", mat.rows[0].total - mat.rows[1].total == mag.e * z3.ToReal(ne)))
            if Nspin == 2:
                # the stored number of unpaired electrons agrees with the fillings (it is what a later refill starts from)
                spf = s.fields["_spin"]
                spz = r.interp.as_z3(spf, "real") if isinstance(spf, Sym) else z3.RealVal(spf)
                d = mat.rows[0].total - mat.rows[1].total
                if mag is None:
                    # together with `up - down == spin` (and spin >= 0): the stored spin still is the requested one
                    goals.append(("stored spin is the requested spin", spz == z3.ToReal(sp)))
                else:
                    goals.append(("stored spin == |up - down|", spz == z3.If(d >= 0, d, -d)))
            for label, g in goals:
                t0 = time.time()
                v, model = check_valid(w, r.path.pc, g, timeout_ms=30000)
                slow[label] = round(max(slow.get(label, 0.0), time.time() - t0), 2)
                npost += 1
                if v == "proved":
                    continue
                if v == "unknown":
                    # no verdict from the solver: the contract is still evaluated natively; only a concrete failing input is a refutation
                    ok, info = self.replay(dict(Nspin=self.Nspin, fractional=self.fractional))
                    if ok:
                        return Result(REFUTED, backend="native-contract-evaluation", witness=dict(Nspin=self.Nspin, clause=label), replayed=True, replay_info=info,
                                      detail=f"fill(): post-condition `{label}` fails natively (z3 gave no verdict)")
                    return Result(UNDECIDED, backend="z3", detail=f"post-condition `{label}`: z3 unknown")
                return self._refute(f"post-condition `{label}` fails", model, ne, sp, w)
        return Result(DISCHARGED, backend="z3", stats=dict(paths=len(res), loop_obligations=nobl, postconditions=npost, slowest_goal_seconds=slow))

    def _refute(self, msg, model, ne, sp, w):
        wit = dict(Nspin=self.Nspin, fractional=self.fractional)
        if model is not None:
            try:
                wit["Nelec"] = model.eval(ne, model_completion=True).as_long()
                wit["spin"] = model.eval(sp, model_completion=True).as_long()
                for nm in ("occ._bands", "occ._Nk"):
                    wit[nm] = model.eval(z3.Int(nm), model_completion=True).as_long()
                sm = model.eval(z3.Real("occ._smearing"), model_completion=True)
                wit["smearing"] = float(sm.as_fraction()) if hasattr(sm, "as_fraction") else 0.0
            except Exception:  # noqa: BLE001
                pass
        ok, info = self.replay(wit)
        return Result(REFUTED, backend="z3", witness=wit, replayed=ok, replay_info=info, solver_output=str(model)[:1500] if model is not None else "",
                      detail=f"fill() with Nspin={self.Nspin}{' (fractional)' if self.fractional else ''}: {msg}; counter-model {wit}")

    def replay(self, wit):
        """Native check of the post-conditions around the counter-model (the model fixes Nelec/spin/bands/smearing)."""
        import itertools

        import eminus
        from eminus.occupations import Occupations

        eminus.config.backend = "numpy"
        eminus.config.verbose = "critical"
        Nspin = wit["Nspin"]
        if self.f is not None:
            for ne, nk, sm, sp in itertools.product((1, 2, 3, 4, 5, 7), (1, 2), (0.0, 0.01), (0, 1, 2, 3)):
                if Nspin == 1 and sp or sp > ne or (Nspin == 2 and ne % 2 != sp % 2):
                    continue
                o = Occupations()
                o.Nelec, o.Nspin = ne, Nspin
                o.spin = sp
                o.smearing = sm
                o.wk = [1.0 / nk] * nk
                try:
                    o.fill(float(self.f))
                except Exception as e:  # noqa: BLE001
                    return True, dict(Nelec=ne, spin=sp, f=float(self.f), raised=f"{type(e).__name__}: {e}")
                f = np.asarray(o.f, dtype=float)
                tot = float(np.sum(np.asarray(o.wk)[:, None, None] * f))
                bad = []
                if abs(tot - ne) > 1e-9:
                    bad.append(f"k-weighted sum {tot} != Nelec {ne}")
                if f.min() < -1e-12 or f.max() > float(self.f) + 1e-12:
                    bad.append(f"filling outside [0, {float(self.f)}]")
                if Nspin == 2 and abs(float(f[0, 0].sum() - f[0, 1].sum()) - sp) > 1e-9:
                    bad.append(f"up - down = {float(f[0, 0].sum() - f[0, 1].sum())} != spin {sp}")
                if bad:
                    return True, dict(Nelec=ne, spin=sp, f=float(self.f), Nk=nk, smearing=sm, violated=bad, fillings=f[0].tolist())
            return False, dict(note="post-conditions hold natively for the explicit scalar filling on the scanned grid")
        if self.magnetization:
            for ne, m in itertools.product((1, 2, 3, 5, 8), (0.5, 0.25, -0.5, 0.1, 1.0, 0.0)):
                o = Occupations()
                o.Nelec, o.Nspin = ne, 2
                o.wk = [0.5, 0.5]
                try:
                    o.fill(None, m)
                except Exception as e:  # noqa: BLE001
                    return True, dict(Nelec=ne, magnetization=m, raised=f"{type(e).__name__}: {e}")
                f = np.asarray(o.f, dtype=float)
                d = float(f[0, 0].sum() - f[0, 1].sum())
                bad = []
                if abs(d - m * ne) > 1e-9:
                    bad.append(f"up - down = {d} != m Nelec = {m * ne}")
                if abs(float(o.spin) - abs(d)) > 1e-9:
                    bad.append(f"stored spin {float(o.spin)} != |up - down| = {abs(d)}")
                if abs(float(np.sum(np.asarray(o.wk)[:, None, None] * f)) - ne) > 1e-9:
                    bad.append("k-weighted sum != Nelec")
                if bad:
                    return True, dict(Nelec=ne, magnetization=m, violated=bad, f=f[0].tolist())
            return False, dict(note="post-conditions hold natively on the scanned grid of (Nelec, magnetization)")
        cands = []
        if "Nelec" in wit:
            cands.append((wit["Nelec"], wit.get("spin", 0), wit.get("occ._bands", 0), wit.get("smearing", 0.0)))
        for ne, sp, extra, sm in itertools.product(range(1, 9), range(0, 5), (0, 1, 3), (0.0, 0.01)):
            cands.append((ne, sp, extra, sm))
        for ne, sp, bands, sm in cands:
            if Nspin == 1:
                sp = 0
            if sp > ne or ((ne % 2 == sp % 2) == bool(wit.get("fractional")) and Nspin == 2):
                continue
            o = Occupations()
            o.Nelec, o.Nspin, o.spin = int(ne), Nspin, int(sp)
            o.smearing = sm
            nst_min = int(np.ceil(max(ne / 2 + sp / 2, 1) / (2 / Nspin)))
            o.bands = 0 if bands == 0 else max(int(bands), nst_min) + (bands if bands < 4 else 0)
            o.wk = [0.5, 0.5]
            try:
                o.fill()
            except Exception as e:  # noqa: BLE001
                return True, dict(Nelec=ne, spin=sp, bands=int(o.bands), smearing=sm, raised=f"{type(e).__name__}: {e}")
            f = np.asarray(o.f, dtype=float)
            tot = float(np.sum(np.asarray(o.wk)[:, None, None] * f))
            bad = []
            if abs(tot - ne) > 1e-9:
                bad.append(f"k-weighted sum {tot} != Nelec {ne}")
            if f.min() < -1e-12 or f.max() > 2 / Nspin + 1e-12:
                bad.append(f"filling outside [0, {2 / Nspin}]")
            if Nspin == 2 and abs(float(f[0, 0].sum() - f[0, 1].sum()) - sp) > 1e-9:
                bad.append(f"up-down {float(f[0, 0].sum() - f[0, 1].sum())} != spin {sp}")
            if Nspin == 2 and abs(float(o.spin) - abs(float(f[0, 0].sum() - f[0, 1].sum()))) > 1e-9:
                bad.append(f"stored spin {float(o.spin)} != |up - down|")
            if f.shape != (2, Nspin, o.Nstate):
                bad.append(f"shape {f.shape}")
            if bad:
                return True, dict(Nelec=ne, spin=sp, bands=int(o.bands), smearing=sm, violated=bad, f=f[0].tolist())
        return False, dict(note="post-conditions hold natively on the scanned grid of (Nelec, spin, bands, smearing)")


class ExplicitFillings:
    """occ.f = <explicit array>: Nelec, charge, Nspin, Nstate and spin are re-determined from the array. The real setter is executed on a
    2 x 3 array of SYMBOLIC non-negative fillings with an integral total (numpy code without loops over the states: shape-generic);
    post-conditions: Nelec == total, charge changes by the opposite of the electron-count change, Nstate == columns, spin == |sum(up) - sum(down)|."""

    def __call__(self, ob, tier, seed):
        from contracts.c10 import Arr
        from contracts.state_common import clone

        try:
            w, occ, base = _filled_world(2, False)
            f = Arr((2, 3))
            for a in range(2):
                for b in range(3):
                    f.a[a, b] = named(w, f"f{a}{b}", "real")
            tot = sum((f.a[a, b].e for a in range(2) for b in range(3)), z3.RealVal(0))
            up = sum((f.a[0, b].e for b in range(3)), z3.RealVal(0))
            dw = sum((f.a[1, b].e for b in range(3)), z3.RealVal(0))
            N = z3.Int("Ntot")
            base = [c for c in base if "%" not in str(c)] + [f.a[a, b].e >= 0 for a in range(2) for b in range(3)] + [f.a[a, b].e <= 1 for a in range(2) for b in range(3)] + [tot == z3.ToReal(N)]
            from contracts.c10 import ext_table

            ext = ext_table(w)
            ext.update({"xp.atleast_2d": lambda it, a, k: a[0], "xp.asarray": lambda it, a, k: a[0], "xp.is_array": lambda it, a, k: isinstance(a[0], Arr)})
            ne0 = occ.fields["_Nelec"].e
            ch0 = occ.fields["_charge"]
            ch0 = ch0.e if isinstance(ch0, Sym) else z3.IntVal(int(ch0))

            def run(it):
                s = clone(occ)
                it.set_attr(s, "f", f)
                return None, s

            res = explore(w, run, assumptions=base, ext=ext, max_paths=64)
            n = 0
            for r in res:
                if r.outcome == "cut":
                    continue
                if r.outcome != "return":
                    raise OutsideSubset(f"path ended with {r.outcome}: {r.value}")
                s = r.state
                it = r.interp

                def z(v, kind="real"):
                    e = it.as_z3(v, kind)
                    if e is None:
                        raise OutsideSubset(f"field is not numeric: {v!r}")
                    return e

                d = up - dw
                goals = [("Nelec == sum of the fillings", z(s.fields["_Nelec"]) == tot),
                         ("charge changes by the opposite of the electron-count change", z(s.fields["_charge"]) - z3.ToReal(ch0) == z3.ToReal(ne0) - tot),
                         ("Nstate == number of columns", z(s.fields["_Nstate"]) == 3), ("Nspin == number of rows", z(s.fields["_Nspin"]) == 2),
                         ("spin == |sum(up) - sum(down)|", z(s.fields["_spin"]) == z3.If(d >= 0, d, -d))]
                for label, g in goals:
                    v, model = check_valid(w, r.path.pc, g, timeout_ms=20000)
                    n += 1
                    if v != "proved":
                        wit = dict(clause=label)
                        ok, info = self.replay(wit)
                        return Result(REFUTED if (v == "refuted" and ok) else UNDECIDED, backend="z3", witness=wit, replayed=ok, replay_info=info, solver_output=str(model)[:1000],
                                      detail=f"occ.f = explicit array: post-condition `{label}` fails")
            if n == 0:
                return Result(UNDECIDED, backend="engine-Z", detail="no post-condition reached")
            return Result(DISCHARGED, backend="z3", stats=dict(paths=len(res), postconditions=n))
        except (OutsideSubset, PyRaise, TypeError, AttributeError, KeyError, ValueError, IndexError, z3.Z3Exception) as e:
            ok, info = self.replay({})
            if ok:
                return Result(REFUTED, backend="native-contract-evaluation", witness=dict(case="explicit arrays"), replayed=True, replay_info=info,
                              detail=f"occ.f = explicit array: attributes do not agree with the array ({type(e).__name__}: {e})")
            return Result(UNDECIDED, backend="engine-Z", detail=f"outside subset: {type(e).__name__}: {e}")

    def replay(self, wit):
        import eminus
        from eminus.occupations import Occupations

        eminus.config.backend = "numpy"
        eminus.config.verbose = "critical"
        bad = []
        for arr in ([[1, 0], [0, 1]], [[1, 1, 0], [1, 0, 1]], [[1, 1, 1], [1, 0, 0]], [[0.5, 0.5, 1], [1, 0, 0]], [[1, 0.5], [0.25, 0.25]], [[0, 0, 1], [1, 1, 0]]):
            o = Occupations()
            o.Nelec, o.Nspin = 2, 2
            c0, n0 = o.charge, o.Nelec
            o.f = arr
            a = np.asarray(arr, float)
            want = dict(Nelec=int(a.sum()), spin=abs(a[0].sum() - a[1].sum()), Nstate=a.shape[1], Nspin=2, charge=c0 + n0 - int(a.sum()))
            got = dict(Nelec=o.Nelec, spin=float(o.spin), Nstate=o.Nstate, Nspin=o.Nspin, charge=o.charge)
            if any(abs(float(want[k]) - float(got[k])) > 1e-12 for k in want):
                bad.append(dict(f=arr, expected=want, got=got))
        return bool(bad), dict(check="attributes re-determined from an explicit filling array", failing=bad[:3])


class Smear:
    """Occupations.smear(epsilon): the stored fillings are (2 / Nspin) * fermi(epsilon, Efermi) with Efermi = get_Efermi(self, epsilon), so that - by the
    contracts of the callees (C13.get_Efermi.objective_is_k_weighted_count: Efermi is a root of (2/Nspin) sum_k wk sum_states fermi - Nelec;
    C13.fermi_distribution.range_monotone: 0 <= fermi <= 1) - the k-weighted fillings sum to Nelec and lie in [0, 2/Nspin].
    Executed on a (2 k-points x Nspin x 3 states) array of symbolic Fermi factors; Nspin = 1 and 2."""

    def __call__(self, ob, tier, seed):
        from contracts.c10 import Arr, ext_table
        from contracts.state_common import clone

        n = 0
        try:
            for Nspin in (1, 2):
                w, occ, base = _filled_world(Nspin, False)
                NK, NST = 2, 3
                F = Arr((NK, Nspin, NST))
                for k in range(NK):
                    for a in range(Nspin):
                        for i in range(NST):
                            F.a[k, a, i] = named(w, f"fermi{k}{a}{i}", "real")
                wk = [named(w, f"wk{k}", "real") for k in range(NK)]
                ne = occ.fields["_Nelec"].e
                ef = named(w, "Efermi", "real")
                eps = named(w, "epsilon", "val")
                calls = {}

                def get_Efermi(it, a, k, ef=ef, calls=calls):
                    calls["Efermi"] = (a[0], a[1] if len(a) > 1 else k.get("epsilon"))
                    return ef

                def fermi(it, a, k, F=F, calls=calls):
                    calls["fermi"] = list(a)
                    return F

                ext = ext_table(w)
                ext.update({"func:get_Efermi": get_Efermi, "func:fermi_distribution": fermi})
                fl = [F.a[k, a, i].e for k in range(NK) for a in range(Nspin) for i in range(NST)]
                root = sum((wk[k].e * F.a[k, a, i].e for k in range(NK) for a in range(Nspin) for i in range(NST)), z3.RealVal(0)) * 2 / Nspin == z3.ToReal(ne)
                hyps = [c for c in base if "%" not in str(c)] + [x >= 0 for x in fl] + [x <= 1 for x in fl] + [root, occ.fields["_smearing"].e > 0]

                def run(it, occ=occ, eps=eps):
                    s_ = clone(occ)
                    f = it.get_attr(s_, "smear")
                    r = it.call(f, [eps], {})
                    return r, s_

                res = explore(w, run, assumptions=hyps, ext=ext, max_paths=32)
                for r in res:
                    if r.outcome == "cut":
                        continue
                    if r.outcome != "return":
                        raise OutsideSubset(f"smear ended with {r.outcome}: {r.value}")
                    f_ = r.state.fields["_f"]
                    if not isinstance(f_, Arr) or f_.a.shape != (NK, Nspin, NST):
                        raise OutsideSubset(f"stored fillings are {type(f_).__name__}")
                    if "fermi" not in calls or "Efermi" not in calls:
                        raise OutsideSubset("smear does not call get_Efermi / fermi_distribution")
                    fa = calls["fermi"]
                    it = r.interp
                    okargs = fa[0] is eps and fa[1] is ef and it.as_z3(fa[2], "real") is not None and calls["Efermi"][1] is eps
                    goals = [("fermi_distribution is evaluated at (epsilon, Efermi, smearing) and Efermi = get_Efermi(self, epsilon)", z3.BoolVal(bool(okargs)))]
                    if okargs:
                        goals.append(("third argument is the smearing width", it.as_z3(fa[2], "real") == occ.fields["_smearing"].e))
                    ent = [it.as_z3(f_.a[k, a, i], "real") for k in range(NK) for a in range(Nspin) for i in range(NST)]
                    if any(e is None for e in ent):
                        raise OutsideSubset("non-numeric filling")
                    tot = sum((wk[k].e * it.as_z3(f_.a[k, a, i], "real") for k in range(NK) for a in range(Nspin) for i in range(NST)), z3.RealVal(0))
                    goals += [("k-weighted fillings sum to Nelec", tot == z3.ToReal(ne)), ("0 <= f <= 2/Nspin", z3.And([z3.And(e >= 0, e <= z3.RealVal(2) / Nspin) for e in ent])),
                              ("smear returns the Fermi level", it.as_z3(r.value, "real") == ef.e if isinstance(r.value, Sym) else z3.BoolVal(False))]
                    for label, g in goals:
                        v, model = check_valid(w, r.path.pc, g, timeout_ms=20000)
                        n += 1
                        if v != "proved":
                            wit = dict(Nspin=Nspin, clause=label)
                            ok, info = self.replay(wit)
                            return Result(REFUTED if ok else UNDECIDED, backend="z3", witness=wit, replayed=ok, replay_info=info, solver_output=str(model)[:800],
                                          detail=f"smear (Nspin={Nspin}): post-condition `{label}` fails")
            if n == 0:
                return Result(UNDECIDED, backend="engine-Z", detail="no post-condition reached (smearing == 0 on every path?)")
            return Result(DISCHARGED, backend="z3", stats=dict(postconditions=n))
        except (OutsideSubset, PyRaise, TypeError, AttributeError, KeyError, ValueError, IndexError, z3.Z3Exception) as e:
            ok, info = self.replay({})
            if ok:
                return Result(REFUTED, backend="native-contract-evaluation", witness=dict(case="random spectra"), replayed=True, replay_info=info,
                              detail=f"smear: fillings violate the invariants natively ({type(e).__name__}: {e})")
            return Result(UNDECIDED, backend="engine-Z", detail=f"outside subset: {type(e).__name__}: {e}")

    def replay(self, wit):
        import eminus
        from eminus.occupations import Occupations

        eminus.config.backend = "numpy"
        eminus.config.verbose = "critical"
        rng = np.random.default_rng(5)
        bad = []
        for Nspin, ne, nst, wk in ((1, 4, 4, [0.25, 0.75]), (2, 3, 4, [0.5, 0.5]), (2, 6, 5, [0.2, 0.3, 0.5]), (1, 2, 3, [1.0])):
            o = Occupations()
            o.Nelec, o.Nspin = ne, Nspin
            o.smearing = 0.02
            o.bands = nst
            o.wk = wk
            o.fill()
            eps = np.sort(rng.uniform(-0.5, 0.5, (len(wk), Nspin, o.Nstate)), axis=2)
            try:
                ef = o.smear(eps)
            except Exception as e:  # noqa: BLE001
                bad.append(dict(Nspin=Nspin, Nelec=ne, wk=wk, raised=f"{type(e).__name__}: {e}"))
                continue
            f = np.asarray(o.f, float)
            tot = float(np.sum(np.asarray(wk)[:, None, None] * f))
            msgs = []
            if abs(tot - ne) > 1e-6:
                msgs.append(f"k-weighted sum {tot} != Nelec {ne}")
            if f.min() < -1e-12 or f.max() > 2 / Nspin + 1e-12:
                msgs.append(f"fillings outside [0, {2 / Nspin}]")
            if np.any(np.diff(f, axis=2) > 1e-12):
                msgs.append("fillings increase with the energy")
            if msgs:
                bad.append(dict(Nspin=Nspin, Nelec=ne, wk=wk, Efermi=float(ef), violated=msgs))
        return bool(bad), dict(check="invariants of the fillings after smear() on random spectra", failing=bad[:3])


def _register_fill():
    register(Obligation(name="C13.smear.fillings_invariants", prop=PROP, engine="Z", functions=["eminus.occupations:Occupations.smear", "eminus.tools:get_Efermi", "eminus.tools:fermi_distribution"],
                        run=Smear(), assumes=("engineZ", "z3", "callee-contract", "numpy-structural"),
                        doc="smear(): fillings = (2/Nspin) fermi(epsilon, get_Efermi(self, epsilon), smearing); with the callee contracts: k-weighted sum == Nelec, 0 <= f <= 2/Nspin, returns Efermi"))
    register(Obligation(name="C13.f_setter.explicit_array", prop=PROP, engine="Z", functions=["eminus.occupations:Occupations.f", "eminus.occupations:Occupations._update_from_fillings"],
                        run=ExplicitFillings(), assumes=("engineZ", "z3", "numpy-structural"),
                        doc="occ.f = explicit 2 x Nstate array (symbolic values, Nstate = 3): Nelec, charge, Nstate, Nspin and spin = |sum(up) - sum(down)| follow from the array"))
    Z = ("engineZ", "z3")
    for Nspin in (1, 2):
        register(Obligation(name=f"C13.fill.integer.Nspin{Nspin}", prop=PROP, engine="Z",
                            functions=["eminus.occupations:Occupations.fill", "eminus.occupations:Occupations._update_from_fillings",
                                       "eminus.occupations:Occupations._integer_fillings"],
                            run=Fillings(Nspin), budget={"quick": 200, "thorough": 900}, assumes=Z,
                            doc=f"fill() (Nspin={Nspin}, integer branch): sum f = Nelec, 0 <= f <= 2/Nspin, up-down = spin, Nstate columns, "
                                "same for every k-point; index validity and loop invariant of the overflow-removal loop (any Nelec, spin, bands, smearing)"))
    from fractions import Fraction as _F

    for Nspin, fv in ((1, _F(2, 3)), (1, _F(3, 2)), (1, _F(5, 4)), (2, _F(3, 4)), (2, _F(2, 3))):
        register(Obligation(name=f"C13.fill.integer.Nspin{Nspin}.f={fv}", prop=PROP, engine="Z",
                            functions=["eminus.occupations:Occupations.fill", "eminus.occupations:Occupations._integer_fillings"],
                            run=Fillings(Nspin, f=fv), budget={"quick": 200, "thorough": 900}, assumes=Z,
                            doc=f"fill({fv}) (Nspin={Nspin}, integer branch, explicit scalar filling whose multiples need not be whole electrons): sum f = Nelec, 0 <= f_i <= {fv}"))
    register(Obligation(name="C13.fill.fractional.Nspin2", prop=PROP, engine="Z",
                        functions=["eminus.occupations:Occupations.fill", "eminus.occupations:Occupations._fractional_fillings"],
                        run=Fillings(2, fractional=True), budget={"quick": 200, "thorough": 900}, assumes=Z,
                        doc="fill() (Nspin=2, parity of Nelec and spin differs -> fractional branch): same post-conditions"))
    register(Obligation(name="C13.fill.magnetization.Nspin2", prop=PROP, engine="Z",
                        functions=["eminus.occupations:Occupations.fill", "eminus.occupations:Occupations._fractional_fillings"],
                        run=Fillings(2, fractional=True, magnetization=True), budget={"quick": 300, "thorough": 900}, assumes=Z,
                        doc="fill(magnetization=m), -1 <= m <= 1: sum f = Nelec, 0 <= f <= 1, (up - down)/Nelec = m"))


_register_fill()


# ------------------------------------------------------------------------------------------------
# machine arithmetic: the entropy term in float64 (the proof above is over the reals)
# ------------------------------------------------------------------------------------------------


class EntropyFloatScan:
    """BOUNDED: in float64 the Fermi factor saturates to exactly 0.0 / 1.0 a few tens of widths away from the Fermi level; the entropy term has to
    stay finite and <= 0 there (the real-number proof cannot see the saturation). Dense scan of (E - mu) / kbT over [-80, 80] (and +-745) for several widths, scalar arguments (the
    only call form of the package: get_Eentropy loops over the states)."""

    def problems(self):
        import warnings

        import eminus
        from eminus.tools import electronic_entropy

        eminus.config.backend = "numpy"
        eminus.config.verbose = "critical"
        bad = []
        n = 0
        with warnings.catch_warnings():
            warnings.simplefilter("ignore")
            for kbT in (1e-3, 0.01, 0.3):
                xs = np.concatenate([np.linspace(-80, 80, 3201), [-36.0, 36.0, -36.7368, -37.0, -39.999, 39.999, -745.0, 745.0]])
                for x in xs:
                    n += 1
                    try:
                        v = electronic_entropy(float(x * kbT), 0.0, kbT)
                    except Exception as e:  # noqa: BLE001
                        bad.append(dict(x=float(x), kbT=kbT, raised=f"{type(e).__name__}: {e}"))
                        continue
                    v = float(v)
                    if not np.isfinite(v) or v > 1e-15:
                        bad.append(dict(x=float(x), kbT=kbT, value=v))
        return bad, n

    def __call__(self, ob, tier, seed):
        bad, n = self.problems()
        if bad:
            return Result(REFUTED, backend="native", witness=bad[0], replayed=True, replay_info=dict(failing=bad[:5], scanned=n),
                          detail=f"electronic_entropy is not finite and <= 0 in float64 at {bad[0]}")
        from pycv.framework import BOUNDED_OK

        return Result(BOUNDED_OK, backend="native", stats=dict(scanned=n), detail=f"bounded: {n} float64 evaluations over |E - mu| / kbT <= 80 (and +-745), three widths: finite and <= 0")

    def replay(self, wit):
        bad, n = self.problems()
        return bool(bad), dict(failing=bad[:5], scanned=n)


register(Obligation(name="C13.electronic_entropy.float64_finite_nonpositive", prop=PROP, engine="B", bounded=True, functions=["eminus.tools:electronic_entropy", "eminus.energies:get_Eentropy"],
                    run=EntropyFloatScan(), doc="BOUNDED (machine arithmetic): the entropy term is finite and <= 0 in float64 where the Fermi factor saturates"))


# ------------------------------------------------------------------------------------------------
# bounded: smear through the real get_Efermi (the symbolic obligation takes the Fermi level by contract)
# ------------------------------------------------------------------------------------------------


class SmearNative:
    """BOUNDED: Occupations.smear with the real get_Efermi / root finder for smearing widths from 1e-3 to 2 Hartree (the root finder must be used for every
    positive width), one or two spin channels, unequal k-point weights, ascending and unordered spectra with degeneracies: the k-weighted fillings sum to Nelec, lie in
    [0, 2/Nspin] and ARE the Fermi function of each state's own energy at the returned level (hence non-increasing in energy)."""

    def problems(self):
        import eminus
        from eminus.occupations import Occupations

        eminus.config.backend = "numpy"
        eminus.config.verbose = "critical"
        rng = np.random.default_rng(5)
        bad, n = [], 0
        for width in (1e-3, 0.01, 0.05, 0.3, 1.0, 2.0):
            for Nspin, Nelec, spin in ((1, 4, 0), (2, 5, 1), (2, 4, 0), (1, 3, 0)):
                for wk in ([1.0], [0.25, 0.75], [0.5, 0.125, 0.375]):
                    n += 1
                    o = Occupations()
                    o.Nelec, o.Nspin, o.spin, o.charge = Nelec, Nspin, spin, 0
                    o.smearing = width
                    o.wk = wk
                    o.bands = 5
                    o.fill()
                    eps = rng.uniform(-1, 1, (len(wk), Nspin, 5))
                    if (n // 3) % 2 == 0:
                        eps = np.sort(eps, axis=-1)  # half of the spectra ascending, the others in no particular order: smear() takes any spectrum
                    eps[0, 0, 1] = eps[0, 0, 2]  # a degenerate pair
                    case = dict(smearing=width, Nspin=Nspin, Nelec=Nelec, wk=wk)
                    try:
                        ef = o.smear(eps)
                    except Exception as e:  # noqa: BLE001
                        bad.append(dict(case, raised=f"{type(e).__name__}: {e}"))
                        continue
                    f = np.asarray(o.f)
                    tot = float(np.sum(np.asarray(wk)[:, None, None] * f))
                    if abs(tot - Nelec) > 1e-8 or f.min() < -1e-14 or f.max() > 2 / Nspin + 1e-14 or not np.isfinite(float(ef)):
                        bad.append(dict(case, weighted_filling_sum=tot, min=float(f.min()), max=float(f.max()), Efermi=float(ef)))
                        continue
                    # the stored fillings ARE the Fermi function of the given eigenvalues at the returned level (written out independently)
                    with np.errstate(over="ignore"):
                        want = 2 / Nspin / (np.exp((eps - float(ef)) / width) + 1)
                    if np.abs(f - want).max() > 1e-10:
                        bad.append(dict(case, fillings_differ_from_the_Fermi_function_at_the_returned_level_by=float(np.abs(f - want).max()), Efermi=float(ef)))
        return bad, n

    def __call__(self, ob, tier, seed):
        from pycv.framework import BOUNDED_OK

        try:
            bad, n = self.problems()
        except Exception as e:  # noqa: BLE001
            bad, n = [dict(raised=f"{type(e).__name__}: {e}")], 0
        if bad:
            return Result(REFUTED, backend="native", witness=bad[0], replayed=True, replay_info=dict(failing=bad[:5], cases=n),
                          detail=f"smeared fillings do not sum to Nelec within [0, 2/Nspin]: {bad[0]}")
        return Result(BOUNDED_OK, backend="native", stats=dict(cases=n), detail=f"bounded: {n} cases (6 widths 1e-3..2 x 4 fillings x 3 weight sets) through the real root finder: sum to Nelec, in range")

    def replay(self, wit):
        bad, n = self.problems()
        return bool(bad), dict(failing=bad[:5], cases=n)


register(Obligation(name="C13.smear.native_real_root_finder", prop=PROP, engine="B", bounded=True, functions=["eminus.occupations:Occupations.smear", "eminus.tools:get_Efermi"],
                    run=SmearNative(), doc="BOUNDED: smear through the real get_Efermi for widths 1e-3..2: weighted fillings sum to Nelec, in [0, 2/Nspin]"))


# ------------------------------------------------------------------------------------------------
# bounded: assignment orders that reach a FILLED object (the symbolic obligations start from an unfilled one)
# ------------------------------------------------------------------------------------------------


class RequestsOnFilledObject:
    """BOUNDED: spin, magnetisation, charge, scalar filling, bands and smearing requested on an object that is already filled (after fill(), after an earlier
    request, on the occupations of a built Atoms object): the fillings reproduce the LAST request, sum to Nelec with the k-point weights and lie in [0, 2/Nspin]."""

    def problems(self):
        import eminus
        from eminus import Atoms
        from eminus.occupations import Occupations

        eminus.config.backend = "numpy"
        eminus.config.verbose = "critical"
        bad = []

        def mk(Nelec=5, spin=1):
            o = Occupations()
            o.Nelec, o.Nspin, o.spin, o.charge = Nelec, 2, spin, 0
            o.wk = [0.25, 0.75]
            return o

        def check(o, desc, mag=None, spin=None, Nelec=None):
            f = np.asarray(o.f)
            w = np.asarray(o.wk)[:, None, None]
            tot = float(np.sum(w * f))
            got_mag = float(np.sum(w * (f[:, 0:1] - f[:, 1:2])) / tot) if tot else 0.0
            got_spin = float(np.sum(w * (f[:, 0:1] - f[:, 1:2])))
            p = {}
            if abs(tot - (o.Nelec if Nelec is None else Nelec)) > 1e-10:
                p["weighted_sum"] = tot
            if f.min() < -1e-14 or f.max() > 1 + 1e-14:
                p["range"] = [float(f.min()), float(f.max())]
            if mag is not None and abs(got_mag - mag) > 1e-10:
                p["magnetisation"] = got_mag
            if spin is not None and abs(got_spin - spin) > 1e-10:
                p["up_minus_down"] = got_spin
            if p:
                bad.append(dict(history=desc, requested=dict(magnetization=mag, spin=spin, Nelec=Nelec), observed=p))

        try:
            o = mk()
            o.fill()
            o.magnetization = 0.6
            check(o, "Nelec=5, Nspin=2, spin=1; fill(); magnetization = 0.6", mag=0.6)
            o.magnetization = 0.2
            check(o, "...; magnetization = 0.6; magnetization = 0.2", mag=0.2)
            o = mk()
            o.fill()
            o.spin = 3
            o.fill()
            check(o, "fill(); spin = 3; fill()", spin=3)
            o = mk()
            o.fill()
            o.charge = 1
            o.fill()
            check(o, "fill(); charge = 1; fill()", Nelec=4)
            o = mk(Nelec=4, spin=0)
            o.fill()
            o.magnetization = 0.5
            o.fill()
            check(o, "Nelec=4, spin=0; fill(); magnetization = 0.5; fill()", mag=0.5)
            at = Atoms("Li", [0.0, 0.0, 0.0], ecut=2, a=6, unrestricted=True)
            at.build()
            at.occ.magnetization = 0.4
            check(at.occ, "Atoms(Li, unrestricted); build(); occ.magnetization = 0.4", mag=0.4)
        except Exception as e:  # noqa: BLE001
            bad.append(dict(raised=f"{type(e).__name__}: {e}"))
        return bad

    def __call__(self, ob, tier, seed):
        from pycv.framework import BOUNDED_OK

        bad = self.problems()
        if bad:
            return Result(REFUTED, backend="native", witness=bad[0], replayed=True, replay_info=dict(failing=bad[:5]), detail=f"a request on a filled Occupations object is not reproduced: {bad[0]}")
        return Result(BOUNDED_OK, backend="native", detail="bounded: six assignment orders on filled objects (magnetisation twice, spin, charge, magnetisation on a built Atoms object): fillings reproduce the last request")

    def replay(self, wit):
        bad = self.problems()
        return bool(bad), dict(failing=bad[:5])


register(Obligation(name="C13.requests_on_filled_object", prop=PROP, engine="B", bounded=True, run=RequestsOnFilledObject(),
                    functions=["eminus.occupations:Occupations.magnetization", "eminus.occupations:Occupations.spin", "eminus.occupations:Occupations.charge", "eminus.occupations:Occupations.fill"],
                    doc="BOUNDED: assignment orders that reach an already filled object: the fillings reproduce the last request (magnetisation / spin / charge)"))


# ------------------------------------------------------------------------------------------------
# bounded: the occupations of an ATOMS object after assignment orders through the Atoms interface
# ------------------------------------------------------------------------------------------------


class AtomsLevelOrders:
    """BOUNDED: assignment orders through the Atoms interface: the k-point weights replaced by set_k with the SAME number of k-points (then smearing),
    the valence charges / species re-assigned on a charged object, charge and spin assigned in both orders: the k-weighted fillings (weights of the
    k-point object) sum to sum(Z) - charge, lie in [0, 2/Nspin] and reproduce the requested spin."""

    def problems(self):
        import eminus
        from eminus import Atoms

        eminus.config.backend = "numpy"
        eminus.config.verbose = "critical"
        bad = []

        def check(at, desc, smear=False, spin=None):
            occ = at.occ
            wk = np.asarray(at.kpts.wk)
            if smear:
                rng = np.random.default_rng(3)
                eps = np.sort(rng.uniform(-1, 1, (at.kpts.Nk, occ.Nspin, occ.Nstate)), axis=-1) + np.linspace(0, 0.4, at.kpts.Nk)[:, None, None]
                occ.smear(eps)
            f = np.asarray(occ.f)
            tot = float(np.sum(wk[:, None, None] * f))
            want = float(np.sum(np.asarray(at.Z))) - float(at.charge)
            p = {}
            if abs(tot - want) > 1e-8:
                p["k_weighted_sum_of_fillings"] = tot
                p["sum_Z_minus_charge"] = want
            if abs(float(occ.Nelec) - want) > 1e-12:
                p["Nelec"] = float(occ.Nelec)
            if f.min() < -1e-14 or f.max() > 2 / occ.Nspin + 1e-14:
                p["range"] = [float(f.min()), float(f.max())]
            if np.shape(np.asarray(occ.wk)) != wk.shape or np.abs(np.asarray(occ.wk) - wk).max() > 1e-14:
                p["weights_of_the_occupations"] = np.asarray(occ.wk).tolist()
                p["weights_of_the_kpoints"] = wk.tolist()
            if spin is not None and occ.Nspin == 2:
                got = float(np.sum(wk[:, None] * (f[:, 0] - f[:, 1])))
                if abs(got - spin) > 1e-10:
                    p["up_minus_down"] = got
            if p:
                bad.append(dict(history=desc, observed=p))

        cell = [[6.0, 0.3, 0.0], [0.0, 6.5, 0.2], [0.1, 0.0, 7.0]]
        try:
            at = Atoms(["Si", "Si"], [[0.0, 0.0, 0.0], [2.5, 2.6, 2.4]], ecut=3, a=cell)
            at.kpts.kmesh = [2, 1, 1]
            at.occ.smearing = 0.01
            at.occ.bands = 6
            at.build()
            at.set_k(np.asarray(at.kpts.k).copy(), [0.25, 0.75])
            check(at, "Si2, kmesh (2,1,1), smearing; build(); set_k(same k-points, weights (0.25, 0.75)); smear()", smear=True)
            at.set_k(np.asarray(at.kpts.k).copy(), [0.6, 0.4])
            check(at, "...; set_k(weights (0.6, 0.4)); smear()", smear=True)
            # the smeared fillings belong to the weights (0.6, 0.4): new weights WITHOUT a new smear() - the object's own fill() (through set_k / build) must
            # leave fillings whose k-weighted sum is the electron number for the weights it now carries
            at.set_k(np.asarray(at.kpts.k).copy(), [0.1, 0.9])
            check(at, "...; smear(); set_k(same k-points, weights (0.1, 0.9)) [no further smear()]")
            at.occ.smear(np.sort(np.random.default_rng(5).uniform(-1, 1, (2, at.occ.Nspin, at.occ.Nstate)), axis=-1) + np.array([0.0, 0.4])[:, None, None])
            at.kpts.wk = [0.8, 0.2]
            at.occ.wk = [0.8, 0.2]
            at.occ.fill()
            check(at, "...; smear(); kpts.wk = occ.wk = (0.8, 0.2); occ.fill()")
            at = Atoms("He", [[0.0, 0.0, 0.0]], ecut=3, a=cell, charge=1, unrestricted=True)
            at.Z = 2
            at.build()
            check(at, "He, charge = 1 (constructor); Z = 2; build()")
            at = Atoms(["C", "H", "H", "H", "H"], np.random.default_rng(1).uniform(1, 5, (5, 3)), ecut=3, a=cell, charge=-1, unrestricted=True)
            at.Z = "pade"
            at.build()
            check(at, "CH4, charge = -1; Z = 'pade'; build()")
            at = Atoms(["Li", "H"], [[0.0, 0.0, 0.0], [0.0, 0.0, 3.0]], ecut=3, a=cell, unrestricted=True)
            at.charge = 1
            at.atom = ["Na", "H"]
            at.Z = None
            at.build()
            check(at, "LiH; charge = 1; atom = [Na, H]; Z = None; build()")
            at = Atoms(["Li", "H"], [[0.0, 0.0, 0.0], [0.0, 0.0, 3.0]], ecut=3, a=cell, unrestricted=True)
            at.charge = 1
            at.spin = 1
            at.build()
            check(at, "LiH; charge = 1; spin = 1; build()", spin=1)
            at = Atoms(["Li", "H"], [[0.0, 0.0, 0.0], [0.0, 0.0, 3.0]], ecut=3, a=cell, unrestricted=True)
            at.spin = 2
            at.charge = 0
            at.build()
            check(at, "LiH; spin = 2; charge = 0; build()", spin=2)
            # a scalar filling assigned while the object is spin-paired, then two spin channels: the range follows the CURRENT Nspin
            at = Atoms("He", [[0.0, 0.0, 0.0]], ecut=3, a=cell)
            at.f = 2
            at.unrestricted = True
            at.build()
            check(at, "He; f = 2; unrestricted = True; build()", spin=0)
            at = Atoms(["Li", "H"], [[0.0, 0.0, 0.0], [0.0, 0.0, 3.0]], ecut=3, a=cell)
            at.occ.f = 2
            at.occ.Nspin = 2
            at.build()
            check(at, "LiH; occ.f = 2; occ.Nspin = 2; build()", spin=0)
            # an explicitly requested spin survives a later change of the charge
            at = Atoms("O", [[0.0, 0.0, 0.0]], ecut=3, a=cell, spin=2, unrestricted=True)
            at.charge = 1
            at.build()
            check(at, "O, spin = 2, unrestricted; charge = 1; build()", spin=2)
            at = Atoms("O", [[0.0, 0.0, 0.0]], ecut=3, a=cell, spin=2, unrestricted=True)
            at.charge = -1
            at.charge = 0
            at.build()
            check(at, "O, spin = 2; charge = -1; charge = 0; build()", spin=2)
            # electronic inputs assigned on the occupations object of an ALREADY BUILT Atoms object, then build() or SCF(atoms)
            from eminus import SCF

            for how in ("build()", "SCF(atoms)"):
                def finish(at, how=how):
                    if how == "build()":
                        at.build()
                        return at
                    return SCF(at, verbose="critical").atoms

                at = Atoms("Ne", [[0.0, 0.0, 0.0]], ecut=3, a=cell)
                at.build()
                at.occ.charge = 2
                at = finish(at)
                check(at, f"Ne; build(); occ.charge = 2; {how}")
                if abs(float(np.sum(np.asarray(at.kpts.wk)[:, None, None] * np.asarray(at.occ.f))) - 6.0) > 1e-8:
                    bad.append(dict(history=f"Ne; build(); occ.charge = 2; {how}", observed=dict(electrons_in_the_fillings=float(np.sum(np.asarray(at.occ.f))), expected=6.0)))
                at = Atoms("O", [[0.0, 0.0, 0.0]], ecut=3, a=cell, unrestricted=True)
                at.build()
                at.occ.spin = 2
                at = finish(at)
                check(at, f"O, unrestricted; build(); occ.spin = 2; {how}", spin=2)
                at = Atoms("Ne", [[0.0, 0.0, 0.0]], ecut=3, a=cell)
                at.build()
                at.occ.smearing = 0.01
                at.occ.bands = 6
                at = finish(at)
                if np.asarray(at.occ.f).shape[-1] != 6:
                    bad.append(dict(history=f"Ne; build(); occ.smearing = 0.01; occ.bands = 6; {how}", observed=dict(states_in_the_fillings=int(np.asarray(at.occ.f).shape[-1]), bands=6)))
                check(at, f"Ne; build(); occ.smearing = 0.01; occ.bands = 6; {how}; smear()", smear=True)
        except Exception as e:  # noqa: BLE001
            bad.append(dict(raised=f"{type(e).__name__}: {e}"))
        return bad

    def __call__(self, ob, tier, seed):
        from pycv.framework import BOUNDED_OK

        bad = self.problems()
        if bad:
            return Result(REFUTED, backend="native", witness=bad[0], replayed=True, replay_info=dict(failing=bad[:5]), detail=f"occupations of an Atoms object: {bad[0]}")
        return Result(BOUNDED_OK, backend="native", detail="bounded: eleven assignment orders through the Atoms interface (set_k with new weights + smearing, Z / species re-assigned on charged objects, charge / spin orders) and six histories with inputs assigned on atoms.occ of a built object (build / SCF construction)")

    def replay(self, wit):
        bad = self.problems()
        return bool(bad), dict(failing=bad[:5])


register(Obligation(name="C13.atoms_interface.assignment_orders", prop=PROP, engine="B", bounded=True, run=AtomsLevelOrders(),
                    functions=["eminus.atoms:Atoms.set_k", "eminus.atoms:Atoms.Z", "eminus.atoms:Atoms.charge", "eminus.atoms:Atoms.spin", "eminus.occupations:Occupations.smear"],
                    doc="BOUNDED: electron number, weights and spin of the occupations after assignment orders through the Atoms interface"))
