"""C15 (band-path structure, k-axis, time-reversal reduction).

* bandpath.segment_points (VC from the AST of the real list comprehension): the points inserted on a segment are
  s_start + (s_end - s_start) (n + 1) / (m + 1), n = 0..m-1, i.e. collinear, equidistant (step 1/(m+1) of the segment), strictly
  between the special points, and followed by s_end itself - for every m >= 0 and all special points (z3, linear real arithmetic
  per coordinate after clearing the denominator m + 1 > 0).
* bandpath.visits_special_points / kpoints2axis.axis (exhaustive over every lattice in SPECIAL_POINTS, every ordered pair / triple of
  its special points incl. jumps, Nk in a range): the named points appear in order at the positions the counts predict, and the k-axis
  advances by |dk| between neighbours and by zero across a jump.
* trs (exhaustive over meshes up to 4x4x4, both mesh types, with shifts): the weights still sum to one and every inversion-even
  Brillouin-zone average sum_k wk f(k) is unchanged (f = cos(k.R) for lattice vectors R, and |k|^2).
The exhaustive parts run the real code natively over a finite, stated domain (engine "X"): complete for that domain, not a proof for all sizes.
"""

from __future__ import annotations

import ast
import itertools

import numpy as np
import z3

from pycv.framework import DISCHARGED, REFUTED, UNDECIDED, Obligation, Result, register
from pycv.loader import source_of

PROP = "C15"


def _native():
    import eminus

    eminus.config.backend = "numpy"
    eminus.config.verbose = "critical"


class SegmentPoints:
    def __call__(self, ob, tier, seed):
        tree = ast.parse(source_of("eminus.kpoints"))
        fn = next(n for n in tree.body if isinstance(n, ast.FunctionDef) and n.name == "bandpath")
        comps = [n for n in ast.walk(fn) if isinstance(n, ast.ListComp)]
        seg = [c for c in comps if any(isinstance(x, ast.Name) and x.id == "k_dist" for x in ast.walk(c.elt))]
        if len(seg) != 1:
            return Result(UNDECIDED, backend="vcgen", detail=f"{len(seg)} segment comprehensions found in bandpath")
        c = seg[0]
        gen = c.generators[0]
        if not (isinstance(gen.iter, ast.Call) and ast.unparse(gen.iter.func) == "range" and len(gen.iter.args) == 1 and isinstance(gen.target, ast.Name) and not gen.ifs):
            return Result(UNDECIDED, backend="vcgen", detail="segment comprehension is not `for n in range(m)`")
        m_src = ast.unparse(gen.iter.args[0])
        nvar = gen.target.id
        # evaluate the element expression over z3 reals: names s_start / k_dist are per-coordinate reals, the count is an integer
        n, m = z3.Int("n"), z3.Int("m")
        s0, kd = z3.Real("s_start"), z3.Real("k_dist")

        def ev(e):
            if isinstance(e, ast.Constant) and isinstance(e.value, (int, float)):
                return z3.RealVal(e.value)
            if isinstance(e, ast.Name):
                if e.id == nvar:
                    return z3.ToReal(n)
                if e.id == "s_start":
                    return s0
                if e.id == "k_dist":
                    return kd
            if ast.unparse(e) == m_src:
                return z3.ToReal(m)
            if isinstance(e, ast.BinOp) and isinstance(e.op, (ast.Add, ast.Sub, ast.Mult, ast.Div)):
                l, r = ev(e.left), ev(e.right)
                return {ast.Add: l + r, ast.Sub: l - r, ast.Mult: l * r, ast.Div: l / r}[type(e.op)]
            raise ValueError(f"unsupported expression {ast.unparse(e)}")

        try:
            elt = ev(c.elt)
        except ValueError as e:
            return Result(UNDECIDED, backend="vcgen", detail=str(e))
        t = z3.Real("t")
        s = z3.Solver()
        s.set("timeout", 20000)
        s.add(m >= 0, n >= 0, n < m)
        # elt == s_start + t k_dist with t = (n+1)/(m+1)
        goal = elt == s0 + (z3.ToReal(n) + 1) / (z3.ToReal(m) + 1) * kd
        s.add(z3.Not(goal))
        r = s.check()
        if r == z3.sat:
            mod = s.model()
            wit = dict(m=mod.eval(m, model_completion=True).as_long(), n=mod.eval(n, model_completion=True).as_long())
            ok, info = Structure("sc").replay(dict(lattice="sc"))
            return Result(REFUTED, backend="z3", witness=wit, replayed=ok, replay_info=info, solver_output=str(mod),
                          detail=f"bandpath: point n={wit['n']} of a segment with {wit['m']} inner points is not s_start + (n+1)/(m+1) (s_end - s_start)")
        if r != z3.unsat:
            return Result(UNDECIDED, backend="z3", detail=str(s.reason_unknown()))
        # the statement following the comprehension appends s_end, k_dist = s_end - s_start
        src = ast.unparse(fn)
        if "k_dist = s_end - s_start" not in src or "k_points.append(s_end)" not in src:
            return Result(UNDECIDED, backend="vcgen", detail="k_dist / s_end bookkeeping of bandpath changed shape")
        return Result(DISCHARGED, backend="z3", detail="segment points are s_start + (n+1)/(m+1) (s_end - s_start), n < m: collinear, equidistant, strictly inside; s_end follows",
                      side_conditions=["m + 1 > 0"])

    def replay(self, wit):
        return Structure("sc").replay(dict(lattice="sc"))


register(Obligation(name="C15.bandpath.segment_points", prop=PROP, engine="Z", functions=["eminus.kpoints:bandpath"], run=SegmentPoints(), assumes=("z3", "cpython"),
                    doc="the points bandpath inserts on a segment are collinear and equidistant between the two special points, for every number of inner points"))


def _lattices():
    from eminus.data import SPECIAL_POINTS

    return SPECIAL_POINTS


class Structure:
    """Exhaustive (finite domain): every lattice, paths over its special points (pairs, triples, and with one jump), Nk = Nspecial .. Nspecial + 7."""

    def __init__(self, lattice):
        self.lattice = lattice

    def paths(self, pts):
        """Families of paths, interleaved (round robin) so that every prefix of the list contains every family: pairs, triples, and paths of
        4 - 6 special points with one jump after the 2nd / 3rd / 4th point or two jumps (a jump late in the path makes the search for the
        special points start at a non-zero offset)."""
        pts = [p for p in pts if len(p) == 1]
        fam = [[a + b for a, b in itertools.permutations(pts, 2)],
               [a + b + c for a, b, c in itertools.permutations(pts[:5], 3)],
               [a + b + "," + c + a for a, b, c in itertools.permutations(pts[:5], 3)],
               [a + b + c + "," + d + a for a, b, c, d in itertools.permutations(pts[:5], 4)],
               [a + b + c + d + "," + b + a for a, b, c, d in itertools.permutations(pts[:4], 4)],
               [a + b + "," + c + d + "," + a + c for a, b, c, d in itertools.permutations(pts[:4], 4)],
               [a + b + c + a + d + "," + c + b + d for a, b, c, d in itertools.permutations(pts[:4], 4)]]
        out = []
        for row in itertools.zip_longest(*fam):
            out.extend(p for p in row if p is not None)
        return out

    def check(self, lattice, limit=None):
        from eminus.data import LATTICE_VECTORS
        from eminus.kpoints import KPoints, kpoint_convert, kpoints2axis

        _native()
        sp = _lattices()[lattice]
        a = 5.0 * np.asarray(LATTICE_VECTORS[lattice], dtype=float) if lattice in LATTICE_VECTORS else np.eye(3) * 5.0
        n = 0
        for path in self.paths(list(sp))[: limit or None]:
            names = [c for c in path if c != ","]
            for extra in range(0, 8):
                kp = KPoints(lattice, a)
                kp.path = path
                kp.Nk = len(names) + extra
                kp.build()
                ks = np.asarray(kp.k_scaled)
                n += 1
                if len(ks) != len(names) + extra:
                    return dict(path=path, Nk=len(names) + extra, problem=f"{len(ks)} points")
                # the special points appear in order
                pos = 0
                idx = []
                for nm in names:
                    target = np.asarray(sp[nm], float)
                    while pos < len(ks) and np.abs(ks[pos] - target).max() > 1e-12:
                        pos += 1
                    if pos == len(ks):
                        return dict(path=path, Nk=len(ks), problem=f"special point {nm} is not visited in order")
                    idx.append(pos)
                    pos += 1
                # between consecutive special points of a segment: collinear, equidistant
                segs = []
                j = 0
                for i in range(len(path) - 1):
                    if path[i] == ",":
                        continue
                    if path[i + 1] == ",":
                        j += 1
                        continue
                    segs.append((idx[j], idx[j + 1]))
                    j += 1
                for i0, i1 in segs:
                    d = np.diff(ks[i0:i1 + 1], axis=0)
                    if len(d) and np.abs(d - d[0]).max() > 1e-12:
                        return dict(path=path, Nk=len(ks), problem=f"points between index {i0} and {i1} are not equidistant / collinear")
                # k-axis: |dk| between neighbours, zero across a jump
                axis, spec, labels = kpoints2axis(kp)
                axis = np.asarray(axis, float)
                dk = np.linalg.norm(np.asarray(kpoint_convert(np.diff(ks, axis=0), a)), axis=1)
                jumps = set()
                j = 0
                for i in range(len(path) - 1):
                    if path[i] == ",":
                        continue
                    if path[i + 1] == ",":
                        jumps.add(idx[j])  # the step leaving this special point is a jump
                    j += 1
                want = np.concatenate([[0.0], np.cumsum([0.0 if i in jumps else dk[i] for i in range(len(dk))])])
                if axis.shape != want.shape or np.abs(axis - want).max() > 1e-10:
                    return dict(path=path, Nk=len(ks), problem="k-axis is not the cumulative |dk| with zero length at jumps", axis=axis.tolist()[:8], expected=want.tolist()[:8])
        return dict(ok=True, cases=n)

    def __call__(self, ob, tier, seed):
        try:
            r = self.check(self.lattice, limit=140 if tier == "quick" else None)
        except Exception as e:  # noqa: BLE001
            return Result(REFUTED, backend="exhaustive-native", witness=dict(lattice=self.lattice), replayed=True, replay_info=dict(raised=f"{type(e).__name__}: {e}"),
                          detail=f"band path / k-axis construction raises for the {self.lattice} lattice: {type(e).__name__}: {e}")
        if r.get("ok"):
            return Result(DISCHARGED, backend="exhaustive-native", stats=r, detail=f"{r['cases']} (path, Nk) cases of the {self.lattice} lattice")
        return Result(REFUTED, backend="exhaustive-native", witness=dict(lattice=self.lattice, **{k: v for k, v in r.items() if k in ("path", "Nk")}), replayed=True, replay_info=r,
                      detail=f"{self.lattice} lattice, path {r.get('path')}, Nk={r.get('Nk')}: {r.get('problem')}")

    def replay(self, wit):
        try:
            r = self.check(wit.get("lattice", self.lattice), limit=140)
        except Exception as e:  # noqa: BLE001
            return True, dict(raised=f"{type(e).__name__}: {e}")
        return (not r.get("ok")), r


class Trs:
    def check(self, nmax):
        from eminus.kpoints import KPoints

        _native()
        a = np.array([[5.0, 0.3, 0.1], [0.2, 5.5, 0.4], [0.5, 0.1, 6.0]])
        Rs = [np.array(v) @ a for v in ((1, 0, 0), (0, 1, 0), (1, -1, 2), (2, 1, -1))]
        n = 0
        for mesh in itertools.product(range(1, nmax + 1), repeat=3):
            for gc in (True, False):
                for shift in ((0, 0, 0), (0.1, 0.0, 0.05)):
                    kp = KPoints("sc", a)
                    kp.kmesh = list(mesh)
                    kp.gamma_centered = gc
                    kp.kshift = list(shift)
                    kp.build()
                    k0, w0 = np.asarray(kp.k).copy(), np.asarray(kp.wk).copy()
                    kp.trs()
                    k1, w1 = np.asarray(kp.k), np.asarray(kp.wk)
                    n += 1
                    if abs(w1.sum() - 1) > 1e-12:
                        return dict(mesh=mesh, gamma_centered=gc, shift=shift, problem=f"weights sum to {w1.sum()}")
                    for f in [lambda k: np.sum(k * k, axis=1)] + [lambda k, R=R: np.cos(k @ R) for R in Rs]:
                        if abs(np.sum(w0 * f(k0)) - np.sum(w1 * f(k1))) > 1e-12:
                            return dict(mesh=mesh, gamma_centered=gc, shift=shift, problem="an inversion-even Brillouin-zone average changes under trs()")
                    if len(k1) > len(k0):
                        return dict(mesh=mesh, problem="more k-points after the reduction")
        return dict(ok=True, cases=n)

    def __call__(self, ob, tier, seed):
        r = self.check(3 if tier == "quick" else 4)
        if r.get("ok"):
            return Result(DISCHARGED, backend="exhaustive-native", stats=r, detail=f"{r['cases']} meshes (both types, with and without shift, triclinic cell)")
        return Result(REFUTED, backend="exhaustive-native", witness={k: v for k, v in r.items() if k != "problem"}, replayed=True, replay_info=r, detail=f"trs(): {r['problem']} ({r})")

    def replay(self, wit):
        r = self.check(3)
        return (not r.get("ok")), r


def _register():
    for lat in ("sc", "fcc", "bcc", "hexagonal", "tetragonal", "orthorhombic"):
        register(Obligation(name=f"C15.bandpath.visits_special_points_and_axis[{lat}]", prop=PROP, engine="B", bounded=True,
                            functions=["eminus.kpoints:bandpath", "eminus.kpoints:kpoints2axis"],
                            run=Structure(lat), budget={"quick": 300, "thorough": 1200}, assumes=("cpython",),
                            doc=f"BOUNDED ({lat}): every path of a stated family (pairs, triples, 4-8 special points with one or two jumps at different positions) x Nk = Nspecial..Nspecial+7: "
                                "points visited in order, equidistant and collinear in between, k-axis = cumulative |dk| with zero length at jumps (the set of all paths is infinite: not a proof)"))
    register(Obligation(name="C15.trs.weights_and_even_averages", prop=PROP, engine="X", functions=["eminus.kpoints:KPoints.trs"], run=Trs(), budget={"quick": 200, "thorough": 900},
                        assumes=("cpython",), doc="trs(): weight sum 1 and unchanged inversion-even averages, exhaustive over meshes up to 3x3x3 (quick) / 4x4x4 (thorough), both mesh types, shifts"))


_register()
