"""Native replays for XC obligations: run the *real* functions of the tree under test with float64 numpy and
evaluate the post-condition numerically (central finite differences of the code's own n*exc)."""

from __future__ import annotations

import numpy as np


def _native():
    import eminus
    from eminus.xc.utils import get_xc

    eminus.config.backend = "numpy"
    return get_xc


def _arrays(wit):
    env = wit["env"]
    Nspin = wit["Nspin"]
    npts = 2
    n = np.array([env[f"n{p}"] for p in range(npts)], dtype=float)
    if Nspin == 2:
        z = np.array([env[f"zeta{p}"] for p in range(npts)], dtype=float)
        n_spin = np.stack([n * (1 + z) / 2, n * (1 - z) / 2])
    else:
        n_spin = n[None, :].copy()
    dn = None
    if wit["f"].startswith("gga"):
        dn = np.array([[[env[f"g{s}{p}{c}"] for c in "xyz"] for p in range(npts)] for s in range(Nspin)], dtype=float)
    return n_spin, dn


def _params(wit):
    p = {}
    if wit.get("T") == "pos":
        p["T"] = wit["env"]["T"]
    elif wit.get("T") == 0:
        p["T"] = 0
    for k, v in (wit.get("xc_params") or {}).items():
        p[k] = tuple(v) if isinstance(v, list) else v
    return p


def _energy(get_xc, wit, n_spin, dn):
    exc, vxc, vsigma, _ = get_xc([wit["f"], "mock_xc"], n_spin, wit["Nspin"], dn_spin=dn, xc_params=_params(wit))
    return np.sum(n_spin, axis=0) * exc, vxc, vsigma


def replay_vxc(wit):
    get_xc = _native()
    n_spin, dn = _arrays(wit)
    s = wit["s"]
    e0, vxc, _ = _energy(get_xc, wit, n_spin, dn)
    worst = 0.0
    rows = []
    for p in range(n_spin.shape[1]):
        h = 1e-5 * n_spin[s, p] if n_spin[s, p] > 0 else 1e-17
        a, b = n_spin.copy(), n_spin.copy()
        a[s, p] += h
        b[s, p] -= h
        fd = (_energy(get_xc, wit, a, dn)[0][p] - _energy(get_xc, wit, b, dn)[0][p]) / (2 * h)
        rel = abs(fd - vxc[s, p]) / max(abs(fd), abs(vxc[s, p]), 1e-12)
        # round-off of the difference quotient relative to the derivative: eps |n exc| / (|vxc| 2h); above 1e-6 the quotient is noise
        noise = 2.2e-16 * abs(e0[p]) / max(abs(vxc[s, p]) * 2 * h, 1e-300)
        rows.append(dict(point=p, finite_difference=float(fd), vxc=float(vxc[s, p]), rel_err=float(rel), quotient_noise=float(noise)))
        worst = max(worst, rel)
    return bool(worst > 1e-5), dict(check="vxc[s] vs central difference of n*exc (native float64)", rows=rows)


def replay_vsigma(wit):
    get_xc = _native()
    n_spin, dn = _arrays(wit)
    s = wit["s"]
    o = 1 - s
    e0, vxc, vs = _energy(get_xc, wit, n_spin, dn)
    worst = 0.0
    rows = []
    for p in range(n_spin.shape[1]):
        for c in range(3):
            h = 1e-5 * max(abs(dn[s, p, c]), 1e-8)
            a, b = dn.copy(), dn.copy()
            a[s, p, c] += h
            b[s, p, c] -= h
            fd = (_energy(get_xc, wit, n_spin, a)[0][p] - _energy(get_xc, wit, n_spin, b)[0][p]) / (2 * h)
            if wit["Nspin"] == 2:
                rhs = 2 * vs[2 * s, p] * dn[s, p, c] + vs[1, p] * dn[o, p, c]
            else:
                rhs = 2 * vs[0, p] * dn[0, p, c]
            rel = abs(fd - rhs) / max(abs(fd), abs(rhs), 1e-12)
            rows.append(dict(point=p, comp=c, finite_difference=float(fd), from_vsigma=float(rhs), rel_err=float(rel)))
            worst = max(worst, rel)
    return bool(worst > 1e-5), dict(check="2 v_ss dn_s + v_ud dn_s' vs central difference of n*exc (native float64)", rows=rows)


def replay_finite(wit):
    get_xc = _native()
    f = wit["f"]
    zeta = wit["zeta"]
    n = np.array([0.3, 1.7])
    n_spin = np.stack([n * (1 + zeta) / 2, n * (1 - zeta) / 2])
    dn = None
    if f.startswith("gga"):
        dn = np.zeros((2, 2, 3))
        live = 0 if zeta == 1 else 1
        dn[live] = np.array([[0.1, -0.2, 0.3], [0.5, 0.1, -0.4]])
        if wit.get("empty_channel_gradient"):
            dn[1 - live] = np.array([[1e-3, 2e-3, -1e-3], [-2e-3, 1e-3, 3e-3]])
    with np.errstate(all="ignore"):
        exc, vxc, vs, _ = get_xc([f, "mock_xc"], n_spin, 2, dn_spin=dn)
    bad = {}
    for name, a in (("exc", exc), ("vxc", vxc), ("vsigma", vs)):
        if a is not None and not np.all(np.isfinite(a)):
            bad[name] = np.asarray(a).tolist()
    return bool(bad), dict(check="np.isfinite on native get_xc outputs with one spin density exactly zero",
                           n_spin=n_spin.tolist(), non_finite=bad)


def native_scan(f, Nspin, kind, s, T=None):
    """Native scan of the derivative identity on a FIXED set of points that includes the corners a random sample does not reach:
    densities over ten orders of magnitude and, for Nspin = 2, polarisations up to 1 - |zeta| = 1e-9, non-parallel spin gradients.
    Used when an exact proof is not available on the tree under check (trace outside the subset / budget exhausted): only a failing point is
    a verdict (refutation by a concrete input), a clean scan proves nothing. Returns (violated?, info)."""
    rng = np.random.default_rng(12345)
    pts = []
    zetas = [0.0] if Nspin == 1 else [0.0, 0.3, -0.6, 1 - 1e-3, -(1 - 1e-3), 1 - 1e-6, -(1 - 1e-6), 1 - 1e-7, -(1 - 1e-7), 1 - 1e-9, -(1 - 1e-9)]
    for n in (1e-8, 1e-5, 1e-2, 0.4, 7.0):
        for z in zetas:
            env = {"n0": n, "n1": n * 1.3, "zeta0": z, "zeta1": z}
            for sp in range(Nspin):
                for p in range(2):
                    g = rng.standard_normal(3) * n ** (4 / 3) * 2.0
                    for c, v in zip("xyz", g):
                        env[f"g{sp}{p}{c}"] = float(v)
            if T == "pos":
                env["T"] = 0.3
            pts.append(env)
    worst, worst_row = 0.0, None
    for env in pts:
        wit = dict(env=env, Nspin=Nspin, f=f, s=s, T=T, kind=kind)
        try:
            bad, info = (replay_vsigma if kind == "vsigma" else replay_vxc)(wit)
        except Exception as e:  # noqa: BLE001
            return True, dict(raised=f"{type(e).__name__}: {e}", at=env)
        for row in info["rows"]:
            noise = row.get("quotient_noise", 0.0)
            if noise > 1e-5:
                continue  # the float64 difference quotient cannot resolve this derivative (tiny minority density): not an oracle here
            # tolerance of the finite-difference oracle: 1e-4 relative, widened to 1000 x its own round-off estimate where that is larger
            # (the identity itself is exact; deviations of interest at these corners are of order one); NaN counts as a failure
            r = row["rel_err"] / max(1.0, 1e7 * noise)
            if not np.isfinite(r) or r > worst:
                worst, worst_row = (float("inf") if not np.isfinite(r) else r), dict(row, n=env["n0"], zeta=env.get("zeta0"), scaled_rel_err=float(r))
    return bool(worst > 1e-4), dict(check="fixed scan: densities 1e-8 .. 7, |zeta| up to 1 - 1e-9, non-parallel gradients; derivative vs central difference (tolerance 1e-4)",
                                    points=len(pts), worst=worst_row)
