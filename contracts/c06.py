"""C06 - energies are invariant under rigid motions and relabelling.

Decided by contracts (for all inputs):
  * Ylm_real (the real code, every (l, m) with l <= 3, traced on z3 real terms): the addition theorem
        sum_m Y_lm(G) Y_lm(G') = (2l+1)/(4 pi) P_l(cos angle(G, G'))
    for all generic G, G' - the only way the direction of G + k enters the non-local energy is through these sums, so the
    non-local projector sums are rotation invariant. (Generic: |G| > eps and |G_x| > eps; the special branches are separate
    obligations evaluated at the special points.)
  * structure factors: G_i . (n a) = 2 pi (M_i . n) for the index row M_i of the real Atoms code and every integer vector n, so
    Sf(tau + n a) = Sf(tau) exp(2 pi i integer) = Sf(tau) (lemma 'exp-periodic'): moving an atom by a lattice vector changes no
    structure factor and hence none of the energies that depend on positions through Sf.
What no contract here decides (whole-calculation statements over all six energy components): rotations of cell + positions,
atom permutations, grid translations with translated coefficients - BOUNDED native comparisons, labelled bounded.
"""

from __future__ import annotations

import itertools
import math
from fractions import Fraction

import numpy as np
import z3

from pycv.framework import BOUNDED_OK, DISCHARGED, REFUTED, UNDECIDED, Obligation, Result, register
from pycv.loader import Loader

PROP = "C06"


# ------------------------------------------------------------------------------------------------
# a tracing backend whose scalars are z3 real terms with a store of defining constraints
# ------------------------------------------------------------------------------------------------


class Store:
    def __init__(self):
        self.cons = []
        self.side = []  # (description, formula) to be proved from cons
        self.n = 0

    def fresh(self, name):
        self.n += 1
        return z3.Real(f"{name}_{self.n}")

    def root(self, name, radicand, strict):
        """THE non-negative root of a radicand (one variable per radicand: sqrt is a function)."""
        rad = z3.simplify(radicand)
        key = (rad.get_id())
        if not hasattr(self, "roots"):
            self.roots, self.rads = {}, {}
        if key not in self.roots:
            v = self.fresh(name)
            self.cons += [v > 0 if strict else v >= 0, v * v == rad]
            self.roots[key] = v
            self.rads[v.get_id()] = (v, rad)
        return self.roots[key]


ST = None


def zr(v):
    if isinstance(v, RV):
        return v.e
    if isinstance(v, Fraction):
        return z3.RealVal(f"{v.numerator}/{v.denominator}")
    if isinstance(v, (bool, np.bool_)):
        raise TypeError("bool")
    if isinstance(v, (int, np.integer)):
        return z3.RealVal(int(v))
    if isinstance(v, float):
        return z3.RealVal(repr(float(v)))
    raise TypeError(f"cannot lift {type(v).__name__}")


class RV:
    """z3 real term with Python arithmetic. Comparisons are decided only in the GENERIC regime (a magnitude against a tiny eps)."""

    def __init__(self, e, tiny=False, magnitude=False):
        self.e, self.tiny, self.magnitude = e, tiny, magnitude

    def _b(self, o, f, swap=False):
        try:
            oe = zr(o)
        except TypeError:
            return NotImplemented
        a, b = (oe, self.e) if swap else (self.e, oe)
        return RV(z3.simplify(f(a, b)))

    def __add__(self, o):
        return self._b(o, lambda a, b: a + b)

    def __radd__(self, o):
        return self._b(o, lambda a, b: a + b, True)

    def __sub__(self, o):
        return self._b(o, lambda a, b: a - b)

    def __rsub__(self, o):
        return self._b(o, lambda a, b: a - b, True)

    def __mul__(self, o):
        if isinstance(o, Angle):
            return NotImplemented
        return self._b(o, lambda a, b: a * b)

    def __rmul__(self, o):
        return self._b(o, lambda a, b: a * b, True)

    def __truediv__(self, o):
        return self._b(o, lambda a, b: a / b)

    def __rtruediv__(self, o):
        return self._b(o, lambda a, b: a / b, True)

    def __neg__(self):
        return RV(-self.e)

    def __pow__(self, k):
        if isinstance(k, RV):
            k = z3.simplify(k.e)
            k = k.as_long() if z3.is_int_value(k) else (int(k.as_fraction()) if z3.is_rational_value(k) and k.as_fraction().denominator == 1 else None)
        if not isinstance(k, (int, np.integer)) or not 0 <= k <= 8:
            return NotImplemented
        e = z3.RealVal(1)
        for _ in range(int(k)):
            e = e * self.e
        return RV(e)

    def _as_int(self):
        k = z3.simplify(self.e)
        if z3.is_rational_value(k) and k.as_fraction().denominator == 1:
            return int(k.as_fraction())
        return None

    def __rpow__(self, base):
        k = self._as_int()
        if k is None or not 0 <= k <= 8:
            return NotImplemented
        if isinstance(base, np.ndarray):
            return _emap(lambda v: v ** k, base)
        return NotImplemented

    def __lt__(self, o):
        if isinstance(o, np.ndarray):
            return np.array([x > self for x in o.reshape(-1)], dtype=bool).reshape(o.shape)
        if self.magnitude and isinstance(o, RV) and o.tiny:
            return False  # generic: the magnitude is not below eps
        raise TypeError("comparison of symbolic values outside the generic regime")

    def __gt__(self, o):
        if isinstance(o, np.ndarray):
            return np.array([x < self for x in o.reshape(-1)], dtype=bool).reshape(o.shape)
        if self.magnitude and isinstance(o, RV) and o.tiny:
            return True
        raise TypeError("comparison of symbolic values outside the generic regime")

    def __repr__(self):
        return f"RV({self.e})"


def Q(text):
    f = Fraction(text)
    return RV(zr(f), tiny=(0 < f <= Fraction(1, 10**6)))


class Angle:
    """k * arctan2(y, x) for generic (x, y): cos and sin of the base angle are x / rho, y / rho with rho = sqrt(x^2 + y^2) > 0."""

    def __init__(self, c, s, k=1):
        self.c, self.s, self.k = c, s, k

    def __rmul__(self, o):
        return self.__mul__(o)

    def __mul__(self, o):
        if isinstance(o, RV):
            v = z3.simplify(o.e)
            if z3.is_rational_value(v) and v.as_fraction().denominator == 1:
                o = int(v.as_fraction())
        if isinstance(o, (int, np.integer)) and 0 < o <= 4:
            return Angle(self.c, self.s, self.k * int(o))
        return NotImplemented

    def cos_sin(self):
        c, s = RV(z3.RealVal(1)), RV(z3.RealVal(0))
        for _ in range(self.k):
            c, s = c * self.c - s * self.s, s * self.c + c * self.s
        return c, s


def _emap(f, x):
    a = np.asarray(x, dtype=object)
    out = np.empty(a.shape, dtype=object)
    flat = out.reshape(-1)
    for i, v in enumerate(a.reshape(-1)):
        flat[i] = f(v)
    return out


class Linalg:
    @staticmethod
    def norm(x, axis=None):
        a = np.asarray(x, dtype=object)
        if a.ndim != 2 or axis != 1:
            raise TypeError("norm layout")
        out = np.empty(a.shape[0], dtype=object)
        for i in range(a.shape[0]):
            r = ST.root("r", sum((zr(v) * zr(v) for v in a[i]), z3.RealVal(0)), True)
            out[i] = RV(r, magnitude=True)
        return out


class ZBackend:
    linalg = Linalg()

    def atleast_2d(self, x):
        return np.atleast_2d(np.asarray(x, dtype=object))

    def ones(self, n, **kw):
        out = np.empty(n, dtype=object)
        out.fill(RV(z3.RealVal(1)))
        return out

    def zeros_like(self, x, **kw):
        out = np.empty(np.asarray(x, dtype=object).shape, dtype=object)
        out.fill(RV(z3.RealVal(0)))
        return out

    def stack(self, xs, axis=0):
        return np.stack([np.asarray(x, dtype=object) for x in xs], axis=axis)

    def max(self, x, axis=None):
        a = np.asarray(x, dtype=object)
        if axis != 0 or a.shape[0] != 2:
            raise TypeError("max layout")
        out = np.empty(a.shape[1:], dtype=object)
        for idx in np.ndindex(*a.shape[1:]):
            p, q = zr(a[(0,) + idx]), zr(a[(1,) + idx])
            # decide the maximum from the defining constraints if possible
            s = z3.Solver()
            s.set("timeout", 20000)
            s.add(*ST.cons)
            s.add(q < p)
            if s.check() == z3.unsat:
                out[idx] = RV(q)
            else:
                out[idx] = RV(z3.If(p >= q, p, q))
        return out

    def sqrt(self, x):
        def f(v):
            e = zr(v)
            ST.side.append(("argument of sqrt is non-negative", e >= 0))
            return RV(ST.root("sq", e, False), magnitude=True)
        return _emap(f, x)

    def arctan2(self, y, x):
        ya, xa = np.asarray(y, dtype=object), np.asarray(x, dtype=object)
        out = np.empty(ya.shape, dtype=object)
        for i in range(ya.shape[0]):
            rho = ST.root("rho", zr(xa[i]) * zr(xa[i]) + zr(ya[i]) * zr(ya[i]), True)
            out[i] = Angle(RV(zr(xa[i]) / rho), RV(zr(ya[i]) / rho))
        return out

    def abs(self, x):
        def f(v):
            a = ST.fresh("abs")
            ST.cons += [a >= 0, z3.Or(a == zr(v), a == -zr(v))]
            return RV(a, magnitude=True)
        return _emap(f, x)

    def sign(self, x):
        a = np.asarray(x, dtype=object)
        if a.size:
            raise TypeError("sign of a symbolic value")
        return a

    def sin(self, x):
        return _emap(lambda v: v.cos_sin()[1], x)

    def cos(self, x):
        return _emap(lambda v: v.cos_sin()[0], x)


class ZMath:
    def __init__(self):
        self.pi_var = z3.Real("pi")
        self.roots = {}

    @property
    def pi(self):
        return RV(self.pi_var)

    def sqrt(self, v):
        return RV(ST.root("k", zr(v), True))


def trace_ylm():
    """{(l, m): (Y at G, Y at G')} as z3 terms + the constraint store."""
    global ST
    ST = Store()
    zm = ZMath()
    ST.cons += [zm.pi_var > 3, zm.pi_var < 4]
    ld = Loader(ZBackend(), zm, Q, native_extra=("eminus",))
    utils = ld.load("eminus.utils")
    G = np.empty((2, 3), dtype=object)
    names = [["x", "y", "z"], ["u", "v", "w"]]
    for i in range(2):
        for c in range(3):
            G[i, c] = RV(z3.Real(names[i][c]))
    out = {}
    for l in range(4):
        for m in range(-l, l + 1):
            y = np.asarray(utils.Ylm_real(l, m, G), dtype=object)
            if y.shape != (2,):
                raise TypeError(f"Ylm_real({l},{m}) returns shape {y.shape}")
            out[(l, m)] = (zr(y[0]), zr(y[1]))
    return out, G, zm


def _const_names(t):
    seen, out, todo = set(), set(), [t]
    while todo:
        e = todo.pop()
        if e.get_id() in seen:
            continue
        seen.add(e.get_id())
        if z3.is_const(e) and e.decl().kind() == z3.Z3_OP_UNINTERPRETED:
            out.add(str(e))
        todo.extend(e.children())
    return out


def _to_sympy(t, syms):
    import sympy as sp

    cache = {}

    def rec(e):
        k = e.get_id()
        if k in cache:
            return cache[k]
        if z3.is_rational_value(e):
            f = e.as_fraction()
            r = sp.Rational(f.numerator, f.denominator)
        elif z3.is_int_value(e):
            r = sp.Integer(e.as_long())
        elif z3.is_const(e) and e.decl().kind() == z3.Z3_OP_UNINTERPRETED:
            r = syms.setdefault(str(e), sp.Symbol(str(e)))
        else:
            kind = e.decl().kind()
            ch = [rec(c) for c in e.children()]
            if kind == z3.Z3_OP_ADD:
                r = sp.Add(*ch)
            elif kind == z3.Z3_OP_SUB:
                r = ch[0] - sp.Add(*ch[1:])
            elif kind == z3.Z3_OP_UMINUS:
                r = -ch[0]
            elif kind == z3.Z3_OP_MUL:
                r = sp.Mul(*ch)
            elif kind == z3.Z3_OP_DIV:
                r = ch[0] / ch[1]
            elif kind == z3.Z3_OP_POWER:
                r = ch[0] ** ch[1]
            elif kind == z3.Z3_OP_TO_REAL:
                r = ch[0]
            else:
                raise TypeError(f"unsupported z3 operator {e.decl().name()}")
        cache[k] = r
        return r

    return rec(t)


def _ideal_reduce(goal, roots, eliminated):
    """Remainder of numerator(goal) modulo the Groebner basis of the defining relations numerator(v^2 - radicand)."""
    import sympy as sp

    syms = {}
    g = sp.together(_to_sympy(goal, syms))
    num = sp.numer(g)
    elim = {str(v) for v in eliminated}
    rels = []
    used = {str(s_) for s_ in num.free_symbols}
    for _, (var, rad) in roots.items():
        if str(var) in elim or str(var) not in used:
            continue
        rel = sp.numer(sp.together(_to_sympy(var * var - rad, syms)))
        rels.append(sp.expand(rel))
    gens = sorted({s_ for e in [num] + rels for s_ in e.free_symbols}, key=lambda s_: (not (str(s_).startswith(("r_", "rho_", "k_"))), str(s_)))
    G = sp.groebner(rels, *gens, order="grevlex")
    _, rem = G.reduce(sp.expand(num))
    return sp.simplify(rem), len(rels)


def legendre(l, mu):
    return [z3.RealVal(1), mu, (3 * mu * mu - 1) / 2, (5 * mu * mu * mu - 3 * mu) / 2][l]


class Addition:
    def __init__(self, l):
        self.l = l

    def __call__(self, ob, tier, seed):
        try:
            Y, G, zm = trace_ylm()
        except (TypeError, AttributeError, ValueError, IndexError, KeyError, z3.Z3Exception) as e:
            ok, info = self.replay(dict(l=self.l, seed=seed))
            if ok:
                return Result(REFUTED, backend="native-contract-evaluation", witness=dict(l=self.l, seed=seed), replayed=True, replay_info=info,
                              detail=f"Ylm_real: addition theorem for l={self.l} violated natively (trace left the subset: {type(e).__name__}: {e})")
            return Result(UNDECIDED, backend="z3-tracing", detail=f"outside subset: {type(e).__name__}: {e}")
        l = self.l
        cons = list(ST.cons)
        x, y, z_, u, v, w_ = [zr(G[i, c]) for i in range(2) for c in range(3)]
        r1 = ST.root("r", x * x + y * y + z_ * z_, True)
        r2 = ST.root("r", u * u + v * v + w_ * w_, True)
        cons = list(ST.cons)
        mu = (x * u + y * v + z_ * w_) / (r1 * r2)
        lhs = sum((Y[(l, m)][0] * Y[(l, m)][1] for m in range(-l, l + 1)), z3.RealVal(0))
        rhs = z3.RealVal(2 * l + 1) / (4 * zm.pi_var) * legendre(l, mu)
        # only the definitions this l uses
        used = _const_names(lhs - rhs)
        closure = True
        while closure:
            closure = False
            for _, (var, rad) in ST.rads.items():
                if str(var) in used:
                    extra = _const_names(rad) - used
                    if extra:
                        used |= extra
                        closure = True
        # side conditions (arguments of sqrt) of the roots in use
        for lab, f in ST.side:
            if not (_const_names(f) <= used | {"pi"}):
                continue
            s = z3.Solver()
            s.set("timeout", 60000)
            s.add(*cons)
            s.add(z3.Not(f))
            if s.check() != z3.unsat:
                return self.numeric_fallback(seed, f"side condition not proved: {lab}")
        # 1. small problems for z3: every sqrt(1 - cos^2) variable equals rho / r of its vector (both non-negative, equal squares)
        roots = dict(ST.rads)
        subs = []
        for vid, (var, rad) in roots.items():
            if not str(var).startswith("sq_") or str(var) not in used:
                continue
            done = False
            for _, (rho, _r1) in roots.items():
                if not str(rho).startswith("rho_"):
                    continue
                for _, (rr, _r2) in roots.items():
                    if not str(rr).startswith("r_"):
                        continue
                    q = z3.Solver()
                    q.set("timeout", 20000)
                    q.add(*cons)
                    q.add(var * rr != rho)
                    if q.check() == z3.unsat:
                        subs.append((var, rho / rr))
                        done = True
                        break
                if done:
                    break
            if not done:
                return self.numeric_fallback(seed, f"no closed form for {var} = sqrt({rad})")
        goal = z3.substitute(lhs - rhs, *subs)
        # 2. ideal membership: the numerator of lhs - rhs reduces to zero modulo the defining relations v^2 = radicand
        try:
            rem, nrel = _ideal_reduce(goal, roots, [v_ for v_, _ in subs])
        except Exception as e:  # noqa: BLE001
            return self.numeric_fallback(seed, f"reduction failed: {type(e).__name__}: {e}")
        if rem == 0:
            return Result(DISCHARGED, backend="z3 (lemmas) + sympy Groebner reduction", stats=dict(relations=nrel, lemmas=len(subs), l=l),
                          detail=f"sum_m Y_{l}m(G) Y_{l}m(G') == {2 * l + 1}/(4 pi) P_{l}(cos angle) for all generic G, G': numerator in the ideal of the defining relations")
        return self.numeric_fallback(seed, "numerator of lhs - rhs is not in the ideal of the defining relations", str(rem)[:1500])

    def numeric_fallback(self, seed, why, solver_output=""):
        """No proof: look for a concrete counterexample natively (all octants)."""
        l = self.l
        rng = np.random.default_rng(seed)
        for _ in range(40):
            a_, b_ = rng.standard_normal(3), rng.standard_normal(3)
            wit = dict(l=l, G=a_.tolist(), Gp=b_.tolist(), seed=int(rng.integers(1 << 30)))
            ok, info = self.replay(dict(wit, only_witness=True))
            if ok:
                return Result(REFUTED, backend="z3-tracing + native", witness=wit, replayed=True, replay_info=info, solver_output=solver_output,
                              detail=f"Ylm_real: sum over m of Y_{l}m(G) Y_{l}m(G') differs from (2l+1)/(4 pi) P_l(cos angle) at G={wit['G']}, G'={wit['Gp']} ({why})")
        return Result(UNDECIDED, backend="z3-tracing", detail=f"l={l}: {why}; no numeric counterexample found")

    def replay(self, wit):
        import eminus
        from eminus.utils import Ylm_real

        eminus.config.backend = "numpy"
        l = wit["l"]
        rng = np.random.default_rng(wit.get("seed", 0))
        pairs = []
        if "G" in wit:
            pairs.append((np.array(wit["G"], float), np.array(wit["Gp"], float)))
        if not wit.get("only_witness"):
            pairs += [(rng.standard_normal(3), rng.standard_normal(3)) for _ in range(20)]
        worst = 0.0
        for a, b in pairs:
            lhs = sum(float(np.asarray(Ylm_real(l, m, a))[0]) * float(np.asarray(Ylm_real(l, m, b))[0]) for m in range(-l, l + 1))
            mu = float(a @ b / np.linalg.norm(a) / np.linalg.norm(b))
            P = [1, mu, (3 * mu**2 - 1) / 2, (5 * mu**3 - 3 * mu) / 2][l]
            worst = max(worst, abs(lhs - (2 * l + 1) / (4 * np.pi) * P))
        return bool(worst > 1e-10), dict(check=f"addition theorem l={l} on the witness and 20 random direction pairs", max_abs_err=worst)


for _l in range(4):
    register(Obligation(name=f"C06.Ylm_real.addition_theorem.l{_l}", prop=PROP, engine="Z", functions=["eminus.utils:Ylm_real"], run=Addition(_l),
                        assumes=("z3", "cpython", "generic"), budget={"quick": 400, "thorough": 1500},
                        doc=f"sum_m Y_{_l}m(G) Y_{_l}m(G') = {2 * _l + 1}/(4 pi) P_{_l}(cos angle(G, G')) for all generic G, G' (rotation invariance of the l={_l} projector sums)"))


# ------------------------------------------------------------------------------------------------
# structure factors under lattice translations of single atoms
# ------------------------------------------------------------------------------------------------


class SfLattice:
    """Sf[ia, i] = exp(i G_i . pos_ia) and G_i . a_j = 2 pi N_ij (integer N_ij) are post-conditions of the real
    Atoms._sample_unit_cell (obligations C03.sample.Sf / C03.sample.G, re-run here on the current tree). Hence for pos' = pos + n a
    (integer n): G_i . pos' = G_i . pos + 2 pi sum_j n_j N_ij and Sf' = Sf exp(2 pi i integer) = Sf (lemma 'exp-periodic')."""

    def __call__(self, ob, tier, seed):
        from contracts.c03_sample import Sample

        for cl in ("G", "Sf"):
            r = Sample(cl)(ob, tier, seed)
            if r.verdict != DISCHARGED:
                r.detail = f"[callee contract C03.sample.{cl}] {r.detail}"
                if r.verdict == REFUTED and r.replayed:
                    ok, info = self.replay(dict(seed=seed))
                    r.replayed, r.replay_info = ok, info
                return r
        # the linear-algebra step: sum_j n_j (G_i . a_j) = 2 pi sum_j n_j N_ij with integer n, N
        n = [z3.Int(f"n{j}") for j in range(3)]
        N = [z3.Int(f"N{j}") for j in range(3)]
        Ga = [z3.Real(f"Ga{j}") for j in range(3)]
        pi = z3.Real("pi")
        s = z3.Solver()
        s.add(*[Ga[j] == 2 * pi * z3.ToReal(N[j]) for j in range(3)])
        k = z3.Int("k")
        s.add(z3.ForAll([k], sum(z3.ToReal(n[j]) * Ga[j] for j in range(3)) != 2 * pi * z3.ToReal(k)))
        s.set("timeout", 20000)
        if s.check() != z3.unsat:
            # instantiate the witness k = sum n_j N_j directly
            s2 = z3.Solver()
            s2.add(*[Ga[j] == 2 * pi * z3.ToReal(N[j]) for j in range(3)])
            s2.add(sum(z3.ToReal(n[j]) * Ga[j] for j in range(3)) != 2 * pi * z3.ToReal(sum(n[j] * N[j] for j in range(3))))
            if s2.check() != z3.unsat:
                return Result(UNDECIDED, backend="z3", detail="integrality step not proved")
        return Result(DISCHARGED, backend="algebra-normaliser + z3", detail="G_i . (n a) = 2 pi (integer) for the real index rows; Sf unchanged by the exp-periodic lemma")

    def replay(self, wit):
        import eminus
        from eminus import Atoms

        eminus.config.backend = "numpy"
        eminus.config.verbose = "critical"
        a = np.array([[6.0, 0.4, 0.2], [0.3, 7.0, 0.5], [0.1, 0.6, 8.0]])
        pos = np.array([[0.5, 1.0, 2.0], [3.0, 2.5, 1.0]])
        at1 = Atoms(["He", "H"], pos, ecut=3, a=a).build()
        at2 = Atoms(["He", "H"], pos + np.array([[2, -1, 1], [0, 0, 0]]) @ a, ecut=3, a=a).build()
        err = float(np.abs(np.asarray(at1.Sf) - np.asarray(at2.Sf)).max())
        return bool(err > 1e-9), dict(check="structure factors before / after moving atom 0 by 2 a1 - a2 + a3 (triclinic cell)", max_abs_diff=err)


register(Obligation(name="C06.Sf.lattice_translation_of_single_atoms", prop=PROP, engine="A", functions=["eminus.atoms:Atoms._sample_unit_cell"], run=SfLattice(),
                    assumes=("engineA", "z3", "reals", "np.indices"), budget={"quick": 200, "thorough": 600},
                    doc="moving an atom by a lattice vector leaves every structure factor unchanged: G_i . (n a) is an integer multiple of 2 pi (callee contracts C03.sample.G / Sf)"))


# ------------------------------------------------------------------------------------------------
# bounded native whole-calculation comparisons
# ------------------------------------------------------------------------------------------------


def _energies(atoms_kw, W_fn=None, xc="pbe", seed=0):
    import dataclasses

    import eminus
    from eminus import SCF, Atoms
    from eminus.energies import get_E, get_Eewald

    eminus.config.backend = "numpy"
    eminus.config.verbose = "critical"
    kw = dict(atoms_kw)
    s_ = kw.pop("s", None)
    kmesh = kw.pop("kmesh", None)
    recenter = kw.pop("recenter_by", None)
    then_set = kw.pop("then_set", None)
    at = Atoms(**kw)
    if s_ is not None:
        at.s = list(s_)
    if kmesh is not None:
        at.kpts.kmesh = list(kmesh)
    if then_set is not None:
        # the transformed system reached through the SETTERS of an object that has already been built for the untransformed one
        at.build()
        at.a = then_set["a"]
        at.pos = then_set["pos"]
        if s_ is not None:
            at.s = list(s_)
    scf = SCF(at, xc=xc, verbose="critical")
    at = scf.atoms
    from eminus.dft import guess_pseudo

    W = guess_pseudo(scf, seed=1234 + seed)
    if W_fn is not None:
        W = W_fn(at, W)
    scf.W = W
    if recenter is not None:
        # the translation done by the SCF object itself: atoms, orbitals and the potentials built from the positions move together
        from eminus.tools import center_of_mass

        scf.recenter(center=np.asarray(center_of_mass(at.pos)) + np.asarray(recenter))
        at = scf.atoms
    scf._precompute()
    get_E(scf)
    scf.energies.Eewald = get_Eewald(at)
    e = scf.energies
    return {f.name: float(getattr(e, f.name)) for f in dataclasses.fields(e)}, at, W


def _rotation(rng):
    q = rng.standard_normal(4)
    q /= np.linalg.norm(q)
    w, x, y, z = q
    return np.array([[1 - 2 * (y * y + z * z), 2 * (x * y - z * w), 2 * (x * z + y * w)],
                     [2 * (x * y + z * w), 1 - 2 * (x * x + z * z), 2 * (y * z - x * w)],
                     [2 * (x * z - y * w), 2 * (y * z + x * w), 1 - 2 * (x * x + y * y)]])


# Si and C: two species that both carry non-local projectors (Si: two s and one p projector, C: one s projector) - LiH / H2O-like systems have
# none or only one species with projectors and leave species-dependent parts of the non-local term unexercised
BASE = dict(atom=["Si", "C", "Si"], pos=[[1.1, 1.3, 0.9], [3.2, 1.0, 1.4], [2.0, 3.1, 2.2]], ecut=8,
            a=[[7.0, 0.4, 0.2], [0.3, 7.5, 0.5], [0.1, 0.6, 8.0]], s=[15, 15, 17])


class RigidMotion:
    """BOUNDED: every energy component at fixed coefficients for a transformed system (H, O, H - interleaved species, s/p projectors; triclinic cell; PBE)."""

    def __init__(self, kind):
        self.kind = kind

    def case(self, seed):
        rng = np.random.default_rng(seed)
        kw = dict(BASE)
        e0, at0, W0 = _energies(kw, seed=seed)
        a, pos = np.array(kw["a"]), np.array(kw["pos"])
        if self.kind == "rotation":
            R = _rotation(rng)
            kw2 = dict(kw, a=(a @ R.T).tolist(), pos=(pos @ R.T).tolist())
            e1, _, _ = _energies(kw2, seed=seed)
        elif self.kind == "permutation":
            # two species that both carry s and p projectors (species-dependent radial parts of the non-local projectors)
            p = rng.permutation(3)
            while list(p) == [0, 1, 2] or (seed % 100 == 0 and kw["atom"][p[0]] == kw["atom"][0]):
                p = rng.permutation(3)  # the first instance of every run lists another species first
            kw2 = dict(kw, atom=[kw["atom"][i] for i in p], pos=pos[p].tolist())
            e1, _, _ = _energies(kw2, seed=seed)
        elif self.kind == "lattice_translation_single_atom":
            # in a ROTATED copy of the system (a strongly non-symmetric lattice matrix: a and its transpose differ), atoms moved by up to
            # three lattice vectors
            R = _rotation(rng)
            a, pos = a @ R.T, pos @ R.T
            kw = dict(kw, a=a.tolist(), pos=pos.tolist())
            e0, at0, W0 = _energies(kw, seed=seed)
            n = rng.integers(-3, 4, (3, 3))
            n[0] = [3, -2, 0] if not n[0].any() else n[0]
            n[1:] = 0 if rng.integers(2) else n[1:]
            if seed % 100 == 0:  # the first instance of every run: two atoms moved three cells apart in different directions
                n = np.array([[3, -3, 2], [0, 0, 0], [-2, 3, 3]])
            kw2 = dict(kw, pos=(pos + n @ a).tolist())
            e1, _, _ = _energies(kw2, seed=seed)
        elif self.kind == "grid_translation":
            m = rng.integers(1, 6, 3)
            dr = (m / np.array(kw["s"])) @ a
            kw2 = dict(kw, pos=(pos + dr).tolist())

            def shift(at, W):
                return at.T(W, dr)
            e1, _, _ = _energies(kw2, W_fn=shift, seed=seed)
        elif self.kind == "rotation_several_projectors_per_channel":
            # species with two or more projectors in a channel with l >= 1 (Ge: p x 2, Ca: p x 2): the m-dependence of the non-local energy has to cancel
            # within every projector pair of a channel
            kw = dict(kw, atom=["Ge", "Ca"], pos=pos[:2].tolist(), ecut=5, s=[13, 13, 15])
            e0, at0, W0 = _energies(kw, seed=seed)
            R = _rotation(rng)
            kw2 = dict(kw, a=(np.array(kw["a"]) @ R.T).tolist(), pos=(np.array(kw["pos"]) @ R.T).tolist())
            e1, _, _ = _energies(kw2, seed=seed)
        elif self.kind == "grid_translation_by_recenter":
            # species with different valence charges (O 6, H 1, Si 4): the centre that recenter() uses for the atoms is the one it uses for the orbitals
            kw = dict(kw, atom=["O", "H", "Si"])
            e0, at0, W0 = _energies(kw, seed=seed)
            m = rng.integers(1, 6, 3)
            dr = (m / np.array(kw["s"])) @ a
            e1, _, _ = _energies(dict(kw, recenter_by=dr.tolist()), seed=seed)
        elif self.kind == "rotation_orthorhombic_cell_with_kmesh":
            # an orthorhombic cell turned off the Cartesian axes (first instance: a quarter turn about z), k-points with k != 0: they rotate with the cell
            kw = dict(kw, a=np.diag([6.0, 6.5, 7.0]).tolist(), atom=["Si", "C"], pos=pos[:2].tolist(), ecut=5, s=[12, 13, 14], kmesh=[2, 1, 2])
            e0, at0, W0 = _energies(kw, seed=seed)
            R = np.array([[0.0, -1.0, 0.0], [1.0, 0.0, 0.0], [0.0, 0.0, 1.0]]) if seed % 100 == 0 else _rotation(rng)
            kw2 = dict(kw, a=(np.array(kw["a"]) @ R.T).tolist(), pos=(np.array(kw["pos"]) @ R.T).tolist())
            e1, _, _ = _energies(kw2, seed=seed)
        elif self.kind == "rotation_through_setters_on_a_built_object":
            # k-mesh with k != 0; the rotated cell and positions are ASSIGNED to an object built for the unrotated system (cell metric and volume unchanged)
            kw = dict(kw, atom=["Si", "C"], pos=pos[:2].tolist(), ecut=5, s=[13, 13, 15], kmesh=[2, 2, 1])
            e0, at0, W0 = _energies(kw, seed=seed)
            R = np.array([[0.0, -1.0, 0.0], [1.0, 0.0, 0.0], [0.0, 0.0, 1.0]]) if seed % 100 == 0 else _rotation(rng)
            a_ = np.array(kw["a"])
            e1, _, _ = _energies(dict(kw, then_set=dict(a=(a_ @ R.T).tolist(), pos=(np.array(kw["pos"]) @ R.T).tolist())), seed=seed)
        else:
            raise ValueError(self.kind)
        # the Ewald sum is truncated at the tolerance documented for get_Eewald (C10): its invariance holds to that (relative) accuracy
        diffs = {k: abs(e1[k] - e0[k]) / (200 * max(1.0, abs(e0[k])) if k == "Eewald" else 1.0) for k in e0}
        worst = max(diffs, key=diffs.get)
        return diffs[worst], dict(component=worst, before=e0[worst], after=e1[worst], all=diffs)

    def __call__(self, ob, tier, seed):
        n = 1 if tier == "quick" else 4
        worst = 0.0
        for k in range(n):
            err, info = self.case(seed * 100 + k)
            worst = max(worst, err)
            if err > 1e-8:
                wit = dict(kind=self.kind, seed=seed * 100 + k)
                return Result(REFUTED, backend="native", witness=wit, replayed=True, replay_info=info,
                              detail=f"energy component {info['component']} changes by {err:.2e} Eh under a {self.kind.replace('_', ' ')}")
        return Result(BOUNDED_OK, backend="native", detail=f"bounded: {n} random {self.kind.replace('_', ' ')}(s) of an Si/C/Si system (interleaved species, both with non-local projectors) (PBE, triclinic cell): max component change {worst:.1e} Eh")

    def replay(self, wit):
        err, info = self.case(wit["seed"])
        return bool(err > 1e-8), info


for _k, _doc in (("rotation", "rotating cell vectors and atom positions together"), ("permutation", "listing the atoms in a different order"),
                 ("lattice_translation_single_atom", "moving individual atoms by lattice vectors"),
                 ("grid_translation", "translating the system by a real-space grid vector with the coefficients translated by T"),
                 ("grid_translation_by_recenter", "translating the system by a real-space grid vector through SCF.recenter (atoms, orbitals and potentials of ONE object move together)"),
                 ("rotation_orthorhombic_cell_with_kmesh", "rotating an orthorhombic cell with a 2x1x2 k-mesh off the Cartesian axes"),
                 ("rotation_through_setters_on_a_built_object", "assigning the rotated cell and positions to an object that was built for the unrotated system (2x2x1 k-mesh)"),
                 ("rotation_several_projectors_per_channel", "rotating a Ge / Ca system (two projectors in the p channels)")):
    register(Obligation(name=f"C06.energies.{_k}", prop=PROP, engine="B", bounded=True, run=RigidMotion(_k),
                        functions=["eminus.energies:get_E", "eminus.energies:get_Eewald", "eminus.gth:init_gth_loc", "eminus.gth:init_gth_nonloc", "eminus.operators:T"]
                        + (["eminus.scf:SCF.recenter"] if "recenter" in _k else []) + (["eminus.kpoints:kpoint_convert"] if "kmesh" in _k else []),
                        budget={"quick": 400, "thorough": 1500},
                        doc=f"BOUNDED: every energy component (Ekin, Ecoul, Exc, Eloc, Enonloc, Eewald) at fixed coefficients is unchanged by {_doc}"))


class EwaldRotationAnisotropic:
    """BOUNDED: the Ewald energy of a strongly anisotropic cell (5 x 6 x 17 bohr, and a triclinic one of similar proportions) under proper rotations that turn the long
    axis into directions where the cell is short (quarter turns, a third of a turn about the diagonal, 83 degrees about x, random): the image counts per
    lattice direction must follow the LATTICE VECTORS, not the Cartesian axes. Absolute tolerance 1e-9 Eh (measured on the unchanged tree: below 1e-12)."""

    def problems(self, seed):
        import eminus
        from eminus import Atoms
        from eminus.energies import get_Eewald

        eminus.config.backend = "numpy"
        eminus.config.verbose = "critical"
        rng = np.random.default_rng(seed)

        def axis_angle(ax, deg):
            ax = np.asarray(ax, float) / np.linalg.norm(ax)
            t = np.deg2rad(deg)
            K = np.array([[0, -ax[2], ax[1]], [ax[2], 0, -ax[0]], [-ax[1], ax[0], 0]])
            return np.eye(3) + np.sin(t) * K + (1 - np.cos(t)) * K @ K

        rots = [("quarter turn about x", axis_angle([1, 0, 0], 90)), ("quarter turn about y", axis_angle([0, 1, 0], 90)), ("third of a turn about (1,1,1)", axis_angle([1, 1, 1], 120)),
                ("83 degrees about x", axis_angle([1, 0, 0], 83)), ("random rotation", _rotation(rng))]
        cells = {"orthorhombic 5 x 6 x 17": np.diag([5.0, 6.0, 17.0]), "triclinic, long third vector": np.array([[5.0, 0.4, 0.0], [0.3, 6.0, 0.5], [1.0, 2.0, 17.0]])}
        frac = np.array([[0.1, 0.2, 0.05], [0.6, 0.4, 0.3], [0.3, 0.8, 0.62], [0.85, 0.15, 0.9]])
        bad = []
        worst = 0.0
        for cname, a in cells.items():
            pos = frac @ a
            for kw in ({}, dict(gcut=3.0)):
                def E(a_, pos_, kw=kw):
                    at = Atoms(["Si", "C", "O", "H"], pos_, ecut=1, a=a_)
                    at.s = [4, 4, 6]
                    at.build()
                    return float(get_Eewald(at, **kw))

                e0 = E(a, pos)
                for rname, R in rots:
                    e1 = E(a @ R.T, pos @ R.T)
                    worst = max(worst, abs(e1 - e0))
                    if abs(e1 - e0) > 1e-9:
                        bad.append(dict(cell=cname, rotation=rname, arguments=kw or "defaults", Eewald=e0, Eewald_rotated=e1, change=abs(e1 - e0)))
        return bad, worst

    def __call__(self, ob, tier, seed):
        bad, worst = self.problems(seed)
        if bad:
            return Result(REFUTED, backend="native", witness=dict(seed=seed, first=bad[0]), replayed=True, replay_info=dict(failing=bad[:5]),
                          detail=f"Ewald energy changes by {bad[0]['change']:.2e} Eh under a {bad[0]['rotation']} of the {bad[0]['cell']} cell ({bad[0]['arguments']})")
        return Result(BOUNDED_OK, backend="native", detail=f"bounded: 2 anisotropic cells x 5 proper rotations x (default parameters, gcut = 3): largest change of the Ewald energy {worst:.1e} Eh")

    def replay(self, wit):
        bad, _ = self.problems(wit["seed"])
        return bool(bad), dict(failing=bad[:5])


register(Obligation(name="C06.energies.rotation_anisotropic_cell_ewald", prop=PROP, engine="B", bounded=True, run=EwaldRotationAnisotropic(), functions=["eminus.energies:get_Eewald"],
                    doc="BOUNDED: the Ewald energy of strongly anisotropic cells is unchanged (1e-9 Eh) by rotations that turn the long lattice vector towards Cartesian directions where the cell is short"))


# ------------------------------------------------------------------------------------------------
# atom relabelling of the local pseudopotential (engine Z)
# ------------------------------------------------------------------------------------------------


class LocalPotentialAtomOrder:
    """init_gth_loc / coulomb / coulomb_lr: the potential is sum_species Vsp(species) * sum_{atoms of that species} Sf[atom]; listing
    the atoms in a different order (incl. interleaved species) gives the same potential. The real function is executed for every
    ordering of a 4-atom list with species pattern (X, Y, X, Y) and symbolic structure-factor rows and charges."""

    def __init__(self, module, function):
        self.module, self.function = module, function

    def __call__(self, ob, tier, seed):
        import itertools as itt

        from pycv.wp.explore import check_valid, explore, named
        from pycv.wp.interp import OutsideSubset, PyRaise, Sym, World
        from pycv.wp.numext import NUM_EXT
        from pycv.wp.polyz import identical

        class Stub:
            _zplain = True

        try:
            w = World()
            mod = w.module(self.module)
            species = ["X", "Y", "X", "Y"]
            rows = [named(w, f"Sf{i}", "real") for i in range(4)]
            charges = {"X": named(w, "Zx", "real"), "Y": named(w, "Zy", "real")}

            class SfList(list):
                pass

            def run_order(order):
                at = Stub()
                at.atom = [species[i] for i in order]
                at.Natoms = 4
                at.Sf = [rows[i] for i in order]
                at.Z = [charges[species[i]] for i in order]
                at.G2 = named(w, "G2", "real")
                at.J = None
                scf = Stub()
                scf.atoms = at
                scf.gth = {sp: {"rloc": named(w, f"rloc{sp}", "real"), "Zion": named(w, f"Zion{sp}", "real"),
                                "cloc": [named(w, f"c{k}{sp}", "real") for k in range(4)]} for sp in ("X", "Y")}
                ext = dict(NUM_EXT)
                ext.update({
                    "set": lambda it, a, k: sorted(set(a[0])),
                    "xp.zeros_like": lambda it, a, k: Sym(z3.RealVal(0), "real"), "xp.zeros": lambda it, a, k: Sym(z3.RealVal(0), "real"),
                    "xp.real": lambda it, a, k: a[0], "xp.exp": lambda it, a, k: it.w.uf("exp", a, "real"),
                    "xp.sum": lambda it, a, k: _sum_list(it, a[0]), "len": None,
                    "math.sqrt": lambda it, a, k: it.w.uf("sqrt", a, "real"),
                })
                ext.pop("len")

                # atoms.J(x): uninterpreted (functionality only)
                at.J = lambda x, *a, **k: w.uf("J", [x], "real")

                def run(it):
                    f = it.lookup_global(self.function, mod)
                    return it.call(f, [scf], {}), None
                res = explore(w, run, ext=ext, max_paths=8)
                if len(res) != 1 or res[0].outcome != "return":
                    raise OutsideSubset(f"{self.function}: {[(r.outcome, str(r.value)[:60]) for r in res]}")
                v = res[0].value
                if not (isinstance(v, Sym) and v.kind == "real"):
                    raise OutsideSubset(f"result is {type(v).__name__}")
                return v

            base = run_order((0, 1, 2, 3))
            checked = 0
            for order in itt.permutations(range(4)):
                if order == (0, 1, 2, 3):
                    continue
                v = run_order(order)
                checked += 1
                if identical(v.e, base.e):
                    continue
                r, m = check_valid(w, [], v.e == base.e, timeout_ms=20000)
                if r != "proved":
                    wit = dict(function=f"{self.module}:{self.function}", order=[species[i] for i in order])
                    ok, info = self.replay(wit)
                    return Result(REFUTED if r == "refuted" else UNDECIDED, backend="z3", witness=wit, replayed=ok, replay_info=info,
                                  detail=f"{self.function}: the potential for the atom order {wit['order']} differs from the one for ['X', 'Y', 'X', 'Y'] (same atoms)")
            return Result(DISCHARGED, backend="polynomial-identity/z3", stats=dict(orders=checked))
        except (OutsideSubset, PyRaise, TypeError, AttributeError, KeyError, ValueError, IndexError, z3.Z3Exception) as e:
            wit = dict(function=f"{self.module}:{self.function}")
            ok, info = self.replay(wit)
            if ok:
                return Result(REFUTED, backend="native-contract-evaluation", witness=wit, replayed=True, replay_info=info,
                              detail=f"{self.function}: the potential depends on the order in which the atoms are listed ({type(e).__name__}: {e})")
            return Result(UNDECIDED, backend="engine-Z", detail=f"outside subset: {type(e).__name__}: {e}")

    def replay(self, wit):
        import eminus
        from eminus import SCF, Atoms

        eminus.config.backend = "numpy"
        eminus.config.verbose = "critical"
        pos = np.array([[0.3, 0.2, 0.1], [1.9, 0.4, 0.3], [0.5, 2.1, 0.2], [0.2, 0.6, 2.3]])
        sp = ["H", "O", "H", "O"]
        pot = {"init_gth_loc": "gth", "coulomb": "coulomb", "coulomb_lr": "lr"}[wit["function"].split(":")[1]]
        ref = None
        worst = 0.0
        for order in ((0, 1, 2, 3), (0, 2, 1, 3), (1, 0, 3, 2), (3, 0, 1, 2)):
            at = Atoms([sp[i] for i in order], pos[list(order)], ecut=3, a=7)
            v = np.asarray(SCF(at, pot=pot).Vloc)
            if ref is None:
                ref = v
            worst = max(worst, float(np.abs(v - ref).max()))
        return bool(worst > 1e-10), dict(check=f"Vloc ({pot}) of H2O2-like 4-atom list in four orderings incl. interleaved species", max_abs_diff=worst)


def _sum_list(it, x):
    import ast as _ast

    if isinstance(x, (list, tuple)):
        tot = 0
        for v in x:
            tot = it.binop(_ast.Add, tot, v)
        return tot
    return x


for _fn, _mod in (("init_gth_loc", "eminus.gth"), ("coulomb", "eminus.potentials"), ("coulomb_lr", "eminus.potentials")):
    register(Obligation(name=f"C06.{_fn}.atom_order", prop=PROP, engine="Z", functions=[f"{_mod}:{_fn}"], run=LocalPotentialAtomOrder(_mod, _fn),
                        assumes=("engineZ", "z3", "reals"), budget={"quick": 200, "thorough": 400},
                        doc=f"{_fn}: the local potential is the same for every ordering of the atom list, incl. interleaved species (4 atoms, 2 species, symbolic structure factors)"))


# ------------------------------------------------------------------------------------------------
# bounded: the real spherical harmonics on the special directions (a zero x component takes its own branch in the code)
# ------------------------------------------------------------------------------------------------


class YlmSpecialDirections:
    """BOUNDED: Ylm_real (l <= 3) is a polynomial in the direction cosines, hence continuous on the sphere: its value on every axis / plane /
    diagonal direction (any zero component; the branch `Gx = 0` of the code) equals the limit from generic neighbouring directions, and the
    addition theorem sum_m Y_lm(a) Y_lm(b) = (2l + 1)/(4 pi) P_l(cos(a, b)) holds for pairs of such directions (the proof covers generic vectors)."""

    def problems(self):
        import itertools

        import eminus
        from eminus.utils import Ylm_real

        eminus.config.backend = "numpy"
        dirs = np.array([d for d in itertools.product((-1.0, 0.0, 1.0), repeat=3) if any(d)])
        dirs = np.vstack([dirs, 2.5 * dirs[:6], np.array([[0.0, 1e-3, 5.0], [0.0, -2.0, 1e-3], [0.0, 0.0, -3.0]])])
        eps = 1e-7 * np.array([0.3, 0.5, 0.7])
        bad = []
        from numpy.polynomial.legendre import legval

        for l in range(4):
            Y = {m: np.asarray(Ylm_real(l, m, dirs.copy())) for m in range(-l, l + 1)}
            Yn = {m: np.asarray(Ylm_real(l, m, dirs + eps)) for m in range(-l, l + 1)}
            for m in range(-l, l + 1):
                d = np.abs(Y[m] - Yn[m])
                if not np.all(np.isfinite(Y[m])) or d.max() > 1e-5:
                    i = int(np.nanargmax(d))
                    bad.append(dict(l=l, m=m, direction=dirs[i].tolist(), value=float(Y[m][i]), value_next_to_it=float(Yn[m][i])))
            u = dirs / np.linalg.norm(dirs, axis=1)[:, None]
            cosg = np.clip(u @ u.T, -1, 1)
            lhs = sum(np.outer(Y[m], Y[m]) for m in range(-l, l + 1))
            rhs = (2 * l + 1) / (4 * np.pi) * legval(cosg, [0] * l + [1])
            if np.abs(lhs - rhs).max() > 1e-12:
                i, j = np.unravel_index(np.argmax(np.abs(lhs - rhs)), lhs.shape)
                bad.append(dict(l=l, addition_theorem_error=float(np.abs(lhs - rhs).max()), a=dirs[i].tolist(), b=dirs[j].tolist()))
        return bad

    def __call__(self, ob, tier, seed):
        try:
            bad = self.problems()
        except Exception as e:  # noqa: BLE001
            bad = [dict(raised=f"{type(e).__name__}: {e}")]
        if bad:
            return Result(REFUTED, backend="native", witness=bad[0], replayed=True, replay_info=dict(failing=bad[:5]), detail=f"Ylm_real on a special direction: {bad[0]}")
        return Result(BOUNDED_OK, backend="native", detail="bounded: 35 directions with zero components, l <= 3: continuous there and the addition theorem holds for all pairs")

    def replay(self, wit):
        bad = self.problems()
        return bool(bad), dict(failing=bad[:5])


register(Obligation(name="C06.Ylm_real.special_directions", prop=PROP, engine="B", bounded=True, run=YlmSpecialDirections(), functions=["eminus.utils:Ylm_real"],
                    doc="BOUNDED: real spherical harmonics on axis / plane directions (the Gx = 0 branch): continuity and the addition theorem"))
