"""Engine-Z harness for class invariants over mutation histories (C19, parts of C13).

Idea (DESIGN 5/C19): for a class K with build method b and flag fl, let B(s) be the symbolic result of running the
real b on a copy of state s with the flag cleared. The class invariant is

    Inv(s) :=  s.fl  =>  for every derived field d:  s.d == B(s).d

where every un-interpreted computation in b is an uninterpreted function of exactly the values it reads, so that
`B(s).d` *is* "the value a freshly built object with the same inputs would have". For every public setter/method m
the obligation is  Inv(s) and pc  =>  Inv(m(s))  for every path of the real m started in a generic state s.
By induction over the call sequence this covers every history of any length.
"""

from __future__ import annotations

import z3

from pycv.wp.execute import Interp
from pycv.wp.explore import check_valid, explore, named
from pycv.wp.interp import Obj, OutsideSubset, Path, PyRaise, Sym, World


def clone(v, memo=None):
    memo = {} if memo is None else memo
    if isinstance(v, Obj):
        if id(v) in memo:
            return memo[id(v)]
        o = Obj(v.cls, {})
        memo[id(v)] = o
        for k, x in v.fields.items():
            o.fields[k] = clone(x, memo)
        return o
    if isinstance(v, list):
        return [clone(x, memo) for x in v]
    if isinstance(v, dict):
        return {k: clone(x, memo) for k, x in v.items()}
    if isinstance(v, tuple):
        return tuple(clone(x, memo) for x in v)
    if hasattr(v, "z_val") and hasattr(v, "__dict__"):
        import copy

        return copy.copy(v)
    return v


def eq_term(world, a, b):
    """z3 Bool: values a and b are equal."""
    if isinstance(a, Sym) and isinstance(b, Sym):
        if a.kind == b.kind:
            return a.e == b.e
        if {a.kind, b.kind} == {"int", "real"}:
            return (z3.ToReal(a.e) if a.kind == "int" else a.e) == (z3.ToReal(b.e) if b.kind == "int" else b.e)
        return world.to_val(a) == world.to_val(b)
    if isinstance(a, Sym) or isinstance(b, Sym):
        s, c = (a, b) if isinstance(a, Sym) else (b, a)
        if c is None:
            return z3.BoolVal(False)
        if s.kind == "bool" and isinstance(c, bool):
            return s.e == z3.BoolVal(c)
        if s.kind == "int" and isinstance(c, int):
            return s.e == c
        if s.kind == "real" and isinstance(c, (int, float)):
            return s.e == z3.RealVal(repr(c))
        return world.to_val(s) == world.to_val(c)
    if isinstance(a, (list, tuple)) and isinstance(b, (list, tuple)):
        if len(a) != len(b):
            return z3.BoolVal(False)
        return z3.And(*[eq_term(world, x, y) for x, y in zip(a, b)]) if a else z3.BoolVal(True)
    if isinstance(a, Obj) or isinstance(b, Obj):
        return z3.BoolVal(a is b)
    if hasattr(a, "z_val") and hasattr(b, "z_val"):
        return a.z_val(world) == b.z_val(world)
    try:
        return z3.BoolVal(bool(a == b))
    except Exception:  # noqa: BLE001
        return z3.BoolVal(False)


def flag_term(v):
    if isinstance(v, Sym):
        return v.e
    return z3.BoolVal(bool(v))


def run_method(it: Interp, obj: Obj, name, args=(), kwargs=None):
    """Call obj.name(*args) or assign obj.name = args[0] for setters ('set:<attr>')."""
    while "." in name.split(":")[0] or (name.count(".") and not name.startswith("set:")):
        head, _, name = name.partition(".")
        obj = obj.fields[head]
    if name.startswith("set:"):
        it.set_attr(obj, name[4:], args[0])
        return None
    f = it.get_attr(obj, name)
    return it.call(f, list(args), kwargs or {})


def built_states(world, obj, prepare, build_name, base_assumptions, ext=None, get=lambda o: o):
    """All paths of the build method on a prepared copy of obj. Returns [(extra_pc, state_obj)]."""
    n0 = len(base_assumptions)

    def run(it):
        c = clone(obj)
        prepare(c)
        run_method(it, get(c), build_name)
        return None, c

    res = explore(world, run, assumptions=base_assumptions, ext=ext)
    out = []
    for r in res:
        if r.outcome != "return":
            continue
        out.append((r.path.pc[n0:], r.state))
    return out
