"""C05 (density of states): get_dos(epsilon, wk) is sum_k wk[k] sum_i g_width(e - epsilon[k, spin, i]) with a unit-area Gaussian g, so that it
integrates to the k-weighted number of states. The real function is executed symbolically (engine Z) for symbolic eigenvalues and weights
(2 k-points x 3 states, 2 spin channels, generic energy points); exp is uninterpreted."""

from __future__ import annotations

import ast
import math

import numpy as np
import z3

from contracts.c10 import Arr
from pycv.framework import DISCHARGED, REFUTED, UNDECIDED, Obligation, Result, register
from pycv.wp.explore import check_valid, explore, named
from pycv.wp.interp import OutsideSubset, PyRaise, Sym, World
from pycv.wp.numext import NUM_EXT
from pycv.wp.polyz import identical

PROP = "C05"
NK, NSPIN, NST, NPTS = 2, 2, 3, 2


class FlatArr(Arr):
    def flatten(self, it=None):
        out = FlatArr(self.a.reshape(-1).shape)
        out.a = self.a.reshape(-1)
        return out

    ravel = flatten

    def z_getitem(self, it, idx):
        v = self.a[self._ix(idx)]
        if isinstance(v, np.ndarray):
            out = FlatArr(v.shape)
            out.a = v
            return out
        return v

    def z_iter(self, it):
        return [self.z_getitem(it, i) for i in range(self.a.shape[0])]


class Dos:
    def __call__(self, ob, tier, seed):
        try:
            w = World()
            mod = w.module("eminus.tools")
            eps = FlatArr((NK, NSPIN, NST))
            for k in range(NK):
                for s in range(NSPIN):
                    for i in range(NST):
                        eps.a[k, s, i] = named(w, f"eps{k}{s}{i}", "real")
            wk = FlatArr((NK,))
            for k in range(NK):
                wk.a[k] = named(w, f"wk{k}", "real")
            width = named(w, "width", "real")
            pts = [named(w, f"e{j}", "real") for j in range(NPTS)]

            window = {}

            def linspace(it, a, k):
                window["lo"], window["hi"] = a[0], a[1]
                out = FlatArr((NPTS,))
                for j in range(NPTS):
                    out.a[j] = pts[j]
                return out

            def zeros(it, a, k):
                out = FlatArr((NPTS,))
                out.a[:] = 0
                return out

            def expf(it, a, k):
                x = a[0]
                if isinstance(x, Sym):
                    return it.w.uf("exp", [x], "real")
                out = FlatArr(x.a.shape)
                flat = out.a.reshape(-1)
                for j, v in enumerate(x.a.reshape(-1)):
                    flat[j] = it.w.uf("exp", [v], "real")
                return out

            def extremum(is_min):
                def f(it, a, k):
                    # contract of xp.min / xp.max: a bound of every element that is itself an element
                    elems = [v for v in a[0].a.reshape(-1)]
                    m = it.w.fresh("min" if is_min else "max", "real")
                    it.p.pc.append(z3.And([(m.e <= v.e) if is_min else (m.e >= v.e) for v in elems] + [z3.Or([m.e == v.e for v in elems])]))
                    return m
                return f

            ext = dict(NUM_EXT)
            ext.update({"xp.min": extremum(True), "xp.max": extremum(False),
                        "xp.linspace": linspace, "xp.zeros": zeros, "xp.exp": expf, "math.sqrt": lambda it, a, k: math.sqrt(a[0])})
            for spin in range(NSPIN):
                def run(it, spin=spin):
                    f = it.lookup_global("get_dos", mod)
                    return it.call(f, [eps, wk], {"spin": spin, "npts": NPTS, "width": width}), None

                res = explore(w, run, assumptions=[width.e > 0], ext=ext, max_paths=4)
                if len(res) != 1 or res[0].outcome != "return":
                    raise OutsideSubset(f"get_dos: {[(r.outcome, str(r.value)[:80]) for r in res]}")
                e, dos = res[0].value
                it = res[0].interp
                # the energy window holds every state of the channel with a margin of 5 widths (so that the unit-area Gaussians are inside it:
                # the part of a Gaussian cut off is below erfc(5) = 1.5e-12 of its area)
                if "lo" not in window:
                    raise OutsideSubset("energy axis is not built with linspace")
                lo, hi = (x.e if isinstance(x, Sym) else z3.RealVal(x) for x in (window["lo"], window["hi"]))
                goal = z3.And([z3.And(lo <= eps.a[k, spin, i].e - 5 * width.e, hi >= eps.a[k, spin, i].e + 5 * width.e) for k in range(NK) for i in range(NST)])
                v, m = check_valid(w, list(res[0].path.pc), goal, timeout_ms=20000)
                if v != "proved":
                    wit = dict(spin=spin, clause="window")
                    ok, info = self.replay(wit)
                    return Result(REFUTED if ok else UNDECIDED, backend="z3", witness=wit, replayed=ok, replay_info=info, solver_output=str(m)[:1200],
                                  detail="get_dos: the energy window does not contain every state of every k-point with a margin of 5 widths (the DOS then integrates to less than the number of states)")
                for j in range(NPTS):
                    want = z3.RealVal(0)
                    for k in range(NK):
                        for i in range(NST):
                            arg = (pts[j] - eps.a[k, spin, i]) / width
                            g = w.uf("exp", [-(arg ** 2)], "real")
                            want = want + wk.a[k].e * g.e / (z3.RealVal(repr(math.sqrt(math.pi))) * width.e)
                    got = dos.a[j] if hasattr(dos, "a") else dos[j]
                    if identical(got.e, want):
                        continue
                    v, m = check_valid(w, [width.e > 0], got.e == want, timeout_ms=20000)
                    if v != "proved":
                        wit = dict(spin=spin)
                        ok, info = self.replay(wit)
                        return Result(REFUTED if ok else UNDECIDED, backend="z3", witness=wit, replayed=ok, replay_info=info,
                                      detail=f"get_dos: DOS(e) is not sum_k wk[k] sum_i gauss(e - eps[k, {spin}, i]) (every state of every k-point with its k-point weight)")
            return Result(DISCHARGED, backend="polynomial-identity/z3", stats=dict(Nk=NK, Nstate=NST, Nspin=NSPIN),
                          detail="DOS(e) = sum_k wk[k] sum_i g(e - eps[k, spin, i]) with a unit-area Gaussian: integrates to sum_k wk[k] Nstate")
        except (OutsideSubset, PyRaise, TypeError, AttributeError, KeyError, ValueError, IndexError, z3.Z3Exception) as e:
            ok, info = self.replay({})
            if ok:
                return Result(REFUTED, backend="native-contract-evaluation", witness=dict(case="Nk=1, Nstate=4, random spectrum"), replayed=True, replay_info=info,
                              detail=f"get_dos does not integrate to the k-weighted number of states ({type(e).__name__}: {e})")
            return Result(UNDECIDED, backend="engine-Z", detail=f"outside subset: {type(e).__name__}: {e}")

    def replay(self, wit):
        import eminus
        from eminus.tools import get_dos

        eminus.config.backend = "numpy"
        rng = np.random.default_rng(3)
        bad = {}
        for Nk, Nst in ((1, 4), (3, 2), (2, 5), (4, 3)):
            eps = np.sort(rng.uniform(-1, 1, (Nk, 2, Nst)), axis=2)
            if Nk == 4:  # band extrema at interior k-points
                eps[1] -= 1.5
                eps[2] += 1.5
            wk = rng.uniform(0.1, 1, Nk)
            wk /= wk.sum()
            for spin in (0, 1):
                e, d = get_dos(eps, wk, spin=spin, npts=4000, width=0.05)
                e, d = np.asarray(e), np.asarray(d)
                integ = float(np.sum(0.5 * (d[1:] + d[:-1]) * np.diff(e)))
                want = float(wk.sum() * Nst)
                if abs(integ - want) > 1e-3:
                    bad[f"Nk={Nk},Nstate={Nst},spin={spin}"] = dict(integral=integ, k_weighted_states=want)
        return bool(bad), dict(check="trapezoidal integral of get_dos vs sum_k wk Nstate", failing=bad)


register(Obligation(name="C05.get_dos.k_weighted_sum_of_unit_gaussians", prop=PROP, engine="Z", functions=["eminus.tools:get_dos"], run=Dos(),
                    assumes=("engineZ", "z3", "reals"), doc="get_dos(e) = sum_k wk[k] sum_i gauss_width(e - eps[k, spin, i]): the DOS integrates to the k-weighted number of states"))


# ------------------------------------------------------------------------------------------------
# bounded native: the density of states integrates to the k-weighted number of states (one and two spin channels)
# ------------------------------------------------------------------------------------------------


class DosIntegralNative:
    """BOUNDED: get_dos on synthetic spectra (Nk x Nspin x Nstate = 3 x {1, 2} x 4, unequal weights, both spin selections, three widths): the trapezoidal
    integral of the returned curve over the returned window is sum_k wk * Nstate, the window contains every state with a margin, every value is >= 0."""

    def problems(self):
        import eminus
        from eminus.tools import get_dos

        eminus.config.backend = "numpy"
        rng = np.random.default_rng(4)
        bad = []
        wk = np.array([0.2, 0.3, 0.5])
        for Nspin in (1, 2):
            eps = rng.uniform(-1.0, 0.5, (3, Nspin, 4))
            for spin in range(Nspin):
                for width in (0.02, 0.1, 0.3):
                    e, d = get_dos(eps, wk, spin=spin, npts=4000, width=width)
                    e, d = np.asarray(e, float), np.asarray(d, float)
                    integral = float(np.sum((d[1:] + d[:-1]) / 2 * np.diff(e)))
                    want = float(np.sum(wk) * 4)
                    if abs(integral - want) > 1e-4 * want or d.min() < 0 or e[0] > eps[:, spin].min() - 4 * width or e[-1] < eps[:, spin].max() + 4 * width:
                        bad.append(dict(Nspin=Nspin, spin=spin, width=width, integral=integral, k_weighted_number_of_states=want, window=[float(e[0]), float(e[-1])]))
        return bad

    def __call__(self, ob, tier, seed):
        from pycv.framework import BOUNDED_OK

        try:
            bad = self.problems()
        except Exception as e:  # noqa: BLE001
            bad = [dict(raised=f"{type(e).__name__}: {e}")]
        if bad:
            return Result(REFUTED, backend="native", witness=bad[0], replayed=True, replay_info=dict(failing=bad[:5]), detail=f"get_dos: {bad[0]}")
        return Result(BOUNDED_OK, backend="native", detail="bounded: 9 synthetic spectra (Nspin 1 and 2, both channels, three widths): the curve integrates to the k-weighted number of states")

    def replay(self, wit):
        bad = self.problems()
        return bool(bad), dict(failing=bad[:5])


register(Obligation(name="C05.get_dos.native_integral", prop=PROP, engine="B", bounded=True, run=DosIntegralNative(), functions=["eminus.tools:get_dos"],
                    doc="BOUNDED: the density of states of synthetic spectra integrates to the k-weighted number of states for one and two spin channels"))


# writes-frame of eminus.tools (AST; shared rule in contracts/frame_common.py)
from contracts.frame_common import WritesFrame  # noqa: E402

register(Obligation(name="C05.tools.writes_frame", prop=PROP, engine="Z", run=WritesFrame(("eminus.tools",)), assumes=("cpython",),
                    functions=["eminus.tools:get_dos", "eminus.tools:get_Efermi", "eminus.tools:get_bandgap", "eminus.tools:check_orthonorm", "eminus.tools:get_tauw", "eminus.tools:get_reduced_gradient"],
                    doc="frame (writes): no function of eminus.tools (density of states, Fermi level, band gap, orthonormality checks, ...) stores in place into a parameter or a possible "
                        "view of one: the eigenvalues, fillings and fields of the SCF object they analyse are left as they are"))
