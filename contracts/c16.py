"""C16 - localised orbitals are unitary transforms of the occupied space; SIC is orbital-wise Hartree + fully polarised XC.

Engine N traces the real eminus.localizer functions on symbolic matrices (symbolic grid size and number of states):

  get_FLO       flo^H flo dV = 1 and flo flo^H = fo (fo^H fo)^-1 fo^H   (assumed contract of linalg.eig for a Hermitian
                positive definite overlap: S = V D V^H with V unitary, D > 0; note that the code multiplies by V^T, not V^H:
                the result is still orthonormal because conj(V) is unitary as well - this is what the trace shows)
  get_scdm      (psi Q)^H (psi Q) dV = 1 and (psi Q)(psi Q)^H = psi psi^H    (assumed contract of scipy qr: Q unitary)
  get_wannier   the loop body maps a generic unitary U to a unitary U E (inductive step on the real loop, started from a
                generic unitary through the random_guess branch); the returned orbitals are psi U; dOmega of
                wannier_supercell_grad is anti-Hermitian for every X, Y, Z (engine A, generic complex matrices)
  get_FO / get_R   every row of R has unit norm, FO_i = sum_{j occupied} R_ij psi_j (engine A, generic complex values)
  get_S         S_ij = dV sum_r conj(psi_ri) psi_rj (engine A, generic)

Engine Z executes the real get_Esic symbolically: the value stored in Energy.Esic is sum over occupied (state, spin) of
(E_H[n_i / w] + E_xc[n_i / w, 0; Nspin = 2]) * w with w the k-summed occupation; and the one-electron clause
`E_H + E_xc + E_sic = 0` (E_PZ = E_KS - sum_i E_SI[n_i] of docs/theory.rst) is checked against the sign the code uses.
"""

from __future__ import annotations

from fractions import Fraction

import numpy as np

from contracts import n_common as H
from contracts.c03 import NOb, rnd
from contracts.n_common import DIM, NArr, NC, NStack, inner, mat_atom, same
from pycv.algebra import core as A
from pycv.framework import DISCHARGED, REFUTED, UNDECIDED, Obligation, Result, register
from pycv.opalg import arrays as R
from pycv.opalg import nc

PROP = "C16"
NST = DIM["Nstate"]
NS = DIM["Ns"]


def ident(n=NST, c=None):
    return NArr(NC.ident(n, c), (n, n))


class Log:
    def __getattr__(self, name):
        return lambda *a, **k: None


def _env(Nspin=1):
    ld = H.make_loader()
    at = H.make_atoms(ld, Nk=1, Nspin=Nspin)
    at._log = Log()
    loc = ld.load("eminus.localizer")
    return ld, at, loc


def orthonormal(x, at):
    return same(inner(x, x) * at.dV, ident())


# ---------------------------------------------------------------------------------------------------------
# FLO
# ---------------------------------------------------------------------------------------------------------


def sym_FLO():
    for Nspin in (1, 2):
        nc.new_ctx()
        ld, at, loc = _env(Nspin)
        fo = NStack([mat_atom(f"fo{s}", NS, NST) for s in range(Nspin)])
        loc.get_FO = lambda atoms, psi, fods: fo
        # callee contract of get_S (proved separately: C16.get_S.overlap)
        loc.get_S = lambda atoms, psirs: inner(psirs, psirs) * atoms.dV
        flo = loc.get_FLO(at, "psi", "fods")
        for s in range(Nspin):
            y = flo.parts[s] if isinstance(flo, NStack) else flo[s]
            if y is None:
                return False, f"spin channel {s} of the Fermi-Loewdin orbitals is not assigned"
            if not orthonormal(y, at):
                return False, f"FLO are not orthonormal: flo^H flo dV != 1 (spin {s})"
            f = fo.parts[s]
            Sinv = NArr(nc.inv((inner(f, f) * at.dV).val), (NST, NST))
            proj = f @ Sinv @ f.conj().T
            if not same(y @ y.conj().T, proj):
                return False, f"FLO do not span the space of the Fermi orbitals: flo flo^H != fo S^-1 fo^H (spin {s})"
    return True, ""


def _native_mol():
    import eminus
    from eminus import SCF, Atoms

    eminus.config.backend = "numpy"
    eminus.config.verbose = "critical"
    at = Atoms("CH4", [[0, 0, 0], [1.2, 1.2, 1.2], [-1.2, -1.2, 1.2], [1.2, -1.2, -1.2], [-1.2, 1.2, -1.2]], ecut=4, a=9, center=True)
    scf = SCF(at, opt={"pccg": 8}, etol=1e-12)
    scf.run()
    return at, scf


def _complexify(at, scf, rng):
    """Occupied orbitals as a generic complex unitary mixture (any orthonormal basis of the occupied space is admissible)."""
    from scipy.stats import unitary_group

    from eminus.dft import get_psi

    psi = get_psi(scf, scf.W)
    U = unitary_group.rvs(at.occ.Nstate, random_state=int(rng.integers(1 << 30)))
    return [np.stack([p @ U for p in psi[0]])]


def nat_FLO_degenerate():
    """Orthonormal plane-wave orbitals exp(i j b1 x) (j = 0..3) and four equally spaced FODs: R is the unitary DFT matrix, the
    Fermi orbitals are already orthonormal and their overlap matrix is the identity up to round-off (4-fold degenerate)."""
    import eminus
    from eminus import Atoms
    from eminus.localizer import get_FLO

    eminus.config.backend = "numpy"
    eminus.config.verbose = "critical"
    at = Atoms("Ne", [0, 0, 0], ecut=5, a=10).build()
    act = at.active[0]
    G = np.asarray(at.G)[np.asarray(act[0] if isinstance(act, (list, tuple)) else act).ravel()]
    b = 2 * np.pi / 10
    idx = [int(np.argmin(np.abs(G - np.array([j * b, 0, 0])).sum(axis=1))) for j in range(4)]
    W = np.zeros((1, len(G), 4), dtype=complex)
    for j, i in enumerate(idx):
        W[0, i, j] = 1 / np.sqrt(at.Omega)
    fods = [np.array([[i * 10 / 4 + 0.3, 0.2, 0.1] for i in range(4)])]
    flo = get_FLO(at, [W], fods)[0][0]
    return float(np.abs(at.dV * flo.conj().T @ flo - np.eye(4)).max())


def nat_FLO(rng):
    from eminus.localizer import get_FLO, get_FO

    e0 = nat_FLO_degenerate()
    if e0 > 1e-8:
        return e0

    at, scf = _native_mol()
    psi = _complexify(at, scf, rng)
    fods = [np.asarray(at.pos[1:5]) * 0.9 + 0.05]
    flo = get_FLO(at, psi, fods)[0][0]
    fo = get_FO(at, psi, fods)[0][0]
    e1 = np.abs(at.dV * flo.conj().T @ flo - np.eye(4)).max()
    psirs = at.I(psi)[0][0]
    n0 = np.sum(np.abs(psirs) ** 2, axis=1)
    e2 = np.abs(np.sum(np.abs(flo) ** 2, axis=1) - n0).max() / np.abs(n0).max()
    rows = np.abs(at.dV * np.sum(np.abs(fo) ** 2, axis=0) - 1).max()
    return max(e1, e2, rows)


# ---------------------------------------------------------------------------------------------------------
# SCDM
# ---------------------------------------------------------------------------------------------------------


def sym_SCDM():
    nc.new_ctx()
    ld, at, loc = _env(1)
    psi = mat_atom("psi_rs", NS, NST)
    # pre-condition: the input orbitals are orthonormal on the grid
    p = list(psi.val.t)[0][0]
    nc.ctx().rule((p.dagger(), p), NC({(): A.ONE / at.dV}, NST, NST))
    at.I = lambda x, ik=0: psi
    calls = []

    def qr(x, pivoting=False, **kw):
        nc.ctx().assumed.add("qr")
        if x.shape != (NST, NS):
            raise A.OutsideSubset(f"qr of a {x.shape} matrix")
        q = nc.ctx().atom("Q_qr", NST, NST, unitary=True)
        nc._unitary_rules(q)
        calls.append(pivoting)
        r = mat_atom("R_qr", NST, NS)
        perm = mat_atom("P_qr", NS, NS)
        return NArr(NC.of(q), (NST, NST)), r, perm

    loc.qr = qr
    R.Backend.to_np = lambda self, x: x
    out = loc.get_scdm(at, psi)
    if not orthonormal(out, at):
        return False, "SCDM orbitals are not orthonormal"
    if not same(out @ out.conj().T, psi @ psi.conj().T):
        return False, "SCDM orbitals do not reproduce the density matrix of the input orbitals"
    if calls != [True]:
        return False, "qr is not called once with column pivoting"
    return True, ""


def nat_SCDM(rng):
    from eminus.localizer import get_scdm

    at, scf = _native_mol()
    psi = _complexify(at, scf, rng)
    out = get_scdm(at, psi[0])[0]
    psirs = at.I(psi)[0][0]
    e1 = np.abs(at.dV * out.conj().T @ out - np.eye(4)).max()
    n0 = np.sum(np.abs(psirs) ** 2, axis=1)
    e2 = np.abs(np.sum(np.abs(out) ** 2, axis=1) - n0).max() / np.abs(n0).max()
    return max(e1, e2)


# ---------------------------------------------------------------------------------------------------------
# Wannier
# ---------------------------------------------------------------------------------------------------------


def sym_wannier():
    for Nit, random_guess in ((0, False), (1, False), (1, True), (2, True)):
        nc.new_ctx()
        ld, at, loc = _env(1)
        at.a = np.diag([5.0, 6.0, 7.0])
        psi = mat_atom("psi_rs", NS, NST)
        p = list(psi.val.t)[0][0]
        nc.ctx().rule((p.dagger(), p), NC({(): A.ONE / at.dV}, NST, NST))
        counter = [0]

        class Cfg:
            backend = "torch"

        loc.config = Cfg()
        XYZ = [NArr(NC.of(nc.ctx().atom(n, NST, NST)), (NST, NST)) for n in "XYZ"]
        loc.wannier_supercell_matrices = lambda atoms, psirs: tuple(XYZ)
        costs = iter([8.0, 4.0, 2.0, 1.0, 0.5, 0.25])
        loc.wannier_supercell_cost = lambda X, Y, Z: next(costs)

        def grad(atoms, X, Y, Z):
            # callee contract (C16.wannier_supercell_grad.antihermitian): the gradient is anti-Hermitian
            counter[0] += 1
            g = nc.ctx().atom(f"G{counter[0]}", NST, NST)
            return NArr(NC.of(g), (NST, NST)), g

        exps = {}

        def grad_arr(atoms, X, Y, Z):
            return grad(atoms, X, Y, Z)[0]

        loc.wannier_supercell_grad = grad_arr

        def matrix_exp(x):
            """assumed contract 'expm': for anti-Hermitian A, expm(A) = E is unitary and expm(-A) = E^H"""
            nc.ctx().assumed.add("expm")
            v = nc.normalise(x.val)
            if len(v.t) != 1:
                raise A.OutsideSubset("expm of a sum")
            ((w, c),) = v.t.items()
            if len(w) != 1 or not w[0].name.startswith("G"):
                raise A.OutsideSubset("expm of something that is not a multiple of the (anti-Hermitian) Wannier gradient")
            key = w[0].name
            if key not in exps:
                e = nc.ctx().atom(f"E[{key}]", NST, NST, unitary=True)
                nc._unitary_rules(e)
                exps[key] = (e, c)
            e, c0 = exps[key]
            if A.is_zero(c - c0, budget=5):
                return NArr(NC.of(e), (NST, NST))
            if A.is_zero(c + c0, budget=5):
                return NArr(NC.of(e.dagger()), (NST, NST))
            raise A.OutsideSubset("two different step lengths for one gradient")

        R.Backend.linalg.matrix_exp = staticmethod(matrix_exp)
        R.Backend.eye = lambda self, n, dtype=None, **kw: ident(n)
        R.Backend.diag = _diag_with_numpy

        class UG:
            @staticmethod
            def rvs(n, random_state=None):
                u = nc.ctx().atom("U0", NST, NST, unitary=True)
                nc._unitary_rules(u)
                return NArr(NC.of(u), (NST, NST))

        loc.unitary_group = UG()
        out = loc.get_wannier(at, psi, Nit=Nit, conv_tol=1e-7, mu=1, random_guess=random_guess, seed=3)
        if not orthonormal(out, at):
            return False, f"Wannier orbitals are not orthonormal (Nit={Nit}, random_guess={random_guess})"
        if not same(out @ out.conj().T, psi @ psi.conj().T):
            return False, f"Wannier orbitals do not reproduce the density matrix (Nit={Nit}, random_guess={random_guess})"
        if counter[0] != Nit:
            return False, f"{counter[0]} gradient evaluations for Nit={Nit}"
    return True, ""


_orig_diag = R.Backend.diag


def _diag_with_numpy(self, x):
    if isinstance(x, np.ndarray):
        return np.diag(x)
    return _orig_diag(self, x)


def nat_wannier(rng):
    from eminus.localizer import get_wannier

    at, scf = _native_mol()
    psi = _complexify(at, scf, rng)
    psirs = at.I(psi)[0][0]
    out = get_wannier(at, psirs, Nit=6, random_guess=True, seed=int(rng.integers(1 << 30)))
    e1 = np.abs(at.dV * out.conj().T @ out - np.eye(4)).max()
    n0 = np.sum(np.abs(psirs) ** 2, axis=1)
    e2 = np.abs(np.sum(np.abs(out) ** 2, axis=1) - n0).max() / np.abs(n0).max()
    return max(e1, e2)


def _register_n():
    loc = "eminus.localizer"
    for name, sym, nat, funcs, assumes, doc in (
        ("C16.get_FLO.orthonormal_and_span", sym_FLO, nat_FLO, [f"{loc}:get_FLO"], ("engineN", "eig", "callee-contract", "inv"),
         "Fermi-Loewdin orbitals: flo^H flo dV = 1 and flo flo^H = fo (fo^H fo)^-1 fo^H for symbolic sizes, Nspin in {1,2} (eig contract for the Hermitian positive overlap)"),
        ("C16.get_scdm.unitary_transform", sym_SCDM, nat_SCDM, [f"{loc}:get_scdm"], ("engineN", "qr"),
         "SCDM orbitals: orthonormal and with the density matrix of the input orbitals (Q of the pivoted QR is unitary)"),
        ("C16.get_wannier.unitary_transform", sym_wannier, nat_wannier, [f"{loc}:get_wannier"], ("engineN", "expm", "callee-contract"),
         "Wannier orbitals: the real loop body maps a generic unitary to a unitary (inductive step, random_guess branch) and the result is psi U: orthonormal, same density matrix"),
    ):
        register(Obligation(name=name, prop=PROP, engine="N", functions=funcs, run=NOb(sym, nat), assumes=assumes, doc=doc, budget={"quick": 120, "thorough": 300}))


_register_n()


# ---------------------------------------------------------------------------------------------------------
# engine A: element-wise helper functions on generic complex input
# ---------------------------------------------------------------------------------------------------------


def _cvar(C, name):
    return C.var(name + "r") + A.I() * C.var(name + "i")


class Stub:
    pass


class ElementWise:
    """wannier_supercell_grad is anti-Hermitian; get_S is the grid overlap; rows of get_R are normalised."""

    def __init__(self, what):
        self.what = what

    def __call__(self, ob, tier, seed):
        try:
            return self.prove()
        except (A.OutsideSubset, A.Undecided, TypeError, AttributeError, IndexError, ValueError, KeyError) as e:
            wit = dict(what=self.what, seed=seed)
            ok, info = self.replay(wit)
            if ok:
                return Result(REFUTED, backend="native-contract-evaluation", witness=wit, replayed=True, replay_info=info,
                              detail=f"{self.what}: contract violated natively (trace left the subset: {type(e).__name__}: {e})")
            return Result(UNDECIDED, backend="engine-A", detail=f"outside subset: {type(e).__name__}: {e}")

    def prove(self):
        from pycv.algebra.backend import make_loader
        from pycv.algebra.core import is_zero, lift, new_ctx

        checked = 0
        for n in (1, 2, 3):
            C = new_ctx()
            ld = make_loader(native_extra=("eminus",))
            loc = ld.load("eminus.localizer")
            at = Stub()
            at.occ = Stub()
            at.occ.Nstate = n
            at.occ.Nspin = 1
            at._atoms = at
            at.kpts = Stub()
            at.kpts._assert_gamma_only = lambda: None
            if self.what == "grad":
                mats = []
                for nm in "XYZ":
                    M = np.empty((n, n), dtype=object)
                    for i in range(n):
                        for j in range(n):
                            M[i, j] = _cvar(C, f"{nm}{i}{j}")
                    mats.append(M)
                g = np.asarray(loc.wannier_supercell_grad(at, *mats), dtype=object)
                if g.shape != (n, n):
                    return self.refute(f"gradient has shape {g.shape}")
                for i in range(n):
                    for j in range(n):
                        res = lift(g[i, j]) + lift(g[j, i]).conjugate()
                        if not is_zero(res, budget=30):
                            return self.refute(f"dOmega[{i},{j}] + conj(dOmega[{j},{i}]) != 0 for generic complex X, Y, Z (N={n})")
                        checked += 1
            elif self.what == "S":
                ns = 3
                at.dV = C.var("dV", positive=True)
                psi = np.empty((ns, n), dtype=object)
                for r in range(ns):
                    for i in range(n):
                        psi[r, i] = _cvar(C, f"p{r}{i}")
                S = np.asarray(loc.get_S(at, psi), dtype=object)
                if S.shape != (n, n):
                    return self.refute(f"overlap has shape {S.shape}")
                for i in range(n):
                    for j in range(n):
                        want = at.dV * sum(psi[r, i].conjugate() * psi[r, j] for r in range(ns))
                        if not is_zero(lift(S[i, j]) - want, budget=30):
                            return self.refute(f"S[{i},{j}] != dV sum_r conj(psi_ri) psi_rj (N={n})")
                        checked += 1
            elif self.what == "R":
                vals = [[_cvar(C, f"p{a}{j}") for j in range(n)] for a in range(n)]
                calls = []

                def eval_psi(atoms, psi, r, vals=vals, calls=calls):
                    calls.append(r)
                    return np.array(vals[r], dtype=object)

                loc.eval_psi = eval_psi
                fods = list(range(n))
                Rm = np.asarray(loc.get_R(at, "psi", fods), dtype=object)
                if Rm.shape != (n, n):
                    return self.refute(f"R has shape {Rm.shape}")
                for i in range(n):
                    nrm = sum(lift(Rm[i, j]) * lift(Rm[i, j]).conjugate() for j in range(n))
                    if not is_zero(nrm - 1, budget=60):
                        return self.refute(f"row {i} of R is not normalised (N={n})")
                    # direction: R_ij proportional to conj(psi_j(a_i)) with a positive factor
                    for j in range(n):
                        for k in range(n):
                            cross = lift(Rm[i, j]) * vals[i][k].conjugate() - lift(Rm[i, k]) * vals[i][j].conjugate()
                            if not is_zero(cross, budget=60):
                                return self.refute(f"row {i} of R is not proportional to conj(psi(a_{i})) (N={n})")
                    checked += 1
        return Result(DISCHARGED, backend="algebra-normaliser", stats=dict(identities=checked, sizes=[1, 2, 3]),
                      detail="generic complex entries; number of states 1..3 (the loop body is the same for every index pair)")

    def refute(self, msg):
        wit = dict(what=self.what, seed=0)
        ok, info = self.replay(wit)
        return Result(REFUTED, backend="engine-A", witness=wit, replayed=ok, replay_info=info, detail=f"{self.what}: {msg}")

    def replay(self, wit):
        import eminus
        from eminus import localizer

        eminus.config.backend = "numpy"
        rng = np.random.default_rng(wit.get("seed", 0))
        at = Stub()
        at.occ = Stub()
        at.occ.Nstate = 3
        at._atoms = at
        at.kpts = Stub()
        at.kpts._assert_gamma_only = lambda: None
        if wit["what"] == "grad":
            X, Y, Z = (rnd(rng, 3, 3) for _ in range(3))
            g = np.asarray(localizer.wannier_supercell_grad(at, X, Y, Z))
            err = np.abs(g + g.conj().T).max()
        elif wit["what"] == "S":
            at.dV = 0.37
            psi = rnd(rng, 5, 3)
            err = np.abs(np.asarray(localizer.get_S(at, psi)) - 0.37 * psi.conj().T @ psi).max()
        else:
            vals = rnd(rng, 3, 3)
            orig = localizer.eval_psi
            localizer.eval_psi = lambda atoms, psi, r: vals[r]
            try:
                Rm = np.asarray(localizer.get_R(at, np.zeros((2, 3)), [0, 1, 2]))
            finally:
                localizer.eval_psi = orig
            err = max(np.abs(np.sum(np.abs(Rm) ** 2, axis=1) - 1).max(),
                      np.abs(Rm - vals.conj() / np.sqrt(np.sum(np.abs(vals) ** 2, axis=1))[:, None]).max())
        return bool(err > 1e-9), dict(check=f"{wit['what']}: identity evaluated natively on random complex input", max_abs_err=float(err))


for _w, _fn, _doc in (("grad", "wannier_supercell_grad", "the supercell Wannier gradient is anti-Hermitian for every complex X, Y, Z (pre-condition of the expm contract)"),
                      ("S", "get_S", "get_S returns S_ij = dV sum_r conj(psi_ri) psi_rj (callee contract used by the FLO obligation)"),
                      ("R", "get_R", "every row of the Fermi-orbital matrix R is conj(psi(a_i)) / |psi(a_i)|: unit norm, so Fermi orbitals are normalised combinations")):
    register(Obligation(name=f"C16.{_fn}.{ {'grad': 'antihermitian', 'S': 'overlap', 'R': 'rows_normalised'}[_w] }", prop=PROP, engine="A",
                        functions=[f"eminus.localizer:{_fn}"], run=ElementWise(_w), assumes=("engineA", "reals"), doc=_doc))


# ---------------------------------------------------------------------------------------------------------
# engine Z: get_Esic
# ---------------------------------------------------------------------------------------------------------

import ast as _ast  # noqa: E402

import z3  # noqa: E402

from pycv.wp.explore import check_valid, explore, named  # noqa: E402
from pycv.wp.interp import OutsideSubset, PyRaise, Sym, World  # noqa: E402
from pycv.wp.numext import NUM_EXT  # noqa: E402


class ZStub:
    _zplain = True


class FArr:
    """atoms.occ.f: only the k-summed occupation sum_k f[k, spin, i] wk[k] =: w[spin][i] is observed."""

    _zpy = True

    def z_getitem(self, it, idx):
        if not (isinstance(idx, tuple) and len(idx) == 3 and isinstance(idx[0], slice) and isinstance(idx[1], int) and isinstance(idx[2], int)):
            raise OutsideSubset(f"occupations indexed as f[{idx}]")
        return FCol(idx[1], idx[2])

    def z_val(self, world):
        return world.const_val("occ.f")


class FCol:
    _zpy = True

    def __init__(self, spin, i):
        self.spin, self.i = spin, i

    def z_binop(self, it, op, other, swapped):
        if op is _ast.Mult and isinstance(other, Wk):
            return WProd(self.spin, self.i)
        return NotImplemented

    def z_val(self, world):
        return world.const_val(("fcol", self.spin, self.i))


class Wk:
    _zpy = True

    def z_binop(self, it, op, other, swapped):
        if op is _ast.Mult and isinstance(other, FCol):
            return WProd(other.spin, other.i)
        return NotImplemented

    def z_val(self, world):
        return world.const_val("kpts.wk")


class WProd:
    _zpy = True

    def __init__(self, spin, i):
        self.spin, self.i = spin, i

    def z_val(self, world):
        return world.const_val(("wprod", self.spin, self.i))


class NSingle:
    _zpy = True

    def __init__(self, w):
        self.w = w

    def z_getitem(self, it, idx):
        if not (isinstance(idx, tuple) and len(idx) == 3 and isinstance(idx[1], slice) and isinstance(idx[0], int) and isinstance(idx[2], int)):
            raise OutsideSubset(f"single-particle densities indexed as n_single[{idx}]")
        return named(self.w, f"n_single[{idx[0]},:,{idx[2]}]", "val")

    def z_val(self, world):
        return world.const_val("n_single")


class Rows:
    """xp.zeros((2, ...)): two rows, assigned by row."""

    _zpy = True

    def __init__(self, tag):
        self.tag = tag
        self.rows = {0: "zero", 1: "zero"}

    def z_getitem(self, it, idx):
        if idx in (0, 1):
            return self.rows[idx]
        raise OutsideSubset(f"row index {idx}")

    def z_setitem(self, it, idx, value):
        if idx not in (0, 1):
            raise OutsideSubset(f"row index {idx}")
        self.rows[idx] = value
        return self

    def z_val(self, world):
        f = world.uf_raw("rows2", [world.to_val(0).sort()] * 2, world.to_val(0).sort())
        return f(world.to_val(self.rows[0]), world.to_val(self.rows[1]))


class Esic:
    def __init__(self, clause):
        self.clause = clause

    def __call__(self, ob, tier, seed):
        try:
            return self.prove()
        except (OutsideSubset, PyRaise, TypeError, AttributeError, KeyError, ValueError, IndexError, z3.Z3Exception) as e:
            wit = dict(clause=self.clause)
            ok, info = self.replay(wit)
            if ok:
                return Result(REFUTED, backend="native-contract-evaluation", witness=wit, replayed=True, replay_info=info,
                              detail=f"get_Esic: {self.clause} violated natively (symbolic run left the subset: {type(e).__name__}: {e})")
            return Result(UNDECIDED, backend="engine-Z", detail=f"outside subset: {type(e).__name__}: {e}")

    def run_case(self, Nstate, Nspin, xc_type):
        w = World()
        mod = w.module("eminus.energies")
        calls = []

        def ecoul(it, a, k):
            calls.append(("coul", a[1]))
            return it.w.uf("E_H", [a[1]], "real")

        def exc(it, a, k):
            calls.append(("xc", a[1], dict(k)))
            return it.w.uf("E_xc", [a[1], k.get("n_spin"), k.get("Nspin", 2)], "real")

        ext = dict(NUM_EXT)
        ext["func:get_Ecoul"] = ecoul
        ext["func:get_Exc"] = exc
        ext["func:get_grad_field"] = lambda it, a, k: [it.w.uf("grad_field0", [a[1]], "val")]
        ext["xp.zeros"] = lambda it, a, k: Rows(len(calls))
        ext["xp.zeros_like"] = lambda it, a, k: Rows(len(calls))
        ext["xp.sum"] = lambda it, a, k: (named(w, f"w[{a[0].spin}][{a[0].i}]", "real") if isinstance(a[0], WProd) else NUM_EXT["xp.sum"](it, a, k))
        occ = ZStub()
        occ.Nstate, occ.Nspin, occ.f = Nstate, Nspin, FArr()
        kpts = ZStub()
        kpts.wk, kpts.Nk = Wk(), 1
        at = ZStub()
        at.occ, at.kpts, at.Ns = occ, kpts, named(w, "Ns", "int")
        en = ZStub()
        en.Esic = 0
        scf = ZStub()
        scf.atoms, scf.xc_type, scf.energies = at, xc_type, en
        ns = NSingle(w)

        def run(it):
            del calls[:]
            en.Esic = 0
            f = it.lookup_global("get_Esic", mod)
            r = it.call(f, [scf, named(w, "Y", "val")], {"n_single": ns})
            return (r, en.Esic, list(calls)), None

        ws = [named(w, f"w[{s}][{i}]", "real") for s in range(Nspin) for i in range(Nstate)]
        res = explore(w, run, assumptions=[x.e >= 0 for x in ws], ext=ext, max_paths=300)
        return w, res

    def prove(self):
        npaths = 0
        cases = [(2, 2, "lda"), (2, 1, "gga"), (1, 1, "lda")] if self.clause == "formula" else [(1, 1, "lda"), (1, 2, "gga")]
        for Nstate, Nspin, xc_type in cases:
            w, res = self.run_case(Nstate, Nspin, xc_type)
            for r in res:
                npaths += 1
                if r.outcome != "return":
                    raise OutsideSubset(f"get_Esic ended with {r.outcome}: {r.value}")
                ret, stored, calls = r.value
                it = r.interp
                total = z3.RealVal(0)
                occupied = []
                for i in range(Nstate):
                    for s in range(Nspin):
                        wv = named(w, f"w[{s}][{i}]", "real")
                        v, _ = check_valid(w, list(r.path.pc), wv.e > 0)
                        if v != "proved":
                            continue
                        occupied.append((s, i))
                        ni = it.binop(_ast.Div, named(w, f"n_single[{s},:,{i}]", "val"), wv)
                        rows = Rows(0)
                        rows.rows[0] = ni
                        eh = w.uf("E_H", [ni], "real")
                        ex = w.uf("E_xc", [ni, rows, 2], "real")
                        total = total + (eh.e + ex.e) * wv.e
                ncalls = sum(1 for c in calls if c[0] == "xc")
                if ncalls != len(occupied):
                    return self.refute(f"{ncalls} XC evaluations for {len(occupied)} occupied orbitals")
                for c in calls:
                    if c[0] == "xc" and c[2].get("Nspin", 2) != 2:
                        return self.refute("the XC self-interaction energy is not evaluated spin-polarised (Nspin=2)")
                    if c[0] == "xc" and xc_type == "gga" and c[2].get("dn_spin") is None:
                        return self.refute("no density gradient is passed for a GGA functional")
                rz = ret.e if isinstance(ret, Sym) else z3.RealVal(repr(float(ret)))
                sz = stored.e if isinstance(stored, Sym) else z3.RealVal(repr(float(stored)))
                if isinstance(ret, Sym) and ret.kind != "real":
                    raise OutsideSubset("non-real return value")
                if self.clause == "formula":
                    v, m = check_valid(w, list(r.path.pc), z3.And(rz == total, sz == total))
                    if v == "refuted":
                        return self.refute(f"Esic != sum over occupied orbitals of (E_H[n_i/w_i] + E_xc[n_i/w_i, 0]) w_i (Nstate={Nstate}, Nspin={Nspin}, occupied {occupied})", str(m)[:1200])
                    if v != "proved":
                        return Result(UNDECIDED, backend="z3", detail=f"formula clause: {v}")
                else:
                    # one electron: w = 1; the total energy contains E_H[n] + E_xc[n, 0] of the same density; E_PZ = E_KS - E_SI
                    if len(occupied) != 1:
                        continue
                    s, i = occupied[0]
                    wv = named(w, f"w[{s}][{i}]", "real")
                    hyp = list(r.path.pc) + [wv.e == 1]
                    v, m = check_valid(w, hyp, sz + total == 0)
                    if v == "refuted":
                        return self.refute("one electron: E_H[n] + E_xc[n,0] + Esic != 0 - the self-interaction energy is ADDED to the total energy "
                                           "instead of subtracted (docs/theory.rst: E_PZ = E_KS - sum_i E_SI[n_i])", str(m)[:1200])
                    if v != "proved":
                        return Result(UNDECIDED, backend="z3", detail=f"one-electron clause: {v}")
        if npaths == 0:
            return Result(UNDECIDED, backend="engine-Z", detail="no path explored")
        return Result(DISCHARGED, backend="z3", stats=dict(paths=npaths, cases=cases))

    def refute(self, msg, model=""):
        wit = dict(clause=self.clause)
        ok, info = self.replay(wit)
        return Result(REFUTED, backend="z3", witness=wit, replayed=ok, replay_info=info, solver_output=model, detail=f"get_Esic: {msg}")

    def replay(self, wit):
        import eminus
        from eminus import SCF, Atoms
        from eminus.dft import get_n_single
        from eminus.energies import get_Ecoul, get_Esic, get_Exc

        eminus.config.backend = "numpy"
        eminus.config.verbose = "critical"
        if wit["clause"] == "one_electron":
            at = Atoms("H", [0, 0, 0], ecut=5, a=8, unrestricted=True)
            scf = SCF(at, sic=True, opt={"pccg": 15}, etol=1e-9)
            scf.run()
            e = scf.energies
            resid = e.Ecoul + e.Exc + e.Esic
            return bool(abs(resid) > 1e-6), dict(check="H atom, unrestricted, SCF(sic=True): Ecoul + Exc + Esic (must vanish for one electron)",
                                                Ecoul=e.Ecoul, Exc=e.Exc, Esic=e.Esic, residual=resid)
        from eminus.gga import get_grad_field

        rows = []
        # fillings 1 (unrestricted), 2 (restricted closed shell), 1 in a RESTRICTED odd-electron system and fractional fillings
        cases = (("LiH unrestricted", dict(atom="LiH", pos=[[0, 0, 0], [0, 0, 3]], unrestricted=True), None),
                 ("H restricted (f = 1)", dict(atom="H", pos=[[0, 0, 0]], unrestricted=False), None),
                 ("LiH restricted, fillings [2, 1.5, 0.5]", dict(atom="LiH", pos=[[0, 0, 0], [0, 0, 3]], unrestricted=False), [[2, 1.5, 0.5]]))
        for name, kw, fill in cases:
            at = Atoms(kw["atom"], kw["pos"], ecut=4, a=8, unrestricted=kw["unrestricted"])
            if fill is not None:
                at.f = fill
            scf = SCF(at, xc="pbe", opt={"pccg": 4}, etol=1e-9)
            scf.run()
            at = scf.atoms
            ns = np.asarray(get_n_single(at, scf.Y))
            scf.energies.Esic = 123.0  # sentinel: the contract is about the value STORED in the energies of the SCF object (Etot sums the stored fields)
            got = get_Esic(scf, scf.Y)
            stored = float(scf.energies.Esic)
            want = 0.0
            for i in range(at.occ.Nstate):
                for s_ in range(at.occ.Nspin):
                    wgt = float(np.sum(np.asarray(at.occ.f)[:, s_, i] * np.asarray(at.kpts.wk)))
                    if wgt > 0:
                        ni = np.zeros((2, at.Ns))
                        ni[0] = ns[s_, :, i] / wgt
                        dni = np.zeros((2, at.Ns, 3))
                        dni[0] = np.asarray(get_grad_field(at, ni))[0]
                        want += (get_Ecoul(at, ni[0]) + get_Exc(scf, ni[0], n_spin=ni, dn_spin=dni, Nspin=2)) * wgt
            rows.append(dict(case=name, Esic=float(got), stored_in_scf_energies=stored, expected=float(want), bad=bool(abs(got - want) > 1e-9 * max(1.0, abs(want)) or abs(stored - float(got)) > 1e-12)))
        return any(r["bad"] for r in rows), dict(check="PBE: Esic vs sum_i w_i (E_H[n_i / w_i] + E_xc[n_i / w_i, 0])", cases=rows)


register(Obligation(name="C16.get_Esic.formula", prop=PROP, engine="Z", functions=["eminus.energies:get_Esic"], run=Esic("formula"), assumes=("engineZ", "z3", "callee-contract"),
                    doc="Energy.Esic (and the return value) is the sum over occupied (state, spin) of (E_H[n_i/w_i] + E_xc[n_i/w_i, 0; Nspin=2]) w_i "
                        "(symbolic occupations and densities; Nstate x Nspin in {2x2, 2x1, 1x1}; LDA and GGA argument passing)"))
register(Obligation(name="C16.get_Esic.one_electron", prop=PROP, engine="Z", functions=["eminus.energies:get_Esic", "eminus.energies:Energy.Etot"], run=Esic("one_electron"),
                    assumes=("engineZ", "z3", "callee-contract"),
                    doc="one electron: the total energy (sum of all Energy fields) contains no Hartree / XC self-interaction: E_H[n] + E_xc[n,0] + Esic = 0"))


class ExcSameFunctional:
    """The per-orbital XC energy of the SIC is evaluated with the functional AND the functional parameters of the SCF object
    (otherwise E_SI is not 'its fully spin-polarised XC energy' for the functional the total energy uses)."""

    def __call__(self, ob, tier, seed):
        try:
            w = World()
            mod = w.module("eminus.energies")
            seen = []

            def get_exc(it, a, k):
                names = ["xc", "n_spin", "Nspin", "dn_spin", "tau", "xc_params", "dens_threshold"]
                d = dict(zip(names, a))
                d.update(k)
                seen.append(d)
                return it.w.uf("exc", [d.get("xc"), d.get("n_spin"), d.get("Nspin"), d.get("dn_spin"), d.get("tau"), d.get("xc_params")], "val")

            ext = dict(NUM_EXT)
            ext["func:get_exc"] = get_exc
            ext["get_exc"] = get_exc
            ext["float"] = lambda it, a, k: a[0]
            scf = ZStub()
            scf.atoms = named(w, "atoms", "val")
            scf.xc = named(w, "scf.xc", "val")
            scf.xc_params = named(w, "scf.xc_params", "val")
            ns, dn, tau = named(w, "n_spin", "val"), named(w, "dn_spin", "val"), named(w, "tau", "val")

            def run(it):
                f = it.lookup_global("get_Exc", mod)
                return it.call(f, [scf, named(w, "n", "val")], {"n_spin": ns, "dn_spin": dn, "tau": tau, "Nspin": 2}), None

            res = explore(w, run, ext=ext)
            if not res or any(r.outcome != "return" for r in res):
                raise OutsideSubset(f"get_Exc: {[r.outcome for r in res]}")
            if len(seen) != 1:
                return self.refute(f"{len(seen)} evaluations of the energy density")
            d = seen[0]
            for key, want in (("xc", scf.xc), ("xc_params", scf.xc_params), ("n_spin", ns), ("dn_spin", dn), ("tau", tau)):
                got = d.get(key)
                if not (isinstance(got, Sym) and got.e.eq(want.e)):
                    return self.refute(f"the energy density is evaluated with {key}={got!r} instead of the {'SCF object' if key.startswith('xc') else 'given'} {key}")
            if d.get("Nspin") != 2:
                return self.refute(f"Nspin={d.get('Nspin')!r} is passed instead of the requested 2")
            return Result(DISCHARGED, backend="engine-Z", detail="get_Exc evaluates get_exc(scf.xc, n_spin, Nspin, dn_spin, tau, scf.xc_params)")
        except (OutsideSubset, PyRaise, TypeError, AttributeError, KeyError, ValueError, IndexError) as e:
            ok, info = self.replay({})
            if ok:
                return Result(REFUTED, backend="native-contract-evaluation", witness=dict(case="pbe mu=0.1"), replayed=True, replay_info=info,
                              detail=f"get_Exc ignores the functional parameters of the SCF object ({type(e).__name__}: {e})")
            return Result(UNDECIDED, backend="engine-Z", detail=f"outside subset: {type(e).__name__}: {e}")

    def refute(self, msg):
        ok, info = self.replay({})
        return Result(REFUTED, backend="engine-Z", witness=dict(case="pbe mu=0.1"), replayed=ok, replay_info=info, detail=f"get_Exc: {msg}")

    def replay(self, wit):
        import eminus
        from eminus import SCF, Atoms
        from eminus.energies import get_Exc
        from eminus.xc import get_exc

        eminus.config.backend = "numpy"
        eminus.config.verbose = "critical"
        at = Atoms("He", [0, 0, 0], ecut=3, a=6, unrestricted=True)
        scf = SCF(at, xc="pbe", opt={"sd": 2})
        scf.xc_params = {"mu": 0.1, "beta": 0.03}
        scf.run()
        n_spin, dn = scf.n_spin, scf.dn_spin
        n = np.sum(np.asarray(n_spin), axis=0)
        got = get_Exc(scf, n, n_spin=n_spin, dn_spin=dn, Nspin=2)
        exc = get_exc(scf.xc, n_spin, 2, dn, None, scf.xc_params)
        want = get_Exc(scf, n, exc=exc)
        return bool(abs(got - want) > 1e-10), dict(check="He, PBE with mu=0.1, beta=0.03: get_Exc(n_spin=...) vs get_Exc(exc=get_exc(..., scf.xc_params))", got=float(got), expected=float(want))


register(Obligation(name="C16.get_Exc.functional_and_parameters_of_scf", prop=PROP, engine="Z", functions=["eminus.energies:get_Exc"], run=ExcSameFunctional(),
                    assumes=("engineZ",), doc="get_Exc evaluates the energy density with scf.xc AND scf.xc_params and the densities / gradients / tau it is given (used per orbital by get_Esic)"))


# ---------------------------------------------------------------------------------------------------------
# Fermi orbitals: normalised combinations of the occupied orbitals (its own obligation: the replay of get_FLO is an open finding)
# ---------------------------------------------------------------------------------------------------------


def nat_FO(rng):
    """FO_i = sum_j R[i, j] psi_j with R = get_R (rows normalised): every Fermi orbital is normalised, lies in the span of the occupied
    orbitals and is the combination the transformation matrix says (complex orthonormal orbitals, CH4, FODs near the hydrogens)."""
    from eminus.localizer import get_FO, get_R

    at, scf = _native_mol()
    psi = _complexify(at, scf, rng)
    fods = [np.asarray(at.pos[1:5]) * 0.9 + 0.05]
    fo = np.asarray(get_FO(at, psi, fods)[0][0])
    psirs = np.asarray(at.I(psi)[0][0])
    Rm = np.asarray(get_R(at, psi[0][0], fods[0]))
    want = psirs @ Rm.T  # column i: sum_j R[i, j] psi_j
    e = float(np.abs(fo - want).max() / np.abs(want).max())
    e = max(e, float(np.abs(at.dV * np.sum(np.abs(fo) ** 2, axis=0) - 1).max()))
    # in the span of the occupied orbitals: the projection reproduces the orbital
    P = at.dV * psirs @ (psirs.conj().T @ fo)
    return max(e, float(np.abs(P - fo).max() / np.abs(fo).max()))


from contracts.c04_c05_c01_c11 import BoundedNative  # noqa: E402

register(Obligation(name="C16.get_FO.normalised_combinations_of_occupied", prop=PROP, engine="B", bounded=True, functions=["eminus.localizer:get_FO", "eminus.localizer:get_R"],
                    run=BoundedNative(nat_FO, 1, tol=1e-8, what="FO_i = sum_j R[i, j] psi_j, normalised, in the occupied span (CH4, complex orthonormal orbitals)"),
                    budget={"quick": 300, "thorough": 600},
                    doc="BOUNDED: Fermi orbitals are the normalised combinations sum_j R[i, j] psi_j of the occupied orbitals"))


# ---------------------------------------------------------------------------------------------------------
# the wrappers of eminus/orbitals.py localise the orbitals of the CURRENT coefficients; Fermi orbitals for non-uniform fillings
# ---------------------------------------------------------------------------------------------------------


def nat_wrappers(rng):
    """KSO / SCDM / WO / FO (and FLO where its open finding does not apply) called on an SCF object whose stored orthonormal orbitals lag behind its
    coefficients (a run that ends in steepest-descent steps; coefficients replaced after the run): the returned orbitals are orthonormal and
    reproduce the density of the occupied space of the CURRENT coefficients."""
    import eminus
    from eminus import SCF, Atoms
    from eminus.dft import get_n_total, orth
    from eminus.orbitals import KSO, SCDM, WO

    eminus.config.backend = "numpy"
    eminus.config.verbose = "critical"
    at = Atoms("CH4", [[0, 0, 0], [1.2, 1.2, 1.2], [-1.2, -1.2, 1.2], [1.2, -1.2, -1.2], [-1.2, 1.2, -1.2]], ecut=4, a=9, center=True)
    scf = SCF(at, opt={"sd": 4}, etol=1e-12)
    scf.run()
    at = scf.atoms
    e = 0.0
    for variant in ("after sd steps", "coefficients replaced"):
        if variant == "coefficients replaced":
            scf.W = [np.asarray(w) + 0.3 * rnd(rng, *np.shape(w)) for w in scf.W]
        n_ref = np.asarray(get_n_total(at, orth(at, scf.W)))
        for fn in (KSO, SCDM, WO):
            orb = np.asarray(fn(scf)[0][0])
            n = np.asarray(at.occ.f)[0, 0, 0] * np.sum(np.abs(orb) ** 2, axis=1)
            e = max(e, float(np.abs(n - n_ref).max() / np.abs(n_ref).max()), float(np.abs(at.dV * orb.conj().T @ orb - np.eye(orb.shape[1])).max()))
    # the FLO workflow with given FODs near the four bonds (away from the degenerate configurations of the open finding on get_FLO): orthonormal, same density
    from eminus.orbitals import FLO

    c = float(np.asarray(at.pos)[0][0])
    fods = np.array([[c - 0.84, c - 0.84, c + 0.89], [c + 0.89] * 3, [c + 0.73, c - 0.84, c - 0.84], [c - 0.84, c + 0.73, c - 0.84]])
    n_ref = np.asarray(get_n_total(at, orth(at, scf.W)))
    orb = np.asarray(FLO(scf, fods=[fods] * at.occ.Nspin)[0][0])
    n = np.asarray(at.occ.f)[0, 0, 0] * np.sum(np.abs(orb) ** 2, axis=1)
    e = max(e, float(np.abs(n - n_ref).max() / np.abs(n_ref).max()), float(np.abs(at.dV * orb.conj().T @ orb - np.eye(orb.shape[1])).max()))
    # two spin channels with the SAME number of electrons but DIFFERENT orbitals (spin 0 does not mean identical channels): every channel keeps its own density
    from eminus.dft import get_n_spin

    at2 = Atoms("LiH", [[0.0, 0.0, 0.0], [0.0, 0.0, 3.0]], ecut=4, a=8, unrestricted=True)
    scf2 = SCF(at2, opt={"sd": 2}, etol=1e-12)
    scf2.run()
    a2 = scf2.atoms
    scf2.W = [np.asarray(w) + 0.4 * rnd(rng, *np.shape(w)) for w in scf2.W]
    ns_ref = np.asarray(get_n_spin(a2, orth(a2, scf2.W)))
    if np.abs(ns_ref[0] - ns_ref[1]).max() < 1e-3 * np.abs(ns_ref).max():
        raise RuntimeError("harness: the two spin channels are not different")
    for fn in (KSO, SCDM, WO):
        orbs = np.asarray(fn(scf2)[0])
        for sp in range(2):
            n = np.sum(np.asarray(a2.occ.f)[0, sp][None, :] * np.abs(orbs[sp]) ** 2, axis=1)
            e = max(e, float(np.abs(n - ns_ref[sp]).max() / np.abs(ns_ref).max()))
    return e


def nat_FO_fillings(rng):
    """Fermi orbitals for fillings that differ inside a spin channel (restricted open shell: 2, 2, 2, 1): still the normalised combinations
    sum_j R[i, j] psi_j of the occupied orbitals - the fillings only decide which orbitals are occupied."""
    from eminus.localizer import get_FO, get_R

    at, scf = _native_mol()
    psi = _complexify(at, scf, rng)
    at.occ._f = np.array([[[2.0, 2.0, 2.0, 1.0]]])
    try:
        fods = [np.asarray(at.pos[1:5]) * 0.9 + 0.05]
        fo = np.asarray(get_FO(at, psi, fods)[0][0])
        psirs = np.asarray(at.I(psi)[0][0])
        Rm = np.asarray(get_R(at, psi[0][0], fods[0]))
        want = psirs @ Rm.T
        e = float(np.abs(fo - want).max() / np.abs(want).max())
        return max(e, float(np.abs(at.dV * np.sum(np.abs(fo) ** 2, axis=0) - 1).max()))
    finally:
        at.occ._f = np.array([[[2.0, 2.0, 2.0, 2.0]]])


register(Obligation(name="C16.orbital_wrappers.localise_current_coefficients", prop=PROP, engine="B", bounded=True, functions=["eminus.orbitals:SCDM", "eminus.orbitals:WO", "eminus.orbitals:KSO"],
                    run=BoundedNative(nat_wrappers, 1, tol=1e-8, what="KSO / SCDM / WO on an SCF object whose stored Y lags behind W: orthonormal, density of the occupied space of the current W"),
                    budget={"quick": 400, "thorough": 800},
                    doc="BOUNDED: the orbital wrappers start from get_psi(scf, scf.W) - not from intermediate fields of the SCF object that may belong to earlier coefficients"))
register(Obligation(name="C16.get_FO.non_uniform_fillings", prop=PROP, engine="B", bounded=True, functions=["eminus.localizer:get_FO", "eminus.localizer:get_R"],
                    run=BoundedNative(nat_FO_fillings, 1, tol=1e-8, what="Fermi orbitals with fillings (2, 2, 2, 1): normalised combinations sum_j R[i, j] psi_j"),
                    budget={"quick": 300, "thorough": 600}, doc="BOUNDED: Fermi orbitals do not depend on the size of the (non-zero) fillings"))


# ------------------------------------------------------------------------------------------------
# bounded: single-orbital densities and the one-electron SIC clause with UNEQUAL k-point weights
# ------------------------------------------------------------------------------------------------


def hartree_reference(a, n):
    """Hartree energy of a real-space density by an explicit reciprocal-space sum (independent of get_Ecoul / get_phi): 2 pi Omega / N^2 sum_{G != 0} |n_G|^2 / |G|^2."""
    nG = np.fft.fftn(np.asarray(n, float).reshape(np.asarray(a.s))).ravel()
    G2 = np.asarray(a.G2, float)
    with np.errstate(divide="ignore"):
        w = np.where(G2 > 0, 1 / G2, 0)
    return float(2 * np.pi * float(a.Omega) / a.Ns**2 * np.sum(w * np.abs(nG) ** 2))


def nat_single_densities_weighted_k(rng):
    """H atom (one electron, unrestricted), Monkhorst-Pack 3x1x1 mesh reduced by time reversal (weights 1/3, 2/3) and a hand-made set with weights
    (0.2, 0.3, 0.5): get_n_single = sum_k wk f |psi_k|^2 (orbitals transformed independently), its sum over the orbitals is the density, and the
    self-interaction energy of the single electron has the size of E_H[n] + E_xc[n, 0] (sign-agnostic: the sign is an open finding)."""
    import eminus
    from eminus import SCF, Atoms
    from eminus.dft import get_n_single, get_n_total, orth
    from eminus.energies import get_Ecoul, get_Esic, get_Exc

    eminus.config.backend = "numpy"
    eminus.config.verbose = "critical"
    worst = 0.0
    for mode in ("trs", "set_k"):
        at = Atoms("H", [[0.1, 0.2, 0.3]], ecut=4, a=[[6.0, 0.3, 0.0], [0.0, 6.5, 0.2], [0.1, 0.0, 7.0]], unrestricted=True)
        if mode == "trs":
            at.kpts.kmesh = [3, 1, 1]
            at.kpts.gamma_centered = False
            at.kpts.trs()
            at.build()
        else:
            at.set_k([[0.0, 0.0, 0.0], [0.2, 0.1, 0.05], [-0.1, 0.3, 0.2]], [0.2, 0.3, 0.5])
        for xc in ("lda,vwn", "pbe"):
            scf = SCF(at, xc=xc, verbose="critical")
            a = scf.atoms
            wk = np.asarray(a.kpts.wk)
            if len(wk) < 2 or np.ptp(wk) < 1e-6:
                raise RuntimeError(f"harness: the k-point weights are not unequal: {wk}")
            Y = orth(a, [rnd(rng, 2, len(a.Gk2c[ik]), a.occ.Nstate) for ik in range(a.kpts.Nk)])
            ns = np.asarray(get_n_single(a, Y))
            f = np.asarray(a.occ.f)
            want = np.zeros_like(ns)
            for ik in range(a.kpts.Nk):
                for s in range(2):
                    psi = np.asarray(a.I(np.asarray(Y[ik][s]), ik))
                    want[s] += wk[ik] * f[ik, s][None, :] * np.abs(psi) ** 2
            worst = max(worst, float(np.abs(ns - want).max() / max(1e-30, np.abs(want).max())))
            n = np.asarray(get_n_total(a, Y))
            worst = max(worst, float(np.abs(ns.sum(axis=(0, 2)) - n).max()))
            scf.Y = Y
            esic = float(get_Esic(scf, Y))
            nsp = np.zeros((2, a.Ns))
            nsp[0] = n
            from eminus.gga import get_grad_field

            dn = np.asarray(get_grad_field(a, nsp)) if xc == "pbe" else None
            ref = hartree_reference(a, n) + float(get_Exc(scf, n, n_spin=nsp, dn_spin=dn, Nspin=2))
            worst = max(worst, abs(abs(esic) - abs(ref)) / abs(ref))
    # different numbers of electrons in the two channels with a SYMMETRIC start (guess = 'sym-...'): both channels enter with their own orbitals and fillings
    at = Atoms("Li", [[0.0, 0.0, 0.0]], ecut=4, a=8, unrestricted=True)
    scf = SCF(at, xc="lda,vwn", guess="sym-random", verbose="critical")
    a = scf.atoms
    Y = orth(a, [rnd(rng, 2, len(a.Gk2c[0]), a.occ.Nstate)])
    scf.Y = Y
    ns = np.asarray(get_n_single(a, Y))
    want = 0.0
    for i in range(a.occ.Nstate):
        for sp in range(2):
            wgt = float(np.asarray(a.occ.f)[0, sp, i])
            if wgt > 0:
                ni = np.zeros((2, a.Ns))
                ni[0] = ns[sp, :, i] / wgt
                want += (hartree_reference(a, ni[0]) + float(get_Exc(scf, ni[0], n_spin=ni, Nspin=2))) * wgt
    worst = max(worst, abs(abs(float(get_Esic(scf, Y))) - abs(want)) / abs(want))
    # the optional n_single argument: the caller's array is not modified and a second evaluation on it gives the same energy (fillings 2: spin-paired)
    at = Atoms("LiH", [[0.0, 0.0, 0.0], [0.0, 0.0, 3.0]], ecut=4, a=8)
    scf = SCF(at, xc="pbe", verbose="critical")
    a = scf.atoms
    Y = orth(a, [rnd(rng, 1, len(a.Gk2c[0]), a.occ.Nstate)])
    scf.Y = Y
    ns = get_n_single(a, Y)
    keep = np.asarray(ns).copy()
    e0 = float(get_Esic(scf, Y))
    e1 = float(get_Esic(scf, Y, n_single=ns))
    e2 = float(get_Esic(scf, Y, n_single=ns))
    worst = max(worst, abs(e1 - e0) / abs(e0), abs(e2 - e0) / abs(e0), float(np.abs(np.asarray(ns) - keep).max()))
    # a second set of orbitals on the SAME SCF object (as for SCDM- / FLO-SIC after a run): the energy is the one of the orbitals handed in
    Y2 = orth(a, [rnd(rng, 1, len(a.Gk2c[0]), a.occ.Nstate)])
    e_second = float(get_Esic(scf, Y2))
    fresh = SCF(at, xc="pbe", verbose="critical")
    fresh.Y = Y2
    e_fresh = float(get_Esic(fresh, Y2))
    if abs(e_fresh - e0) < 1e-6 * abs(e0):
        raise RuntimeError("harness: the two orbital sets give the same self-interaction energy")
    worst = max(worst, abs(e_second - e_fresh) / abs(e_fresh))
    return worst


from contracts.c04_c05_c01_c11 import BoundedNative  # noqa: E402

register(Obligation(name="C16.get_n_single_get_Esic.unequal_kpoint_weights", prop=PROP, engine="B", bounded=True,
                    functions=["eminus.dft:get_n_single", "eminus.energies:get_Esic"],
                    run=BoundedNative(nat_single_densities_weighted_k, 1, tol=1e-9, what="single-orbital densities and the one-electron SIC energy with unequal k-point weights (trs-reduced mesh, hand-made set)"),
                    budget={"quick": 300, "thorough": 600},
                    doc="BOUNDED: get_n_single = sum_k wk f |psi_k|^2 and |Esic| = |E_H[n] + E_xc[n, 0]| for one electron with unequal k-point weights"))


# ------------------------------------------------------------------------------------------------
# bounded: the localisers under the Torch array backend (the package default when torch is importable)
# ------------------------------------------------------------------------------------------------


def nat_localizers_torch(rng):
    """get_wannier (several iterations, random start), get_scdm and the WO / SCDM wrappers with the Torch backend: orthonormal to 1e-10 and the density of the
    occupied space reproduced (this is the property under the package's default backend, not a comparison of backends)."""
    import eminus
    from eminus import SCF, Atoms
    from eminus import backend as xp
    from eminus.dft import get_psi
    from eminus.localizer import get_scdm, get_wannier
    from eminus.orbitals import SCDM, WO

    eminus.config.backend = "torch"
    if eminus.config.backend != "torch":
        raise RuntimeError("harness: the torch backend is not available")
    eminus.config.verbose = "critical"
    try:
        at = Atoms("CH4", [[0, 0, 0], [1.2, 1.2, 1.2], [-1.2, -1.2, 1.2], [1.2, -1.2, -1.2], [-1.2, 1.2, -1.2]], ecut=4, a=9, center=True)
        scf = SCF(at, opt={"sd": 3}, etol=1e-12)
        scf.run()
        at = scf.atoms
        psi = get_psi(scf, scf.W)
        psirs = at.I(psi)[0][0]
        n0 = np.sum(np.abs(np.asarray(xp.to_np(psirs))) ** 2, axis=1)
        worst = 0.0
        outs = [get_wannier(at, psirs, Nit=6, random_guess=True, seed=int(rng.integers(1 << 30))), get_scdm(at, psi)[0][0], WO(scf)[0][0], SCDM(scf)[0][0]]
        for out in outs:
            o = np.asarray(xp.to_np(out))
            worst = max(worst, float(np.abs(at.dV * o.conj().T @ o - np.eye(o.shape[1])).max()), float(np.abs(np.sum(np.abs(o) ** 2, axis=1) - n0).max() / np.abs(n0).max()))
    finally:
        eminus.config.backend = "numpy"
    return worst


register(Obligation(name="C16.localisers.torch_backend", prop=PROP, engine="B", bounded=True, functions=["eminus.localizer:get_wannier", "eminus.localizer:get_scdm", "eminus.orbitals:WO", "eminus.orbitals:SCDM"],
                    run=BoundedNative(nat_localizers_torch, 1, tol=1e-8, what="Wannier / SCDM orbitals with the Torch backend: orthonormality and density of the occupied space"),
                    budget={"quick": 300, "thorough": 600},
                    doc="BOUNDED: Wannier and SCDM orbitals (functions and wrappers) under the Torch backend are orthonormal and density preserving to 1e-8 (measured 1e-10 on the unchanged tree)"))


# ------------------------------------------------------------------------------------------------
# writes-frame of the energy / localisation functions (AST; shared rule in contracts/frame_common.py)
# ------------------------------------------------------------------------------------------------
from contracts.frame_common import WritesFrame  # noqa: E402


def _esic_frame_replay():
    """the caller's single-orbital densities are unchanged by get_Esic (restricted LiH, fillings 2), and a second evaluation on them gives the same energy"""
    import eminus
    from eminus import SCF, Atoms
    from eminus.dft import get_n_single, orth
    from eminus.energies import get_Esic

    eminus.config.backend = "numpy"
    eminus.config.verbose = "critical"
    rng = np.random.default_rng(0)
    at = Atoms("LiH", [[0.0, 0.0, 0.0], [0.0, 0.0, 3.0]], ecut=4, a=8)
    scf = SCF(at, xc="pbe", verbose="critical")
    a = scf.atoms
    Y = orth(a, [rnd(rng, 1, len(a.Gk2c[0]), a.occ.Nstate)])
    scf.Y = Y
    ns = get_n_single(a, Y)
    keep = np.asarray(ns).copy()
    e1 = float(get_Esic(scf, Y, n_single=ns))
    e2 = float(get_Esic(scf, Y, n_single=ns))
    changed = float(np.abs(np.asarray(ns) - keep).max())
    return bool(changed > 1e-12 or abs(e2 - e1) > 1e-10 * abs(e1)), dict(callers_array_changed_by=changed, first=e1, second=e2)


register(Obligation(name="C16.energies_localisers.writes_frame", prop=PROP, engine="Z",
                    run=WritesFrame(("eminus.energies", "eminus.localizer", "eminus.orbitals"), allowed_attr=(("scf", "energies"),), replay_fn=_esic_frame_replay), assumes=("cpython",),
                    functions=["eminus.energies:get_Esic", "eminus.energies:get_E", "eminus.localizer:get_FLO", "eminus.localizer:get_wannier", "eminus.localizer:get_scdm", "eminus.orbitals:FLO"],
                    doc="frame (writes): no function of eminus.energies / eminus.localizer / eminus.orbitals stores in place into a parameter or a possible view of one "
                        "(orbital coefficients, single-orbital densities handed in by the caller); the only effect on a parameter is the assignment of a field of scf.energies"))
