"""C02 - XC potentials are the exact derivatives of the XC energy (engine A).

Functions under contract: every entry of eminus.xc.utils.IMPLEMENTED (through the real get_xc dispatch).
Post-conditions (from the property statement):
    vxc[s]                      == d(n*exc)/dn_s
    d(n*exc)/d(grad n_s)_c      == 2 vsigma[ss] (grad n_s)_c + vsigma[ud] (grad n_s')_c
    outputs pointwise, finite at zeta = +-1 and masked to zero at n = 0
    get_xc(x, c) == get_xc(x) + get_xc(c)  (so the summed result inherits the identities by linearity)
"""

from __future__ import annotations

import random

import numpy as np

from contracts import xc_common as X
from contracts.xc_replay import replay_finite, replay_vsigma, replay_vxc
from pycv.algebra import core
from pycv.algebra.core import D, Poly, Special, gens_of
from pycv.framework import DISCHARGED, REFUTED, UNDECIDED, Obligation, Result, register

PROP = "C02"
SP = ("up", "dw")


def fn_of(f, Nspin):
    name = f + ("_spin" if Nspin == 2 else "")
    return f"{X.MODULE_OF[f]}:{name}"


# modular plan: GGA correlation functionals take their LDA part by contract
CALLEE = {
    "gga_c_pbe": ("eminus.xc.gga_c_pbe", "eminus.xc.lda_c_pw_mod", "lda_c_pw_mod"),
    "gga_c_pbe_sol": ("eminus.xc.gga_c_pbe", "eminus.xc.lda_c_pw_mod", "lda_c_pw_mod"),
}


class XCIdentity:
    """Callable obligation: derivative identity of one functional."""

    def __init__(self, f, Nspin, kind, s, params=None, modular=None, T=None, slot="x", points=(0, 1)):
        self.f, self.Nspin, self.kind, self.s, self.params, self.modular, self.T = f, Nspin, kind, s, params, modular, T
        self.slot, self.points = slot, points
        self.gga = f.startswith("gga")

    def trace(self):
        S = X.Setup(self.Nspin, self.gga)
        stubs, extra = None, None
        if self.modular:
            owner, cmod, cname = self.modular
            spin = self.Nspin == 2
            stub = X.lda_c_stub(S, spin)
            stubs = {f"{cmod}:{cname + ('_spin' if spin else '')}": stub}
            extra = X.stub_env(S, spin)
        params = dict(self.params or {})
        if self.T is not None:
            params["T"] = S.C.var("T", positive=True) if self.T == "pos" else 0
        pair = (self.f, "mock_xc") if self.slot == "x" else ("mock_xc", self.f)
        exc, vxc, vsigma, _ = X.call_get_xc(S, *pair, xc_params=params, stubs=stubs)
        return S, exc, vxc, vsigma, extra

    def residuals(self, S, exc, vxc, vsigma):
        out = []
        for p in self.points:
            nexc = S.n[p] * exc[p]
            if self.kind == "vxc":
                out.append((f"p{p}", S.D_spin(nexc, self.s, p) - vxc[self.s, p]))
            else:
                s, o = self.s, 1 - self.s
                for c in range(3):
                    if self.Nspin == 2:
                        rhs = 2 * vsigma[2 * s, p] * S.dn[s, p, c] + vsigma[1, p] * S.dn[o, p, c]
                    else:
                        rhs = 2 * vsigma[0, p] * S.dn[0, p, c]
                    out.append((f"p{p}{X.XYZ[c]}", D(nexc, S.dn[s, p, c]) - rhs))
        return out

    def __call__(self, ob, tier, seed):
        r = self.decide(ob, tier, seed)
        if r.verdict == UNDECIDED:
            # no exact verdict on this tree: the identity is still evaluated natively on a fixed scan (corners included); only a failing
            # point changes the verdict
            from contracts.xc_replay import native_scan

            bad, info = native_scan(self.f, self.Nspin, self.kind, self.s, T=self.T)
            if bad:
                return Result(REFUTED, backend="native-contract-evaluation", witness=dict(f=self.f, Nspin=self.Nspin, kind=self.kind, s=self.s, scan=True), replayed=True,
                              replay_info=info, detail=f"{ob.name}: the derivative identity fails natively at {info.get('worst') or info} (no exact verdict: {r.detail[:120]})")
        return r

    def decide(self, ob, tier, seed):
        rng = random.Random(f"{seed}/{ob.name}")
        try:
            S, exc, vxc, vsigma, extra = self.trace()
        except (core.Undecided, core.OutsideSubset) as e:
            return Result(UNDECIDED, backend="engine-A", detail=f"outside subset while tracing: {type(e).__name__}: {e}")
        if self.T == "pos":
            base_extra = extra

            def extra(r, _b=base_extra):  # noqa: E731
                env = _b(r) if _b else {}
                env["T"] = 10 ** r.uniform(-2, 0.5)
                return env
        if self.kind == "vsigma" and vsigma is None:
            return Result(REFUTED, backend="engine-A", detail="functional returned vsigma=None", witness=None)
        budget = ob.budget.get(tier, 60)
        res_all = self.residuals(S, exc, vxc, vsigma)
        stats = {}
        side = []
        share = budget / max(1, len(res_all))
        for label, r in res_all:
            out = X.prove_zero(S, r, share, rng, f"{ob.name}[{label}]", extra_env=extra)
            if out.verdict == REFUTED:
                if out.witness and "env" in out.witness:
                    out.witness.update(f=self.f, Nspin=self.Nspin, kind=self.kind, s=self.s, params=_jsonable(self.params),
                                       T=self.T, label=label)
                    ok, info = self.replay(out.witness)
                    out.replayed, out.replay_info = ok, info
                return out
            if out.verdict != DISCHARGED:
                return out
            stats = out.stats
            side = out.side_conditions or side
        return Result(DISCHARGED, backend="algebra-normaliser", stats=stats, side_conditions=side)

    def replay(self, wit):
        if wit.get("scan"):
            from contracts.xc_replay import native_scan

            return native_scan(wit["f"], wit["Nspin"], wit["kind"], wit["s"], T=self.T)
        if wit.get("kind") == "vsigma":
            return replay_vsigma(wit)
        return replay_vxc(wit)


def _jsonable(p):
    if not p:
        return None
    return {k: str(v) for k, v in p.items()}


class Pointwise:
    """Frame obligation: the output at grid point p mentions only the inputs of grid point p."""

    def __init__(self, f, Nspin):
        self.f, self.Nspin = f, Nspin
        self.gga = f.startswith("gga")

    def __call__(self, ob, tier, seed):
        S = X.Setup(self.Nspin, self.gga)
        exc, vxc, vsigma, _ = X.call_get_xc(S, self.f, "mock_xc")
        outs = [("exc", exc)] + [(f"vxc{s}", vxc[s]) for s in range(self.Nspin)]
        if vsigma is not None:
            outs += [(f"vsigma{k}", vsigma[k]) for k in range(len(vsigma))]
        G = S.C.gens
        for label, a in outs:
            a = np.asarray(a, dtype=object)
            if a.shape != (S.npts,):
                return Result(REFUTED, backend="engine-A", detail=f"{label} has shape {a.shape}, expected ({S.npts},)")
            for p in range(S.npts):
                v = a[p]
                if isinstance(v, Special):
                    return Result(REFUTED, backend="engine-A", detail=f"{label}[{p}] is {v!r}")
                foreign = [G[g].name for g in gens_of(v) if G[g].kind == "var" and G[g].pt not in (None, p)]
                if foreign:
                    return Result(REFUTED, backend="engine-A",
                                  detail=f"{label}[{p}] depends on inputs of another grid point: {foreign[:4]}")
        return Result(DISCHARGED, backend="generator-dependency-frame")


class FiniteAt:
    """Special-value obligation: all outputs finite at a fully polarised point / masked at n = 0."""

    def __init__(self, f, zeta_value):
        self.f, self.zeta_value = f, zeta_value
        self.gga = f.startswith("gga")

    def __call__(self, ob, tier, seed):
        S = X.Setup(2, self.gga, zeta_value=self.zeta_value)
        if self.gga:
            # the vanishing spin channel has a vanishing gradient
            dead = 1 if self.zeta_value == 1 else 0
            for p in range(S.npts):
                for c in range(3):
                    S.dn[dead, p, c] = core.ZERO
        try:
            exc, vxc, vsigma, _ = X.call_get_xc(S, self.f, "mock_xc")
        except (core.Undecided, core.OutsideSubset) as e:
            return Result(UNDECIDED, backend="engine-A/special-values", detail=f"{type(e).__name__}: {e}")
        outs = [("exc", exc), ("vxc", vxc)] + ([("vsigma", vsigma)] if vsigma is not None else [])
        for label, a in outs:
            for idx, v in np.ndenumerate(np.asarray(a, dtype=object)):
                if isinstance(v, Special):
                    wit = dict(f=self.f, zeta=self.zeta_value, output=label, index=list(idx), value=repr(v))
                    ok, info = replay_finite(wit)
                    return Result(REFUTED, backend="engine-A/special-values", witness=wit, replayed=ok, replay_info=info,
                                  detail=f"{label}{list(idx)} is {v!r} at zeta={self.zeta_value} (one spin density exactly zero)")
        return Result(DISCHARGED, backend="special-value-evaluation")

    def replay(self, wit):
        return replay_finite(wit)


class MaskedZero:
    """get_xc at a grid point with n = 0: outputs are exactly zero there and unchanged elsewhere."""

    def __init__(self, f, Nspin):
        self.f, self.Nspin = f, Nspin
        self.gga = f.startswith("gga")

    def __call__(self, ob, tier, seed):
        S = X.Setup(self.Nspin, self.gga)
        exc0, vxc0, vs0, _ = X.call_get_xc(S, self.f, "mock_xc")
        ns = S.n_spin.copy()
        S.n_spin = ns
        for s in range(self.Nspin):
            ns[s, 1] = core.ZERO
        exc, vxc, vs, _ = X.call_get_xc(S, self.f, "mock_xc")
        pairs = [("exc", exc, exc0)] + [(f"vxc{s}", vxc[s], vxc0[s]) for s in range(self.Nspin)]
        if vs is not None:
            pairs += [(f"vsigma{k}", vs[k], vs0[k]) for k in range(len(vs))]
        for label, a, a0 in pairs:
            if isinstance(a[1], Special) or not (isinstance(a[1], (int, float)) and a[1] == 0 or
                                                   (isinstance(a[1], Poly) and a[1].is_zero_syntactic())):
                return Result(REFUTED, backend="engine-A/special-values", detail=f"{label} at the n=0 point is {a[1]!r}",
                              witness=dict(f=self.f, Nspin=self.Nspin, output=label))
            if isinstance(a[0], Special) or not core.is_zero(a[0] - a0[0], budget=20):
                return Result(REFUTED, backend="engine-A/special-values",
                              detail=f"{label} at the other point changed when a neighbour was masked")
        return Result(DISCHARGED, backend="special-value-evaluation")


class SumXC:
    """get_xc([fx, fc]) == get_xc([fx, mock]) + get_xc([mock, fc]) for opaque functionals fx, fc.

    The real get_xc is traced with the IMPLEMENTED table entries replaced by contract stubs returning free atoms;
    so the clause covers every exchange/correlation pair."""

    def __init__(self, Nspin, gga_x, gga_c):
        self.Nspin, self.gx, self.gc = Nspin, gga_x, gga_c

    def __call__(self, ob, tier, seed):
        S = X.Setup(self.Nspin, True)
        loader = X.make_loader(native_extra=("eminus",))
        S.loader = loader
        mod = loader.load("eminus.xc.utils")
        C = S.C
        calls = []

        def mkstub(tag, gga):
            def stub(n, zeta=None, dn_spin=None, Nspin=None, **kw):
                n = np.asarray(n, dtype=object)
                calls.append((tag, n.shape, Nspin))
                e = np.empty(n.shape, dtype=object)
                v = np.empty((self.Nspin,) + n.shape, dtype=object)
                vs = np.empty(((3 if self.Nspin == 2 else 1),) + n.shape, dtype=object) if gga else None
                for idx in np.ndindex(*n.shape):
                    p = C.gens[core.var_gid(n[idx])].pt
                    e[idx] = C.opaque(f"{tag}_e@{p}", [], {}, pt=p)
                    for s in range(self.Nspin):
                        v[(s,) + idx] = C.opaque(f"{tag}_v{s}@{p}", [], {}, pt=p)
                    if gga:
                        for k in range(vs.shape[0]):
                            vs[(k,) + idx] = C.opaque(f"{tag}_s{k}@{p}", [], {}, pt=p)
                return e, v, vs

            return stub

        suffix = "_spin" if self.Nspin == 2 else ""
        mod.IMPLEMENTED["fx" + suffix] = mkstub("x", self.gx)
        mod.IMPLEMENTED["fc" + suffix] = mkstub("c", self.gc)
        out = mod.get_xc(["fx", "fc"], S.n_spin, self.Nspin, dn_spin=S.dn)
        C.by_key = {k: v for k, v in C.by_key.items()}
        exc, vxc, vs, vtau = out
        for p in range(S.npts):
            def a(name):
                return Poly({((C.by_key[("opq", name)].gid, 1),): core.Fraction(1)})

            if not core.is_zero(exc[p] - a(f"x_e@{p}") - a(f"c_e@{p}"), budget=5):
                return Result(REFUTED, backend="engine-A", detail=f"exc[{p}] != ex + ec")
            for s in range(self.Nspin):
                if not core.is_zero(vxc[s, p] - a(f"x_v{s}@{p}") - a(f"c_v{s}@{p}"), budget=5):
                    return Result(REFUTED, backend="engine-A", detail=f"vxc[{s},{p}] != vx + vc")
            nk = 3 if self.Nspin == 2 else 1
            if self.gx or self.gc:
                if vs is None:
                    return Result(REFUTED, backend="engine-A", detail="vsigma dropped")
                for k in range(nk):
                    want = core.ZERO
                    if self.gx:
                        want = want + a(f"x_s{k}@{p}")
                    if self.gc:
                        want = want + a(f"c_s{k}@{p}")
                    if not core.is_zero(vs[k, p] - want, budget=5):
                        return Result(REFUTED, backend="engine-A", detail=f"vsigma[{k},{p}] != vsigmax + vsigmac")
            elif vs is not None:
                return Result(REFUTED, backend="engine-A", detail="vsigma invented for LDA pair")
        if vtau is not None:
            return Result(REFUTED, backend="engine-A", detail="vtau not None for internal functionals")
        return Result(DISCHARGED, backend="algebra-normaliser")


class Canary:
    """Deliberately false post-condition on a real function: vxc == d(n exc)/dn + 1 must be refuted."""

    def __call__(self, ob, tier, seed):
        S = X.Setup(1, False)
        exc, vxc, _, _ = X.call_get_xc(S, "lda_c_vwn", "mock_xc")
        rng = random.Random(seed)
        r = S.D_spin(S.n[0] * exc[0], 0, 0) - vxc[0, 0] + 1
        out = X.prove_zero(S, r, 20, rng, "canary")
        if out.verdict != REFUTED:
            # also make sure the exact prover itself does not accept it
            return Result(UNDECIDED, detail="canary not refuted")
        z = core.is_zero(r, budget=20)
        if z is True:
            return Result(DISCHARGED, detail="exact prover accepted a false identity")
        return out


def _register():
    quick_b = {"quick": 120, "thorough": 900}
    for f in X.LDA + X.GGA:
        gga = f.startswith("gga")
        for Nspin in (1, 2):
            fname = fn_of(f, Nspin)
            label = f + ("_spin" if Nspin == 2 else "")
            funcs = [fname, "eminus.xc.utils:get_xc", "eminus.xc.utils:get_zeta"]
            modular = CALLEE.get(f)
            assumes = ("reals", "generic", "engineA", "chain-rule", "numpy-structural") + (("callee-contract",) if modular else ())
            if f in ("gga_x_pbe", "gga_x_pbe_sol"):
                funcs.append("eminus.xc.gga_x_pbe:pbe_x_base")
            if f.endswith("_sol"):
                funcs.append(f"{X.MODULE_OF[f[:-4]]}:{f[:-4] + ('_spin' if Nspin == 2 else '')}")
            for s in range(Nspin):
                sp = SP[s] if Nspin == 2 else "n"
                register(Obligation(
                    name=f"C02.{label}.vxc_{sp}", prop=PROP, engine="A", functions=funcs,
                    run=XCIdentity(f, Nspin, "vxc", s, modular=modular), budget=quick_b, assumes=assumes,
                    doc=f"vxc[{s}] == d(n exc)/dn_{sp} for {label}" + (" (LDA part by contract)" if modular else "")))
                if gga:
                    register(Obligation(
                        name=f"C02.{label}.vsigma_{sp}", prop=PROP, engine="A", functions=funcs,
                        run=XCIdentity(f, Nspin, "vsigma", s, modular=modular), budget=quick_b, assumes=assumes,
                        doc=f"d(n exc)/d(grad n_{sp})_c == 2 v_ss grad n_s + v_ud grad n_s' for {label}, c in xyz"))
            register(Obligation(name=f"C02.{label}.pointwise", prop=PROP, engine="A", functions=funcs,
                                run=Pointwise(f, Nspin), assumes=("pointwise-lift", "numpy-structural"),
                                doc="outputs at a grid point depend only on the inputs at that point"))
            register(Obligation(name=f"C02.{label}.masked_at_n0", prop=PROP, engine="A", functions=funcs,
                                run=MaskedZero(f, Nspin), assumes=("numpy-structural",),
                                doc="get_xc returns exact zeros where n = 0 and unchanged values elsewhere"))
        for zv, tag in ((1, "p1"), (-1, "m1")):
            register(Obligation(name=f"C02.{f}_spin.finite_zeta_{tag}", prop=PROP, engine="A",
                                functions=[fn_of(f, 2), "eminus.xc.utils:get_xc"], run=FiniteAt(f, zv),
                                assumes=("reals",),
                                doc=f"exc, vxc, vsigma finite when one spin density (and its gradient) is exactly zero (zeta={zv})"))
    # temperature-dependent LDA family: T = 0 exactly and symbolic T > 0
    for f in X.KSDT:
        for Nspin in ((1,) if f == "lda_xc_corr_ksdt" else (1, 2)):
            label = f + ("_spin" if Nspin == 2 else "")
            funcs = [fn_of(f, Nspin), "eminus.xc.lda_xc_ksdt:lda_xc_ksdt_spin", "eminus.xc.lda_xc_ksdt:Coefficients",
                     "eminus.xc.lda_xc_ksdt:_pade", "eminus.xc.lda_xc_ksdt:_dpade", "eminus.xc.lda_xc_ksdt:_get_fxc_zeta",
                     "eminus.xc.lda_xc_ksdt:_get_dfxc_zetadrs", "eminus.xc.lda_xc_ksdt:_get_dfxc_zetadtheta",
                     "eminus.xc.lda_xc_ksdt:_get_phi", "eminus.xc.lda_xc_ksdt:_get_dphidrs",
                     "eminus.xc.lda_xc_ksdt:_get_dphidtheta", "eminus.xc.lda_xc_ksdt:_get_dphidzeta",
                     "eminus.xc.lda_xc_ksdt:_get_alpha", "eminus.xc.lda_xc_ksdt:_get_theta", "eminus.xc.lda_xc_ksdt:_get_theta0",
                     "eminus.xc.lda_xc_ksdt:_get_theta1", "eminus.xc.lda_xc_ksdt:_get_dtheta0dzeta",
                     "eminus.xc.lda_xc_ksdt:_get_dthetadn_up", "eminus.xc.utils:get_xc"]
            for T, tl in ((0, "T0"), ("pos", "Tpos")):
                for s in range(Nspin):
                    sp = SP[s] if Nspin == 2 else "n"
                    register(Obligation(
                        name=f"C02.{label}.vxc_{sp}.{tl}", prop=PROP, engine="A", functions=funcs,
                        run=XCIdentity(f, Nspin, "vxc", s, T=T), budget={"quick": 150, "thorough": 1200},
                        assumes=("reals", "generic", "engineA", "chain-rule", "numpy-structural"),
                        doc=f"vxc[{s}] == d(n exc)/dn_{sp} for {label} at " + ("T = 0" if T == 0 else "symbolic T > 0")))
            register(Obligation(name=f"C02.{label}.pointwise", prop=PROP, engine="A", functions=funcs,
                                run=Pointwise(f, Nspin), assumes=("pointwise-lift", "numpy-structural"),
                                doc="outputs at a grid point depend only on the inputs at that point"))
        if f != "lda_xc_corr_ksdt":
            for zv, tag in ((1, "p1"), (-1, "m1")):
                register(Obligation(name=f"C02.{f}_spin.finite_zeta_{tag}", prop=PROP, engine="A",
                                    functions=[fn_of(f, 2), "eminus.xc.utils:get_xc"], run=FiniteAt(f, zv),
                                    assumes=("reals",),
                                    doc=f"exc, vxc finite when one spin density is exactly zero (zeta={zv}), T = 0"))
    for Nspin in (1, 2):
        for gx, gc in ((False, False), (True, True), (True, False), (False, True)):
            register(Obligation(name=f"C02.get_xc.sum_xc.Nspin{Nspin}.{'g' if gx else 'l'}{'g' if gc else 'l'}", prop=PROP,
                                engine="A", functions=["eminus.xc.utils:get_xc", "eminus.utils:add_maybe_none"],
                                run=SumXC(Nspin, gx, gc), assumes=("linearity-of-D", "callee-contract"),
                                doc="get_xc returns ex+ec, vx+vc, vsigmax(+)vsigmac scattered to the right grid positions"))
    register(Obligation(name="C02.canary.false_identity", prop=PROP, engine="A", functions=["eminus.xc.lda_c_vwn:lda_c_vwn"],
                        run=Canary(), canary=True, doc="vxc == d(n exc)/dn + 1 must be refuted"))


_register()
