"""C02 - XC potentials are the exact derivatives of the XC energy (engine A).

Functions under contract: every entry of eminus.xc.utils.IMPLEMENTED (through the real get_xc dispatch).
Post-conditions (from the property statement):
    vxc[s]                      == d(n*exc)/dn_s
    d(n*exc)/d(grad n_s)_c      == 2 vsigma[ss] (grad n_s)_c + vsigma[ud] (grad n_s')_c
    outputs pointwise, finite at zeta = +-1 and masked to zero at n = 0
    get_xc(x, c) == get_xc(x) + get_xc(c)  (so the summed result inherits the identities by linearity)
"""

from __future__ import annotations

import random

import numpy as np

from contracts import xc_common as X
from contracts.xc_replay import replay_finite, replay_vsigma, replay_vxc
from pycv.algebra import core
from pycv.algebra.core import D, Poly, Special, gens_of
from pycv.framework import DISCHARGED, REFUTED, UNDECIDED, Obligation, Result, register

PROP = "C02"
SP = ("up", "dw")


def fn_of(f, Nspin):
    name = f + ("_spin" if Nspin == 2 else "")
    return f"{X.MODULE_OF[f]}:{name}"


# modular plan: GGA correlation functionals take their LDA part by contract
CALLEE = {
    "gga_c_pbe": ("eminus.xc.gga_c_pbe", "eminus.xc.lda_c_pw_mod", "lda_c_pw_mod"),
    "gga_c_pbe_sol": ("eminus.xc.gga_c_pbe", "eminus.xc.lda_c_pw_mod", "lda_c_pw_mod"),
}


class XCIdentity:
    """Callable obligation: derivative identity of one functional."""

    def __init__(self, f, Nspin, kind, s, params=None, modular=None, T=None, slot="x", points=(0, 1), param_syms=None):
        self.f, self.Nspin, self.kind, self.s, self.params, self.modular, self.T = f, Nspin, kind, s, params, modular, T
        self.param_syms = param_syms  # {keyword parameter of the functional: default (float or tuple of floats)}: handed to get_xc as symbols
        self.slot, self.points = slot, points
        self.gga = f.startswith("gga")

    def trace(self):
        S = X.Setup(self.Nspin, self.gga)
        stubs, extra = None, None
        if self.modular:
            owner, cmod, cname = self.modular
            spin = self.Nspin == 2
            stub = X.lda_c_stub(S, spin)
            stubs = {f"{cmod}:{cname + ('_spin' if spin else '')}": stub}
            extra = X.stub_env(S, spin)
        params = dict(self.params or {})
        for name, dflt in (self.param_syms or {}).items():
            if isinstance(dflt, tuple):
                params[name] = tuple(S.C.var(f"par_{name}{i}", positive=d > 0) for i, d in enumerate(dflt))
            else:
                params[name] = S.C.var(f"par_{name}", positive=dflt > 0)
        if self.T is not None:
            params["T"] = S.C.var("T", positive=True) if self.T == "pos" else 0
        pair = (self.f, "mock_xc") if self.slot == "x" else ("mock_xc", self.f)
        exc, vxc, vsigma, _ = X.call_get_xc(S, *pair, xc_params=params, stubs=stubs)
        return S, exc, vxc, vsigma, extra

    def residuals(self, S, exc, vxc, vsigma):
        out = []
        for p in self.points:
            nexc = S.n[p] * exc[p]
            if self.kind == "vxc":
                out.append((f"p{p}", S.D_spin(nexc, self.s, p) - vxc[self.s, p]))
            else:
                s, o = self.s, 1 - self.s
                for c in range(3):
                    if self.Nspin == 2:
                        rhs = 2 * vsigma[2 * s, p] * S.dn[s, p, c] + vsigma[1, p] * S.dn[o, p, c]
                    else:
                        rhs = 2 * vsigma[0, p] * S.dn[0, p, c]
                    out.append((f"p{p}{X.XYZ[c]}", D(nexc, S.dn[s, p, c]) - rhs))
        return out

    def __call__(self, ob, tier, seed):
        r = self.decide(ob, tier, seed)
        if r.verdict == UNDECIDED:
            # no exact verdict on this tree: the identity is still evaluated natively on a fixed scan (corners included); only a failing
            # point changes the verdict
            from contracts.xc_replay import native_scan

            bad, info = native_scan(self.f, self.Nspin, self.kind, self.s, T=self.T)
            if bad:
                return Result(REFUTED, backend="native-contract-evaluation", witness=dict(f=self.f, Nspin=self.Nspin, kind=self.kind, s=self.s, scan=True), replayed=True,
                              replay_info=info, detail=f"{ob.name}: the derivative identity fails natively at {info.get('worst') or info} (no exact verdict: {r.detail[:120]})")
        return r

    def decide(self, ob, tier, seed):
        rng = random.Random(f"{seed}/{ob.name}")
        try:
            S, exc, vxc, vsigma, extra = self.trace()
        except (core.Undecided, core.OutsideSubset) as e:
            return Result(UNDECIDED, backend="engine-A", detail=f"outside subset while tracing: {type(e).__name__}: {e}")
        if self.T == "pos":
            base_extra = extra

            def extra(r, _b=base_extra):  # noqa: E731
                env = _b(r) if _b else {}
                env["T"] = 10 ** r.uniform(-2, 0.5)
                return env
        if self.param_syms:
            base_extra2 = extra

            def extra(r, _b=base_extra2):  # noqa: E731
                env = _b(r) if _b else {}
                for name, d in self.param_syms.items():
                    if isinstance(d, tuple):
                        for i, x in enumerate(d):
                            env[f"par_{name}{i}"] = x * r.uniform(0.8, 1.2)
                    else:
                        env[f"par_{name}"] = d * r.uniform(0.8, 1.2)
                return env
        if self.kind == "vsigma" and vsigma is None:
            return Result(REFUTED, backend="engine-A", detail="functional returned vsigma=None", witness=None)
        budget = ob.budget.get(tier, 60)
        res_all = self.residuals(S, exc, vxc, vsigma)
        stats = {}
        side = []
        share = budget / max(1, len(res_all))
        for label, r in res_all:
            out = X.prove_zero(S, r, share, rng, f"{ob.name}[{label}]", extra_env=extra)
            if out.verdict == REFUTED:
                if out.witness and "env" in out.witness:
                    out.witness.update(f=self.f, Nspin=self.Nspin, kind=self.kind, s=self.s, params=_jsonable(self.params),
                                       T=self.T, label=label)
                    if self.param_syms:
                        env = out.witness["env"]
                        out.witness["xc_params"] = {name: ([float(env[f"par_{name}{i}"]) for i in range(len(d))] if isinstance(d, tuple) else float(env[f"par_{name}"])) for name, d in self.param_syms.items()}
                    ok, info = self.replay(out.witness)
                    out.replayed, out.replay_info = ok, info
                return out
            if out.verdict != DISCHARGED:
                return out
            stats = out.stats
            side = out.side_conditions or side
        return Result(DISCHARGED, backend="algebra-normaliser", stats=stats, side_conditions=side)

    def replay(self, wit):
        if wit.get("scan"):
            from contracts.xc_replay import native_scan

            return native_scan(wit["f"], wit["Nspin"], wit["kind"], wit["s"], T=self.T)
        if wit.get("kind") == "vsigma":
            return replay_vsigma(wit)
        return replay_vxc(wit)


def _jsonable(p):
    if not p:
        return None
    return {k: str(v) for k, v in p.items()}


class Pointwise:
    """Frame obligation: the output at grid point p mentions only the inputs of grid point p."""

    def __init__(self, f, Nspin):
        self.f, self.Nspin = f, Nspin
        self.gga = f.startswith("gga")

    def __call__(self, ob, tier, seed):
        S = X.Setup(self.Nspin, self.gga)
        exc, vxc, vsigma, _ = X.call_get_xc(S, self.f, "mock_xc")
        outs = [("exc", exc)] + [(f"vxc{s}", vxc[s]) for s in range(self.Nspin)]
        if vsigma is not None:
            outs += [(f"vsigma{k}", vsigma[k]) for k in range(len(vsigma))]
        G = S.C.gens
        for label, a in outs:
            a = np.asarray(a, dtype=object)
            if a.shape != (S.npts,):
                return Result(REFUTED, backend="engine-A", detail=f"{label} has shape {a.shape}, expected ({S.npts},)")
            for p in range(S.npts):
                v = a[p]
                if isinstance(v, Special):
                    return Result(REFUTED, backend="engine-A", detail=f"{label}[{p}] is {v!r}")
                foreign = [G[g].name for g in gens_of(v) if G[g].kind == "var" and G[g].pt not in (None, p)]
                if foreign:
                    return Result(REFUTED, backend="engine-A",
                                  detail=f"{label}[{p}] depends on inputs of another grid point: {foreign[:4]}")
        return Result(DISCHARGED, backend="generator-dependency-frame")


class FiniteAt:
    """Special-value obligation: all outputs finite at a fully polarised point / masked at n = 0."""

    def __init__(self, f, zeta_value, empty_channel_gradient=False):
        self.f, self.zeta_value = f, zeta_value
        self.gga = f.startswith("gga")
        # True: the gradient of the empty channel is left generic (a density below 1e-16 of the other one rounds to zeta = +-1 although both
        # the density and its gradient are positive numbers)
        self.empty_channel_gradient = empty_channel_gradient

    def __call__(self, ob, tier, seed):
        S = X.Setup(2, self.gga, zeta_value=self.zeta_value)
        if self.gga and not self.empty_channel_gradient:
            # the vanishing spin channel has a vanishing gradient
            dead = 1 if self.zeta_value == 1 else 0
            for p in range(S.npts):
                for c in range(3):
                    S.dn[dead, p, c] = core.ZERO
        try:
            exc, vxc, vsigma, _ = X.call_get_xc(S, self.f, "mock_xc")
        except (core.Undecided, core.OutsideSubset) as e:
            # no special-value verdict on this tree (an operation the IEEE model does not cover, e.g. an infinity mapped to the largest float): the
            # clause is evaluated natively at the fully polarised points; only a non-finite output changes the verdict
            from contracts.xc_replay import replay_finite as _replay_finite_native

            wit = dict(f=self.f, zeta=self.zeta_value, empty_channel_gradient=self.empty_channel_gradient)
            try:
                bad, info = _replay_finite_native(wit)
            except Exception as ne:  # noqa: BLE001
                bad, info = False, dict(raised=f"{type(ne).__name__}: {ne}")
            if bad:
                return Result(REFUTED, backend="native (float64 get_xc at zeta = +-1)", witness=wit, replayed=True, replay_info=info,
                              detail=f"{self.f}: non-finite output at zeta = {self.zeta_value}: {sorted(info.get('non_finite', {}))} (no special-value verdict: {type(e).__name__}: {str(e)[:80]})")
            return Result(UNDECIDED, backend="engine-A/special-values", detail=f"{type(e).__name__}: {e}")
        outs = [("exc", exc), ("vxc", vxc)] + ([("vsigma", vsigma)] if vsigma is not None else [])
        for label, a in outs:
            for idx, v in np.ndenumerate(np.asarray(a, dtype=object)):
                if isinstance(v, Special):
                    wit = dict(f=self.f, zeta=self.zeta_value, output=label, index=list(idx), value=repr(v), empty_channel_gradient=self.empty_channel_gradient)
                    ok, info = replay_finite(wit)
                    return Result(REFUTED, backend="engine-A/special-values", witness=wit, replayed=ok, replay_info=info,
                                  detail=f"{label}{list(idx)} is {v!r} at zeta={self.zeta_value} (one spin density exactly zero)")
        return Result(DISCHARGED, backend="special-value-evaluation")

    def replay(self, wit):
        return replay_finite(wit)


class MaskedZero:
    """get_xc at a grid point with n = 0: outputs are exactly zero there and unchanged elsewhere."""

    def __init__(self, f, Nspin):
        self.f, self.Nspin = f, Nspin
        self.gga = f.startswith("gga")

    def __call__(self, ob, tier, seed):
        S = X.Setup(self.Nspin, self.gga)
        exc0, vxc0, vs0, _ = X.call_get_xc(S, self.f, "mock_xc")
        ns = S.n_spin.copy()
        S.n_spin = ns
        for s in range(self.Nspin):
            ns[s, 1] = core.ZERO
        exc, vxc, vs, _ = X.call_get_xc(S, self.f, "mock_xc")
        pairs = [("exc", exc, exc0)] + [(f"vxc{s}", vxc[s], vxc0[s]) for s in range(self.Nspin)]
        if vs is not None:
            pairs += [(f"vsigma{k}", vs[k], vs0[k]) for k in range(len(vs))]
        for label, a, a0 in pairs:
            if isinstance(a[1], Special) or not (isinstance(a[1], (int, float)) and a[1] == 0 or
                                                   (isinstance(a[1], Poly) and a[1].is_zero_syntactic())):
                return Result(REFUTED, backend="engine-A/special-values", detail=f"{label} at the n=0 point is {a[1]!r}",
                              witness=dict(f=self.f, Nspin=self.Nspin, output=label))
            if isinstance(a[0], Special) or not core.is_zero(a[0] - a0[0], budget=20):
                return Result(REFUTED, backend="engine-A/special-values",
                              detail=f"{label} at the other point changed when a neighbour was masked")
        return Result(DISCHARGED, backend="special-value-evaluation")


class SumXC:
    """get_xc([fx, fc]) == get_xc([fx, mock]) + get_xc([mock, fc]) for opaque functionals fx, fc.

    The real get_xc is traced with the IMPLEMENTED table entries replaced by contract stubs returning free atoms;
    so the clause covers every exchange/correlation pair."""

    def __init__(self, Nspin, gga_x, gga_c):
        self.Nspin, self.gx, self.gc = Nspin, gga_x, gga_c

    def __call__(self, ob, tier, seed):
        S = X.Setup(self.Nspin, True)
        loader = X.make_loader(native_extra=("eminus",))
        S.loader = loader
        mod = loader.load("eminus.xc.utils")
        C = S.C
        calls = []

        def mkstub(tag, gga):
            def stub(n, zeta=None, dn_spin=None, Nspin=None, **kw):
                n = np.asarray(n, dtype=object)
                calls.append((tag, n.shape, Nspin))
                e = np.empty(n.shape, dtype=object)
                v = np.empty((self.Nspin,) + n.shape, dtype=object)
                vs = np.empty(((3 if self.Nspin == 2 else 1),) + n.shape, dtype=object) if gga else None
                for idx in np.ndindex(*n.shape):
                    p = C.gens[core.var_gid(n[idx])].pt
                    e[idx] = C.opaque(f"{tag}_e@{p}", [], {}, pt=p)
                    for s in range(self.Nspin):
                        v[(s,) + idx] = C.opaque(f"{tag}_v{s}@{p}", [], {}, pt=p)
                    if gga:
                        for k in range(vs.shape[0]):
                            vs[(k,) + idx] = C.opaque(f"{tag}_s{k}@{p}", [], {}, pt=p)
                return e, v, vs

            return stub

        suffix = "_spin" if self.Nspin == 2 else ""
        mod.IMPLEMENTED["fx" + suffix] = mkstub("x", self.gx)
        mod.IMPLEMENTED["fc" + suffix] = mkstub("c", self.gc)
        out = mod.get_xc(["fx", "fc"], S.n_spin, self.Nspin, dn_spin=S.dn)
        C.by_key = {k: v for k, v in C.by_key.items()}
        exc, vxc, vs, vtau = out
        for p in range(S.npts):
            def a(name):
                return Poly({((C.by_key[("opq", name)].gid, 1),): core.Fraction(1)})

            if not core.is_zero(exc[p] - a(f"x_e@{p}") - a(f"c_e@{p}"), budget=5):
                return Result(REFUTED, backend="engine-A", detail=f"exc[{p}] != ex + ec")
            for s in range(self.Nspin):
                if not core.is_zero(vxc[s, p] - a(f"x_v{s}@{p}") - a(f"c_v{s}@{p}"), budget=5):
                    return Result(REFUTED, backend="engine-A", detail=f"vxc[{s},{p}] != vx + vc")
            nk = 3 if self.Nspin == 2 else 1
            if self.gx or self.gc:
                if vs is None:
                    return Result(REFUTED, backend="engine-A", detail="vsigma dropped")
                for k in range(nk):
                    want = core.ZERO
                    if self.gx:
                        want = want + a(f"x_s{k}@{p}")
                    if self.gc:
                        want = want + a(f"c_s{k}@{p}")
                    if not core.is_zero(vs[k, p] - want, budget=5):
                        return Result(REFUTED, backend="engine-A", detail=f"vsigma[{k},{p}] != vsigmax + vsigmac")
            elif vs is not None:
                return Result(REFUTED, backend="engine-A", detail="vsigma invented for LDA pair")
        if vtau is not None:
            return Result(REFUTED, backend="engine-A", detail="vtau not None for internal functionals")
        return Result(DISCHARGED, backend="algebra-normaliser")


class Canary:
    """Deliberately false post-condition on a real function: vxc == d(n exc)/dn + 1 must be refuted."""

    def __call__(self, ob, tier, seed):
        S = X.Setup(1, False)
        exc, vxc, _, _ = X.call_get_xc(S, "lda_c_vwn", "mock_xc")
        rng = random.Random(seed)
        r = S.D_spin(S.n[0] * exc[0], 0, 0) - vxc[0, 0] + 1
        out = X.prove_zero(S, r, 20, rng, "canary")
        if out.verdict != REFUTED:
            # also make sure the exact prover itself does not accept it
            return Result(UNDECIDED, detail="canary not refuted")
        z = core.is_zero(r, budget=20)
        if z is True:
            return Result(DISCHARGED, detail="exact prover accepted a false identity")
        return out


def _register():
    quick_b = {"quick": 120, "thorough": 900}
    for f in X.LDA + X.GGA:
        gga = f.startswith("gga")
        for Nspin in (1, 2):
            fname = fn_of(f, Nspin)
            label = f + ("_spin" if Nspin == 2 else "")
            funcs = [fname, "eminus.xc.utils:get_xc", "eminus.xc.utils:get_zeta"]
            modular = CALLEE.get(f)
            assumes = ("reals", "generic", "engineA", "chain-rule", "numpy-structural") + (("callee-contract",) if modular else ())
            if f in ("gga_x_pbe", "gga_x_pbe_sol"):
                funcs.append("eminus.xc.gga_x_pbe:pbe_x_base")
            if f.endswith("_sol"):
                funcs.append(f"{X.MODULE_OF[f[:-4]]}:{f[:-4] + ('_spin' if Nspin == 2 else '')}")
            for s in range(Nspin):
                sp = SP[s] if Nspin == 2 else "n"
                register(Obligation(
                    name=f"C02.{label}.vxc_{sp}", prop=PROP, engine="A", functions=funcs,
                    run=XCIdentity(f, Nspin, "vxc", s, modular=modular), budget=quick_b, assumes=assumes,
                    doc=f"vxc[{s}] == d(n exc)/dn_{sp} for {label}" + (" (LDA part by contract)" if modular else "")))
                if gga:
                    register(Obligation(
                        name=f"C02.{label}.vsigma_{sp}", prop=PROP, engine="A", functions=funcs,
                        run=XCIdentity(f, Nspin, "vsigma", s, modular=modular), budget=quick_b, assumes=assumes,
                        doc=f"d(n exc)/d(grad n_{sp})_c == 2 v_ss grad n_s + v_ud grad n_s' for {label}, c in xyz"))
            register(Obligation(name=f"C02.{label}.pointwise", prop=PROP, engine="A", functions=funcs,
                                run=Pointwise(f, Nspin), assumes=("pointwise-lift", "numpy-structural"),
                                doc="outputs at a grid point depend only on the inputs at that point"))
            register(Obligation(name=f"C02.{label}.masked_at_n0", prop=PROP, engine="A", functions=funcs,
                                run=MaskedZero(f, Nspin), assumes=("numpy-structural",),
                                doc="get_xc returns exact zeros where n = 0 and unchanged values elsewhere"))
        for zv, tag in ((1, "p1"), (-1, "m1")):
            register(Obligation(name=f"C02.{f}_spin.finite_zeta_{tag}", prop=PROP, engine="A",
                                functions=[fn_of(f, 2), "eminus.xc.utils:get_xc"], run=FiniteAt(f, zv),
                                assumes=("reals",),
                                doc=f"exc, vxc, vsigma finite when one spin density (and its gradient) is exactly zero (zeta={zv})"))
            if f.startswith("gga"):
                register(Obligation(name=f"C02.{f}_spin.finite_zeta_{tag}.gradient_in_empty_channel", prop=PROP, engine="A",
                                    functions=[fn_of(f, 2), "eminus.xc.utils:get_xc"], run=FiniteAt(f, zv, empty_channel_gradient=True), assumes=("reals",),
                                    doc=f"exc, vxc, vsigma finite when one spin density is exactly zero (zeta={zv}) while its gradient is not"))
    # temperature-dependent LDA family: T = 0 exactly and symbolic T > 0
    for f in X.KSDT:
        for Nspin in ((1,) if f == "lda_xc_corr_ksdt" else (1, 2)):
            label = f + ("_spin" if Nspin == 2 else "")
            funcs = [fn_of(f, Nspin), "eminus.xc.lda_xc_ksdt:lda_xc_ksdt_spin", "eminus.xc.lda_xc_ksdt:Coefficients",
                     "eminus.xc.lda_xc_ksdt:_pade", "eminus.xc.lda_xc_ksdt:_dpade", "eminus.xc.lda_xc_ksdt:_get_fxc_zeta",
                     "eminus.xc.lda_xc_ksdt:_get_dfxc_zetadrs", "eminus.xc.lda_xc_ksdt:_get_dfxc_zetadtheta",
                     "eminus.xc.lda_xc_ksdt:_get_phi", "eminus.xc.lda_xc_ksdt:_get_dphidrs",
                     "eminus.xc.lda_xc_ksdt:_get_dphidtheta", "eminus.xc.lda_xc_ksdt:_get_dphidzeta",
                     "eminus.xc.lda_xc_ksdt:_get_alpha", "eminus.xc.lda_xc_ksdt:_get_theta", "eminus.xc.lda_xc_ksdt:_get_theta0",
                     "eminus.xc.lda_xc_ksdt:_get_theta1", "eminus.xc.lda_xc_ksdt:_get_dtheta0dzeta",
                     "eminus.xc.lda_xc_ksdt:_get_dthetadn_up", "eminus.xc.utils:get_xc"]
            for T, tl in ((0, "T0"), ("pos", "Tpos")):
                for s in range(Nspin):
                    sp = SP[s] if Nspin == 2 else "n"
                    register(Obligation(
                        name=f"C02.{label}.vxc_{sp}.{tl}", prop=PROP, engine="A", functions=funcs,
                        run=XCIdentity(f, Nspin, "vxc", s, T=T), budget={"quick": 150, "thorough": 1200},
                        assumes=("reals", "generic", "engineA", "chain-rule", "numpy-structural"),
                        doc=f"vxc[{s}] == d(n exc)/dn_{sp} for {label} at " + ("T = 0" if T == 0 else "symbolic T > 0")))
            register(Obligation(name=f"C02.{label}.pointwise", prop=PROP, engine="A", functions=funcs,
                                run=Pointwise(f, Nspin), assumes=("pointwise-lift", "numpy-structural"),
                                doc="outputs at a grid point depend only on the inputs at that point"))
        if f != "lda_xc_corr_ksdt":
            for zv, tag in ((1, "p1"), (-1, "m1")):
                register(Obligation(name=f"C02.{f}_spin.finite_zeta_{tag}", prop=PROP, engine="A",
                                    functions=[fn_of(f, 2), "eminus.xc.utils:get_xc"], run=FiniteAt(f, zv),
                                    assumes=("reals",),
                                    doc=f"exc, vxc finite when one spin density is exactly zero (zeta={zv}), T = 0"))
    for Nspin in (1, 2):
        for gx, gc in ((False, False), (True, True), (True, False), (False, True)):
            register(Obligation(name=f"C02.get_xc.sum_xc.Nspin{Nspin}.{'g' if gx else 'l'}{'g' if gc else 'l'}", prop=PROP,
                                engine="A", functions=["eminus.xc.utils:get_xc", "eminus.utils:add_maybe_none"],
                                run=SumXC(Nspin, gx, gc), assumes=("linearity-of-D", "callee-contract"),
                                doc="get_xc returns ex+ec, vx+vc, vsigmax(+)vsigmac scattered to the right grid positions"))
    register(Obligation(name="C02.canary.false_identity", prop=PROP, engine="A", functions=["eminus.xc.lda_c_vwn:lda_c_vwn"],
                        run=Canary(), canary=True, doc="vxc == d(n exc)/dn + 1 must be refuted"))


_register()


def _register_symbolic_parameters():
    """`all functional parameters` of the property: the functionals that take numeric keyword parameters are traced once more with those parameters as
    SYMBOLS (handed through get_xc's xc_params), so that the identity holds for every parameter value, not only for the defaults."""
    import inspect

    from pycv.loader import source_of
    import ast as _ast

    for f, Nspin in (("lda_c_pw", 1), ("lda_c_pw", 2), ("lda_c_vwn", 1), ("gga_x_pbe", 1), ("gga_x_pbe", 2)):  # gga_c_pbe: symbolic beta in the modular proof (contracts/c02_modular.py)
        label = f + ("_spin" if Nspin == 2 else "")
        # defaults are read from the tree under check (AST of the function definition)
        try:
            fn = next(n for n in _ast.parse(source_of(f"eminus.xc.{f}")).body if isinstance(n, _ast.FunctionDef) and n.name == label)
        except (StopIteration, OSError, SyntaxError):
            continue
        names = [a.arg for a in fn.args.args]
        dfl = dict(zip(names[len(names) - len(fn.args.defaults):], fn.args.defaults))
        syms = {}
        for k, v in dfl.items():
            try:
                val = _ast.literal_eval(v)
            except (ValueError, SyntaxError):
                continue
            if isinstance(val, float) and k != "T":
                syms[k] = val
            elif isinstance(val, tuple) and val and all(isinstance(x, float) for x in val):
                syms[k] = val
        if not syms:
            continue
        gga = f.startswith("gga")
        for s in range(Nspin):
            sp = SP[s] if Nspin == 2 else "n"
            for kind in (("vxc", "vsigma") if gga else ("vxc",)):
                register(Obligation(name=f"C02.{label}.{kind}_{sp}.symbolic_parameters", prop=PROP, engine="A", functions=[fn_of(f, Nspin), "eminus.xc.utils:get_xc"],
                                    run=XCIdentity(f, Nspin, kind, s, param_syms=syms, slot="c" if "_c_" in f else "x"), budget={"quick": 150, "thorough": 900},
                                    assumes=("reals", "generic", "engineA", "chain-rule", "numpy-structural"),
                                    doc=f"{kind} identity of {label} with its keyword parameters {sorted(syms)} as symbols (handed through xc_params): holds for every parameter value"))


_register_symbolic_parameters()


# ------------------------------------------------------------------------------------------------
# the convenience wrappers hand every argument on to get_xc (the potential the SCF uses is the one proved above)
# ------------------------------------------------------------------------------------------------


class WrapperForwards:
    """get_exc / get_vxc: every parameter reaches get_xc in its own slot and the result is the right component of what get_xc returns
    (symbolic execution of the wrapper with get_xc as an uninterpreted callee that records its bound arguments)."""

    def __init__(self, fn):
        self.fn = fn

    def __call__(self, ob, tier, seed):
        import inspect

        from pycv.wp.explore import explore, named
        from pycv.wp.interp import OutsideSubset, PyRaise, World
        from pycv.wp.numext import NUM_EXT

        try:
            w = World()
            mod = w.module("eminus.xc.utils")
            names = ["xc", "n_spin", "Nspin", "dn_spin", "tau", "xc_params", "dens_threshold"]
            vals = {n: named(w, f"arg:{n}", "val") for n in names}
            seen = {}
            outs = [named(w, f"out:{k}", "val") for k in ("exc", "vxc", "vsigma", "vtau")]

            def get_xc(it, a, k):
                bound = dict(zip(names, a))
                bound.update(k)
                seen.update(bound)
                return tuple(outs)

            ext = dict(NUM_EXT)
            ext["func:get_xc"] = get_xc

            def run(it):
                f = it.lookup_global(self.fn, mod)
                return it.call(f, [vals["xc"], vals["n_spin"], vals["Nspin"]], {n: vals[n] for n in names[3:]}), None

            res = explore(w, run, assumptions=[], ext=ext, max_paths=4)
            if len(res) != 1 or res[0].outcome != "return":
                raise OutsideSubset(f"{self.fn}: {[(r.outcome, str(r.value)[:60]) for r in res]}")
            bad = [n for n in names if seen.get(n) is not vals[n]]
            want = (outs[0],) if self.fn == "get_exc" else tuple(outs[1:])
            got = res[0].value if isinstance(res[0].value, tuple) else (res[0].value,)
            if bad or len(got) != len(want) or any(g is not x for g, x in zip(got, want)):
                wit = dict(wrapper=self.fn, not_forwarded=bad)
                ok, info = self.replay(wit)
                return Result(REFUTED if ok else UNDECIDED, backend="symbolic-execution", witness=wit, replayed=ok, replay_info=info,
                              detail=f"{self.fn}: " + (f"parameters {bad} do not reach get_xc in their slot" if bad else "returns other components than get_xc computes"))
            return Result(DISCHARGED, backend="symbolic-execution", stats=dict(parameters=len(names)))
        except (OutsideSubset, PyRaise, TypeError, AttributeError, KeyError, ValueError, IndexError) as e:
            ok, info = self.replay({})
            if ok:
                return Result(REFUTED, backend="native-contract-evaluation", witness=dict(wrapper=self.fn), replayed=True, replay_info=info,
                              detail=f"{self.fn} differs from get_xc for non-default parameters ({type(e).__name__}: {e})")
            return Result(UNDECIDED, backend="engine-Z", detail=f"outside subset: {type(e).__name__}: {e}")

    def replay(self, wit):
        import eminus
        from eminus.xc import utils as U

        eminus.config.backend = "numpy"
        rng = np.random.default_rng(3)
        bad = []
        for xc, par in (("lda,gdsmfb", {"T": 0.4}), ("pbe", {"mu": 0.3, "beta": 0.05}), ("lda,vwn", {"A": 0.02}), ("lda,ksdt", {"T": 1.2})):
            for Nspin in (1, 2):
                n = rng.uniform(0.05, 1.0, (Nspin, 7))
                dn = rng.uniform(-0.3, 0.3, (Nspin, 7, 3))
                xcl = U.parse_functionals(xc)
                try:
                    ref = U.get_xc(xcl, n, Nspin, dn, None, par, 1e-3)
                    exc = U.get_exc(xcl, n, Nspin, dn, None, par, 1e-3)
                    vxc = U.get_vxc(xcl, n, Nspin, dn, None, par, 1e-3)
                except Exception as e:  # noqa: BLE001
                    bad.append(dict(xc=xc, Nspin=Nspin, raised=f"{type(e).__name__}: {e}"))
                    continue
                d1 = float(np.abs(np.asarray(exc) - np.asarray(ref[0])).max())
                d2 = float(np.abs(np.asarray(vxc[0]) - np.asarray(ref[1])).max())
                d3 = 0.0 if ref[2] is None else float(np.abs(np.asarray(vxc[1]) - np.asarray(ref[2])).max())
                if max(d1, d2, d3) > 0:
                    bad.append(dict(xc=xc, Nspin=Nspin, xc_params=par, exc_diff=d1, vxc_diff=d2, vsigma_diff=d3))
        return bool(bad), dict(check="get_exc / get_vxc vs get_xc with non-default xc_params and a density threshold", failing=bad[:4])


for _w in ("get_exc", "get_vxc"):
    register(Obligation(name=f"C02.{_w}.forwards_every_argument", prop=PROP, engine="Z", functions=[f"eminus.xc.utils:{_w}", "eminus.xc.utils:get_xc"], run=WrapperForwards(_w),
                        assumes=("engineZ",), doc=f"{_w} hands xc, densities, Nspin, gradients, tau, xc_params and the density threshold on to get_xc and returns its components"))
    # the same wrapper contracts are links in the chains of two other properties: H_precompute -> get_vxc (the potential the gradient of C01 is built from) and
    # get_exc / get_vxc as entry points of the built-in functionals that C09 compares with Libxc
    for _p in ("C01", "C09"):
        register(Obligation(name=f"{_p}.{_w}.forwards_every_argument", prop=_p, engine="Z", functions=[f"eminus.xc.utils:{_w}", "eminus.xc.utils:get_xc"], run=WrapperForwards(_w),
                            assumes=("engineZ",), doc=f"{_w} hands every argument (xc_params included) on to get_xc and returns its components (same contract as C02.{_w}.forwards_every_argument)"))


# ------------------------------------------------------------------------------------------------
# frame: the functionals do not modify the arrays they are given (get_xc hands the SAME arrays to exchange and then to correlation)
# ------------------------------------------------------------------------------------------------


class InputsNotModified:
    """Writes-frame of every function in eminus/xc/*.py, decided on the AST: no augmented assignment, item store, in-place method or out= argument
    whose target is a parameter or a view of one (names bound to a parameter or to a subscript / slice of one are views). Native replay: every
    implemented functional is called on arrays whose bytes are compared before and after."""

    INPLACE = {"sort", "fill", "resize", "put", "itemset", "partition", "setfield", "clip_", "mul_", "add_", "sub_", "div_", "copy_", "zero_"}

    def scan(self):
        import ast
        import glob
        import os

        root = os.path.join(os.environ.get("EMINUS_REPO", "/repo"), "eminus", "xc")
        bad, nfun = [], 0
        for path in sorted(glob.glob(os.path.join(root, "*.py"))):
            tree = ast.parse(open(path).read())
            for fn in [n for n in ast.walk(tree) if isinstance(n, ast.FunctionDef)]:
                params = {a.arg for a in fn.args.args + fn.args.kwonlyargs} - {"self", "kwargs"}
                if not params:
                    continue
                nfun += 1
                views = set(params)
                changed = True

                def root_name(e):
                    while isinstance(e, (ast.Subscript, ast.Attribute)) and not (isinstance(e, ast.Attribute) and e.attr not in ("T", "real", "imag")):
                        e = e.value
                    return e.id if isinstance(e, ast.Name) else None

                while changed:
                    changed = False
                    for n in ast.walk(fn):
                        if isinstance(n, ast.Assign) and len(n.targets) == 1 and isinstance(n.targets[0], ast.Name) and isinstance(n.value, (ast.Name, ast.Subscript, ast.Attribute)):
                            r = root_name(n.value)
                            if r in views and n.targets[0].id not in views:
                                views.add(n.targets[0].id)
                                changed = True
                # a parameter that is REBOUND to a fresh value first (x = x * 2) is no longer the caller's array: handled conservatively - any rebinding
                # of a view name by a non-view expression removes it from the set from that line on
                rebound = {}
                for n in ast.walk(fn):
                    if isinstance(n, ast.Assign):
                        for t in n.targets:
                            if isinstance(t, ast.Name) and t.id in views and not (isinstance(n.value, (ast.Name, ast.Subscript, ast.Attribute)) and root_name(n.value) in views):
                                rebound[t.id] = min(rebound.get(t.id, 10**9), n.lineno)
                for n in ast.walk(fn):
                    tg = None
                    if isinstance(n, ast.AugAssign):
                        tg = n.target
                    elif isinstance(n, ast.Assign):
                        tg = next((t for t in n.targets if isinstance(t, ast.Subscript)), None)
                    elif isinstance(n, ast.Call) and isinstance(n.func, ast.Attribute) and n.func.attr in self.INPLACE:
                        tg = n.func.value
                    elif isinstance(n, ast.Call):
                        for k in n.keywords:
                            if k.arg == "out":
                                tg = k.value
                    if tg is None:
                        continue
                    r = root_name(tg)
                    if r in views and n.lineno < rebound.get(r, 10**9) and not (isinstance(n, ast.AugAssign) and isinstance(tg, ast.Name) and False):
                        # `x += 1` on a bare NAME rebinds immutable scalars but modifies arrays in place: parameters here are arrays
                        bad.append(f"{os.path.basename(path)}:{fn.name}:{n.lineno}: `{ast.unparse(n)[:70]}` writes into the argument `{r}`")
        return bad, nfun

    def __call__(self, ob, tier, seed):
        bad, nfun = self.scan()
        if nfun < 20:
            return Result(UNDECIDED, backend="ast-frame", detail=f"only {nfun} functions found (vacuous)")
        if bad:
            ok, info = self.replay({})
            return Result(REFUTED if ok else UNDECIDED, backend="ast-frame", witness=dict(writes=bad[:5]), replayed=ok, replay_info=info, detail=f"functional modifies its input: {bad[0]}")
        return Result(DISCHARGED, backend="ast-frame", stats=dict(functions=nfun))

    def replay(self, wit):
        import eminus
        from eminus.xc import utils as U

        eminus.config.backend = "numpy"
        rng = np.random.default_rng(9)
        bad = []
        for name, fn in sorted(U.IMPLEMENTED.items()):
            spin = name.endswith("_spin")
            n = rng.uniform(0.05, 1.0, 6)
            zeta = rng.uniform(-0.9, 0.9, 6)
            dn = rng.uniform(-0.3, 0.3, (2 if spin else 1, 6, 3))
            args = dict(n=n.copy(), zeta=zeta.copy(), dn_spin=dn.copy())
            try:
                fn(args["n"], *([args["zeta"]] if spin else []), dn_spin=args["dn_spin"], Nspin=2 if spin else 1, T=0.3)
            except Exception as e:  # noqa: BLE001
                bad.append(dict(functional=name, raised=f"{type(e).__name__}: {e}"))
                continue
            for k, before in (("n", n), ("zeta", zeta), ("dn_spin", dn)):
                if not np.array_equal(args[k], before):
                    bad.append(dict(functional=name, modified_argument=k, max_change=float(np.abs(args[k] - before).max())))
        # through get_xc: exchange and correlation see the same gradient
        for xc in ("chachiyo", "pbe", "pbesol"):
            n = rng.uniform(0.05, 1.0, (2, 6))
            dn = rng.uniform(-0.3, 0.3, (2, 6, 3))
            keep = (n.copy(), dn.copy())
            U.get_xc(U.parse_functionals(xc), n, 2, dn)
            if not (np.array_equal(n, keep[0]) and np.array_equal(dn, keep[1])):
                bad.append(dict(get_xc=xc, modified_argument="n_spin / dn_spin"))
        return bool(bad), dict(check="bytes of the input arrays before and after every implemented functional / get_xc", failing=bad[:5])


register(Obligation(name="C02.functionals.inputs_not_modified", prop=PROP, engine="Z", functions=["eminus.xc.utils:get_xc", "eminus.xc.*:*"], run=InputsNotModified(), assumes=("cpython",),
                    doc="frame: no function of eminus/xc writes into its array arguments (get_xc hands the same arrays to exchange and correlation; the caller keeps using them)"))
