"""C12 (non-local projector table, engine Z): post-condition of gth.init_gth_nonloc.

For EVERY projector structure (lmax <= 3, 1..3 projectors per channel), three atoms of two species and two k-points the real function is executed
symbolically; Ylm_real, eval_proj_G, the structure-factor transform and sqrt are uninterpreted (their own contracts are C06 / C12.eval_proj_G.* /
C03). Post-condition: with c = prj2beta[iprj, ia, l, m + lmax - 1] - 1
    * (ia, l, m, iprj) -> c is a bijection from the valid projector tuples onto range(NbetaNL), NbetaNL = sum_atoms sum_l (2l + 1) Nproj_l;
    * column c of betaNL[ik] is the product (-i)^l * Ylm_real(l, m, G + k_ik) * eval_proj_G(psp(ia), l, iprj + 1, |G + k_ik|, Omega) * Sf'(ia, ik)
      (compared as a MULTISET of factors: the order in which the code multiplies is irrelevant);
i.e. the column that calc_Vnonloc addresses through prj2beta as projector (ia, l, m, iprj) IS the transform of that projector.
"""

from __future__ import annotations

import itertools
import os

import numpy as np
import z3

from contracts.c20 import Other
from pycv.framework import DISCHARGED, REFUTED, UNDECIDED, Obligation, Result, register
from pycv.wp.explore import explore, named
from pycv.wp.interp import OutsideSubset, PyRaise, Sym, World
from pycv.wp.numext import NUM_EXT

PROP = "C12"


class ColArr:
    _zpy = True

    def __init__(self, n):
        self.cols, self.n, self.writes = {}, n, 0

    def z_setitem(self, it, idx, val):
        if not (isinstance(idx, tuple) and len(idx) == 2 and isinstance(idx[0], slice) and idx[0] == slice(None) and isinstance(idx[1], int)):
            raise OutsideSubset(f"store into the projector matrix at {idx!r}")
        self.writes += 1
        self.cols[idx[1]] = val

    def z_val(self, world):
        return world.const_val("betaNL_ik")


class Table:
    _zpy = True

    def __init__(self, shape):
        self.shape, self.d, self.default = shape, {}, "UNASSIGNED"

    def _key(self, idx):
        if not isinstance(idx, tuple) or len(idx) != len(self.shape) or any(not isinstance(i, (int, np.integer)) for i in idx):
            raise OutsideSubset(f"index {idx!r} of the projector table")
        return tuple(int(i) % n for i, n in zip(idx, self.shape))

    def z_setitem(self, it, idx, val):
        if isinstance(idx, slice) and idx == slice(None):
            self.default = val
            self.d.clear()
            return
        self.d[self._key(idx)] = val

    def z_getitem(self, it, idx):
        return self.d.get(self._key(idx), self.default)

    def z_val(self, world):
        return world.const_val("prj2beta")


def factors(term):
    """Flatten nested mul/2 applications into the list of factors."""
    if z3.is_app(term) and term.decl().name().startswith("mul/") and term.num_args() == 2:
        return factors(term.arg(0)) + factors(term.arg(1))
    return [term]


def structures():
    out = [[]]
    for lmax in (1, 2, 3):
        out += [list(p) for p in itertools.product((1, 2, 3), repeat=lmax)]
    return out


class InitNonloc:
    def run_structure(self, nproj):
        w = World()
        mod = w.module("eminus.gth")
        pspA = {"lmax": len(nproj), "Nproj_l": list(nproj) + [0] * (4 - len(nproj))}
        pspB = {"lmax": 1, "Nproj_l": [1, 0, 0, 0]}
        gth = {"A": pspA, "B": pspB}
        species = ["A", "B", "A"]
        NK = 2
        pid = {id(pspA): "pspA", id(pspB): "pspB"}

        def uf(name):
            return lambda it, a, k: it.w.uf(name, list(a), "val")

        tables, mats = [], []

        def empty(it, a, k):
            shape = a[0]
            if len(shape) == 4:
                t = Table(tuple(int(x) for x in shape))
                tables.append(t)
                return t
            if len(shape) == 2 and isinstance(shape[1], int):
                c = ColArr(shape[1])
                mats.append(c)
                return c
            raise OutsideSubset(f"xp.empty{shape!r}")

        ext = dict(NUM_EXT)
        ext.update({"func:Ylm_real": uf("Ylm"), "xp.sqrt": uf("sqrt"), "xp.empty": empty,
                    "func:eval_proj_G": lambda it, a, k: it.w.uf("proj", [pid[id(a[0])]] + list(a[1:]), "val")})
        lens = [named(w, f"lenG{ik}", "int") for ik in range(NK)]
        kp = Other(w, "kpts", dict(Nk=NK, k=[named(w, f"k{ik}", "val") for ik in range(NK)]))
        atoms = Other(w, "atoms", dict(Natoms=len(species), atom=species, kpts=kp, Gk2c=[named(w, f"Gk2c{ik}", "val", len=lens[ik].e) for ik in range(NK)],
                                        active=[named(w, f"act{ik}", "val") for ik in range(NK)], Sf=[named(w, f"Sf{ia}", "val") for ia in range(len(species))],
                                        G=named(w, "G", "val"), Omega=named(w, "Omega", "real"),
                                        J=lambda x, ik: w.uf("J", [x, ik], "val"), Idag=lambda x, ik: w.uf("Idag", [x, ik], "val")))

        def run(it):
            f = it.lookup_global("init_gth_nonloc", mod)
            return it.call(f, [atoms, gth], {}), None

        res = explore(w, run, assumptions=[l.e > 0 for l in lens], ext=ext, max_paths=8)
        if len(res) != 1 or res[0].outcome != "return":
            raise OutsideSubset(f"init_gth_nonloc: {[(r.outcome, str(r.value)[:80]) for r in res]}")
        Nb, table, beta = res[0].value
        if not isinstance(table, Table) or not isinstance(beta, list) or len(beta) != NK or not all(isinstance(b, ColArr) for b in beta):
            raise OutsideSubset("unexpected return layout")
        want_N = sum((2 * l + 1) * gth[s]["Nproj_l"][l] for s in species for l in range(gth[s]["lmax"]))
        if not isinstance(Nb, int) or Nb != want_N:
            return f"NbetaNL = {Nb}, expected {want_N}"
        rev = {str(c): k for k, c in w.const_cache.items()}

        def pyval(t):
            s = rev.get(str(t))
            return s

        seen = {}
        for ia, s in enumerate(species):
            psp = gth[s]
            for l in range(psp["lmax"]):
                for m in range(-l, l + 1):
                    for iprj in range(psp["Nproj_l"][l]):
                        c = table.z_getitem(None, (iprj, ia, l, m + psp["lmax"] - 1))
                        if not isinstance(c, int) or not 1 <= c <= Nb:
                            return f"prj2beta[{iprj}, {ia}, {l}, {m + psp['lmax'] - 1}] = {c!r} is not a column number in 1..{Nb}"
                        if c in seen:
                            return f"projectors {seen[c]} and {(ia, l, m, iprj)} share column {c}"
                        seen[c] = (ia, l, m, iprj)
                        for ik in range(NK):
                            col = beta[ik].cols.get(c - 1)
                            if col is None:
                                return f"column {c - 1} of betaNL[{ik}] is never assigned"
                            if not isinstance(col, Sym):
                                return f"column {c - 1} of betaNL[{ik}] is {col!r}"
                            fs = factors(col.e)
                            names = sorted(f.decl().name().split("/")[0] for f in fs)
                            ok = len(fs) == 4
                            phase = (-1j) ** l
                            found = dict(phase=False, ylm=False, proj=False, sf=False)
                            for f in fs:
                                nm = f.decl().name().split("/")[0]
                                if nm == "Ylm":
                                    a = [pyval(f.arg(0)), pyval(f.arg(1))]
                                    found["ylm"] = a == [repr(l), repr(m)] and f"k{ik}" in str(f.arg(2)) and f"act{ik}" in str(f.arg(2))
                                elif nm == "proj":
                                    a = [pyval(f.arg(0)), pyval(f.arg(1)), pyval(f.arg(2))]
                                    found["proj"] = a == [repr("pspA" if s == "A" else "pspB"), repr(l), repr(iprj + 1)] and f"Gk2c{ik}" in str(f.arg(3)) and "Omega" in str(f.arg(4))
                                elif nm == "Idag":
                                    found["sf"] = f"Sf{ia}," in str(f).replace("\n", "") and pyval(f.arg(1)) == repr(ik)
                                else:
                                    v = pyval(f)
                                    try:
                                        found["phase"] = v is not None and abs(complex(eval(v, {"__builtins__": {}})) - phase) < 1e-15  # noqa: S307
                                    except Exception:  # noqa: BLE001
                                        found["phase"] = False
                            if not ok or not all(found.values()):
                                return (f"column {c - 1} of betaNL[{ik}] (addressed as atom {ia}, l={l}, m={m}, projector {iprj + 1}) is not (-i)^l Ylm(l, m) p_i^l Sf of that "
                                        f"projector: factors {names}, matched {found}")
        for ik in range(NK):
            if beta[ik].writes != Nb or set(beta[ik].cols) != set(range(Nb)):
                return f"betaNL[{ik}]: {beta[ik].writes} column stores into {len(beta[ik].cols)} distinct columns, expected {Nb}"
        return None

    def __call__(self, ob, tier, seed):
        n = 0
        try:
            for nproj in structures():
                msg = self.run_structure(nproj)
                n += 1
                if msg:
                    wit = dict(Nproj_l=nproj)
                    ok, info = self.replay(wit)
                    return Result(REFUTED if ok else UNDECIDED, backend="engine-Z", witness=wit, replayed=ok, replay_info=info,
                                  detail=f"init_gth_nonloc, projector structure Nproj_l = {nproj} (atoms A B A): {msg}")
        except (OutsideSubset, PyRaise, TypeError, AttributeError, KeyError, ValueError, IndexError, z3.Z3Exception) as e:
            ok, info = self.replay({})
            if ok:
                return Result(REFUTED, backend="native-contract-evaluation", witness=dict(species="Ga, Ac"), replayed=True, replay_info=info,
                              detail=f"init_gth_nonloc: the column addressed through prj2beta is not the transform of that projector ({type(e).__name__}: {e})")
            return Result(UNDECIDED, backend="engine-Z", detail=f"outside subset: {type(e).__name__}: {e}")
        return Result(DISCHARGED, backend="symbolic-execution", stats=dict(structures=n, atoms=3, kpoints=2))

    def replay(self, wit):
        """Ga (two p projectors, d projector) and Ac in a triclinic cell, two k-points: the addressed column against the direct formula."""
        import eminus
        from eminus import SCF, Atoms
        from eminus.gth import eval_proj_G
        from eminus.utils import Ylm_real

        eminus.config.backend = "numpy"
        eminus.config.verbose = "critical"
        bad = []
        # (two different species that BOTH carry projectors in the same channels: Si / C / O)
        for sp in (["Ga", "H"], ["Ac"], ["H", "Ga"], ["Si", "C"], ["C", "O", "C"]):
            pos = [[0.1, 0.2, 0.3], [0.3, 0.1, 3.2], [2.9, 2.2, 0.4]][: len(sp)]
            at = Atoms(sp, pos, ecut=3, a=[[8.0, 0.5, 0.0], [0.0, 7.5, 0.3], [0.2, 0.0, 9.0]])
            at.kpts.kmesh = [2, 1, 1]
            scf = SCF(at, verbose="critical")
            at = scf.atoms
            g = scf.gth
            for ik in range(at.kpts.Nk):
                gk = np.asarray(at.G)[np.asarray(at.active[ik][0])] + np.asarray(at.kpts.k[ik])
                Gm = np.sqrt(np.asarray(at.Gk2c[ik]))
                for ia in range(at.Natoms):
                    psp = g[at.atom[ia]]
                    Sf = np.asarray(at.Idag(at.J(at.Sf[ia], ik), ik))
                    for l in range(psp["lmax"]):
                        for m in range(-l, l + 1):
                            for iprj in range(psp["Nproj_l"][l]):
                                c = int(g.prj2beta[iprj, ia, l, m + psp["lmax"] - 1]) - 1
                                want = (-1j) ** l * np.asarray(Ylm_real(l, m, gk)) * np.asarray(eval_proj_G(psp, l, iprj + 1, Gm, at.Omega)) * Sf
                                got = np.asarray(g.betaNL[ik])[:, c]
                                if np.abs(got - want).max() > 1e-12 * max(1.0, np.abs(want).max()):
                                    bad.append(dict(species=at.atom[ia], ik=ik, l=l, m=m, projector=iprj + 1, column=c, max_abs_diff=float(np.abs(got - want).max())))
        return bool(bad), dict(check="betaNL[:, prj2beta - 1] vs (-i)^l Ylm p_i^l Sf", mismatches=len(bad), first=bad[:3])


register(Obligation(name="C12.init_gth_nonloc.addressed_column_is_projector", prop=PROP, engine="Z", functions=["eminus.gth:init_gth_nonloc", "eminus.gth:calc_Vnonloc"],
                    run=InitNonloc(), assumes=("engineZ", "callee-contract"), budget={"quick": 300, "thorough": 900},
                    doc="init_gth_nonloc: prj2beta is a bijection onto the columns and column prj2beta[i, ia, l, m] - 1 of betaNL is (-i)^l Ylm_real(l, m) p_i^l(|G + k|) Sf(ia) "
                        "for every projector structure with lmax <= 3 and up to 3 projectors per channel (3 atoms, 2 species, 2 k-points)"))
