"""C07 - Brillouin-zone identities.

What contracts decide here (for all inputs, on the exact small transform of contracts/c04_density.py - symbolic coefficients,
fillings, weights, G, k, volume):
  * reordering the k-points together with their weights, fillings, cut-off tables and coefficients leaves the density, the
    kinetic-energy density and the kinetic energy unchanged (the k-accumulations are sums over per-k tables);
  * the kinetic energy at k with coefficients W equals the one at -k with the conjugated, G-inverted coefficients
    (|G + k|^2 = |-G - k|^2: the Laplacian and the cut-off depend on k only through |G + k|^2, C03.sample.masks / C03.L).
Related clauses proved elsewhere: k . a = 2 pi kappa and the meshes (C15), weights (C13/C15), projectors as functions of |G + k|
(C12), k-weighted band energy (C05), tau / density weights (C04).

What no contract on single functions decides: equality of band energies at k, k + G0 and -k for a full Hamiltonian (a statement
about spectra under a relabelling of the basis, incl. FFT aliasing), and the equality of a k-mesh calculation with the Gamma-point
calculation of the supercell. These are BOUNDED native comparisons, labelled bounded.
"""

from __future__ import annotations

import numpy as np

from contracts import c04_density as D
from pycv.algebra import core as A
from pycv.algebra.core import is_zero, lift
from pycv.framework import BOUNDED_OK, DISCHARGED, REFUTED, UNDECIDED, Obligation, Result, register

PROP = "C07"


class KOrder:
    def __call__(self, ob, tier, seed):
        try:
            return self.prove()
        except (A.OutsideSubset, A.Undecided, TypeError, AttributeError, IndexError, ValueError, KeyError) as e:
            ok, info = self.replay(dict(seed=seed))
            if ok:
                return Result(REFUTED, backend="native-contract-evaluation", witness=dict(seed=seed), replayed=True, replay_info=info,
                              detail=f"k-point reordering changes a result natively (trace left the subset: {type(e).__name__}: {e})")
            return Result(UNDECIDED, backend="engine-A", detail=f"outside subset: {type(e).__name__}: {e}")

    def prove(self):
        C, ld, at, Y = D.build()
        dft = ld.load("eminus.dft")
        gga = ld.load("eminus.gga")
        en = ld.load("eminus.energies")
        en.float = lambda x: x

        def observables():
            n = np.asarray(dft.get_n_total(at, Y), dtype=object)
            ns = np.asarray(dft.get_n_spin(at, Y), dtype=object)
            tau = np.asarray(gga.get_tau(at, Y), dtype=object)
            ek = sum((en.get_Ekin(at, Y[ik], ik) for ik in range(D.NK)), A.ZERO)
            return list(n) + list(ns.reshape(-1)) + list(tau.reshape(-1)) + [ek]

        before = observables()
        # swap the two k-points everywhere a per-k table lives
        Y[0], Y[1] = Y[1], Y[0]
        at.kpts.k = at.kpts.k[::-1].copy()
        at.kpts.wk = at.kpts.wk[::-1].copy()
        at.occ.f = at.occ.f[::-1].copy()
        at.occ.F = at.occ.F[::-1]
        at.active = at.active[::-1]
        at.Gk2c = at._Gk2c = at.Gk2c[::-1]
        at.Gk2 = at._Gk2 = at.Gk2[::-1]
        after = observables()
        for i, (a, b) in enumerate(zip(before, after)):
            v = is_zero(lift(a) - lift(b), budget=60)
            if v is None:
                raise A.Undecided("normaliser budget")
            if not v:
                wit = dict(seed=0)
                ok, info = self.replay(wit)
                return Result(REFUTED, backend="engine-A", witness=wit, replayed=ok, replay_info=info,
                              detail=f"observable #{i} (density / tau / Ekin) changes when the k-points are listed in the other order")
        return Result(DISCHARGED, backend="algebra-normaliser", stats=dict(observables=len(before)),
                      detail="density, spin densities, tau and Ekin are invariant under swapping the two k-points with all per-k tables (symbolic instance)")

    def replay(self, wit):
        worst, info = native_korder(wit.get("seed", 0))
        return bool(worst > 1e-9), info


class MinusK:
    """Ekin(k, W) == Ekin(-k, W~) with W~[G] = conj(W[-G]) on the exact instance (active set {0, 1, 3} is inversion symmetric mod 4)."""

    def __call__(self, ob, tier, seed):
        try:
            C, ld, at, Y = D.build()
            en = ld.load("eminus.energies")
            en.float = lambda x: x
            e_k = en.get_Ekin(at, Y[0], 0)
            # the partner: k -> -k, G -> -G (the grid vectors of the instance: G_3 plays the role of -G_1)
            G = at.G.copy()
            at.G = -G[[0, 3, 2, 1]]
            at.kpts.k = -at.kpts.k
            Gk2c = []
            for ik in range(D.NK):
                v = np.empty(D.NPW, dtype=object)
                for c, g in enumerate([0, 1, 3]):
                    v[c] = sum((at.G[g, d] + at.kpts.k[ik, d]) * (at.G[g, d] + at.kpts.k[ik, d]) for d in range(3))
                Gk2c.append(v)
            at.Gk2c = at._Gk2c = Gk2c
            Yt = np.empty_like(Y[0])
            for s in range(D.NSPIN):
                for c, cm in enumerate([0, 2, 1]):  # active slots (0, 1, 3) -> (-0, -1, -3) = (0, 3, 1)
                    for j in range(D.NST):
                        Yt[s, c, j] = lift(Y[0][s, cm, j]).conjugate()
            e_mk = en.get_Ekin(at, Yt, 0)
            v = is_zero(lift(e_k) - lift(e_mk), budget=60)
            if v:
                return Result(DISCHARGED, backend="algebra-normaliser", detail="Ekin(k, W) == Ekin(-k, conj(W(-G))) for symbolic W, f, wk, G, k")
            if v is None:
                return Result(UNDECIDED, backend="algebra-normaliser", detail="budget")
            ok, info = BandEnergies()._case(seed)
            return Result(REFUTED, backend="engine-A", witness=dict(seed=seed), replayed=ok[0] > 1e-7, replay_info=info, detail="the kinetic energy at -k differs from the one at k for the conjugated orbitals")
        except (A.OutsideSubset, A.Undecided, TypeError, AttributeError, IndexError, ValueError, KeyError) as e:
            return Result(UNDECIDED, backend="engine-A", detail=f"outside subset: {type(e).__name__}: {e}")

    def replay(self, wit):
        w, info = BandEnergies()._case(wit.get("seed", 0))
        return bool(w[0] > 1e-7), info


register(Obligation(name="C07.k_order.density_tau_Ekin", prop=PROP, engine="A", run=KOrder(), assumes=("engineA", "reals", "numpy-structural", "fft"),
                    functions=["eminus.dft:get_n_total", "eminus.dft:get_n_spin", "eminus.gga:get_tau", "eminus.energies:get_Ekin", "eminus.utils:handle_k"],
                    doc="reordering the k-points with their weights, fillings, tables and coefficients leaves density, tau and Ekin unchanged (symbolic instance)"))
register(Obligation(name="C07.minus_k.Ekin", prop=PROP, engine="A", run=MinusK(), assumes=("engineA", "reals", "numpy-structural"),
                    functions=["eminus.energies:get_Ekin", "eminus.operators:L"], doc="Ekin at -k with conjugated, G-inverted coefficients equals Ekin at k (symbolic instance)"))


# ------------------------------------------------------------------------------------------------
# bounded native comparisons
# ------------------------------------------------------------------------------------------------


def _setup():
    import eminus

    eminus.config.backend = "numpy"
    eminus.config.verbose = "critical"


A_TRI = np.array([[6.0, 0.4, 0.2], [0.3, 6.5, 0.5], [0.1, 0.6, 7.0]])


def native_korder(seed):
    """Energies for three weighted k-points and for the same k-points listed in another order (coefficients permuted along)."""
    import dataclasses

    from eminus import SCF, Atoms
    from eminus.dft import orth
    from eminus.energies import get_E

    _setup()
    rng = np.random.default_rng(seed)
    ks = np.array([[0.0, 0.0, 0.0], [0.2, 0.1, 0.05], [0.1, -0.3, 0.2]])
    wk = np.array([0.2, 0.3, 0.5])
    res = []
    Wref = None
    for perm in ((0, 1, 2), (2, 0, 1)):
        at = Atoms(["Si", "H"], [[0.5, 0.6, 0.4], [2.9, 3.0, 3.3]], ecut=4, a=A_TRI, unrestricted=True)
        at.s = [11, 11, 13]
        at.set_k(ks[list(perm)], wk[list(perm)])
        scf = SCF(at, xc="pbe", verbose="critical")
        at = scf.atoms
        if Wref is None:
            Wref = [rng.standard_normal((2, len(at.Gk2c[ik]), at.occ.Nstate)) + 1j * rng.standard_normal((2, len(at.Gk2c[ik]), at.occ.Nstate)) for ik in range(3)]
            order0 = perm
        if Wref is not None and "f" not in locals():
            # fillings that differ between the k-points (as after smearing): one table, permuted along with the k-points
            f = rng.uniform(0.1, 1.0, (3, 2, at.occ.Nstate))
        at.occ._f = f[[order0.index(p) for p in perm]]
        W = [Wref[order0.index(p)] for p in perm]
        scf.W = orth(at, W)
        scf._precompute()
        get_E(scf)
        e = scf.energies
        res.append({f.name: float(getattr(e, f.name)) for f in dataclasses.fields(e)})
    diffs = {k: abs(res[0][k] - res[1][k]) for k in res[0]}
    return max(diffs.values()), dict(check="Si/H, triclinic cell, PBE, unrestricted, k-dependent fillings, k-points listed as (0,1,2) and (2,0,1)", diffs=diffs)


def native_korder_smeared(seed):
    """The same with Fermi smearing: one complete SCF step (Fermi level, smeared fillings, entropy term, all energies) for three weighted k-points in two
    orders, spin-paired and spin-polarised; the fillings of the second order are the permuted fillings of the first."""
    import dataclasses

    from eminus import SCF, Atoms
    from eminus.minimizer import scf_step

    _setup()
    rng = np.random.default_rng(seed)
    ks = np.array([[0.0, 0.0, 0.0], [0.2, 0.1, 0.05], [0.1, -0.3, 0.2]])
    wk = np.array([0.2, 0.3, 0.5])
    diffs = {}
    for unres in (False, True):
        res, Wref, fs = [], None, []
        built = None
        for perm in ((0, 1, 2), (2, 0, 1), (1, 2, 0)):
            if perm == (1, 2, 0):
                # the third order is set on the BUILT object of the first one (same number of k-points, other order of points and weights)
                at = built
                at.set_k(ks[list(perm)], wk[list(perm)])
            else:
                at = Atoms(["Si", "H"], [[0.5, 0.6, 0.4], [2.9, 3.0, 3.3]], ecut=4, a=A_TRI, unrestricted=unres)
                at.s = [11, 11, 13]
                at.occ.smearing = 0.04
                at.occ.bands = 5
                at.set_k(ks[list(perm)], wk[list(perm)])
                if built is None:
                    at.build()
                    built = at
            scf = SCF(at, xc="lda,vwn", verbose="critical")
            at = scf.atoms
            ns = at.occ.Nspin
            if Wref is None:
                Wref = [rng.standard_normal((ns, len(at.Gk2c[ik]), at.occ.Nstate)) + 1j * rng.standard_normal((ns, len(at.Gk2c[ik]), at.occ.Nstate)) for ik in range(3)]
            scf.W = [Wref[p] for p in perm]
            scf_step(scf, 0)
            e = scf.energies
            res.append({f.name: float(getattr(e, f.name)) for f in dataclasses.fields(e)})
            fs.append(np.asarray(scf.atoms.occ.f)[np.argsort(perm)])
        tag = "polarised: " if unres else "paired: "
        for k in res[0]:
            diffs[tag + k] = max(abs(res[0][k] - res[1][k]), abs(res[0][k] - res[2][k]))
        diffs[tag + "fillings (permuted back)"] = float(max(np.abs(fs[0] - fs[1]).max(), np.abs(fs[0] - fs[2]).max()))
        if abs(res[0]["Eentropy"]) < 1e-6:
            raise RuntimeError("harness: the smeared case has no entropy term")
    return max(diffs.values()), dict(check="Si/H, smearing 0.04, 5 bands, LDA, k-points listed as (0,1,2) and (2,0,1)", diffs={k: v for k, v in diffs.items() if v > 1e-10} or dict(worst=max(diffs.values())))


class KOrderNative:
    def __call__(self, ob, tier, seed):
        worst, info = native_korder(seed)
        if worst <= 1e-9:
            w2, info2 = native_korder_smeared(seed)
            if w2 > 1e-9:
                worst, info = w2, info2
        if worst > 1e-9:
            return Result(REFUTED, backend="native", witness=dict(seed=seed), replayed=True, replay_info=info, detail=f"an energy component changes by {worst:.2e} when the k-points are listed in another order")
        return Result(BOUNDED_OK, backend="native", detail=f"bounded: every energy component agrees to {worst:.1e} under a permutation of three weighted k-points")

    def replay(self, wit):
        worst, info = native_korder(wit["seed"])
        if worst <= 1e-9:
            worst, info = native_korder_smeared(wit["seed"])
        return bool(worst > 1e-9), info


class BandEnergies:
    """BOUNDED: eigenvalues of the dense Hamiltonian at k, k + G0 and -k for one fixed (real) potential."""

    def _eigs(self, k, Vloc_pot, nev=6, cell=None, s=(17, 17, 19)):
        from eminus import SCF, Atoms
        from eminus.dft import H

        at = Atoms(["Si", "H"], [[0.5, 0.6, 0.4], [2.9, 3.0, 3.3]], ecut=3, a=A_TRI if cell is None else cell)
        at.s = list(s)  # room for the shifted cut-off sphere
        at.set_k([k], [1.0])
        scf = SCF(at, xc="lda,pw", verbose="critical")
        at = scf.atoms
        n = len(at.Gk2c[0])
        W = [np.eye(n, dtype=complex)[None, :, :]]
        phi, vxc = Vloc_pot(at)
        Hm = np.asarray(H(scf, 0, 0, W, dn_spin=None, phi=phi, vxc=vxc, vsigma=None, vtau=None))
        herm = float(np.abs(Hm - Hm.conj().T).max())
        return np.linalg.eigvalsh((Hm + Hm.conj().T) / 2)[:nev] / at.Omega, herm

    def _eigs_reused(self, k_first, ks_then, Vloc_pot, nev=6):
        """One SCF object built at k_first whose atoms are then REPLACED by the same atoms at other k-points (`scf.atoms = ...`): eigenvalues at each."""
        from eminus import SCF, Atoms
        from eminus.dft import H

        def atoms_at(k):
            at = Atoms(["Si", "H"], [[0.5, 0.6, 0.4], [2.9, 3.0, 3.3]], ecut=3, a=A_TRI)
            at.s = [17, 17, 19]
            at.set_k([k], [1.0])
            return at

        scf = SCF(atoms_at(k_first), xc="lda,pw", verbose="critical")
        out = []
        for k in ks_then:
            scf.atoms = atoms_at(k)
            at = scf.atoms
            n = len(at.Gk2c[0])
            W = [np.eye(n, dtype=complex)[None, :, :]]
            phi, vxc = Vloc_pot(at)
            Hm = np.asarray(H(scf, 0, 0, W, dn_spin=None, phi=phi, vxc=vxc, vsigma=None, vtau=None))
            out.append(np.linalg.eigvalsh((Hm + Hm.conj().T) / 2)[:nev] / at.Omega)
        return out

    def _eigs_list(self, ks, Vloc_pot, e0, nev=6):
        """All k-points in one list (equal weights): the eigenvalues of every entry equivalent to k (k, -k, k + G, -k - G) against e0, and the entry
        Gamma against a separate Gamma-only calculation."""
        from eminus import SCF, Atoms
        from eminus.dft import H

        at = Atoms(["Si", "H"], [[0.5, 0.6, 0.4], [2.9, 3.0, 3.3]], ecut=3, a=A_TRI)
        at.s = [17, 17, 19]
        at.set_k(list(ks), [1.0 / len(ks)] * len(ks))
        scf = SCF(at, xc="lda,pw", verbose="critical")
        at = scf.atoms
        phi, vxc = Vloc_pot(at)
        worst = 0.0
        eg, _ = self._eigs(np.zeros(3), Vloc_pot)
        for ik, kk in enumerate(ks):
            W = [np.eye(len(at.Gk2c[j]), dtype=complex)[None, :, :] for j in range(len(ks))]
            Hm = np.asarray(H(scf, ik, 0, W, dn_spin=None, phi=phi, vxc=vxc, vsigma=None, vtau=None))
            e = np.linalg.eigvalsh((Hm + Hm.conj().T) / 2)[:nev] / at.Omega
            ref = eg if not np.any(kk) else e0
            worst = max(worst, float(np.abs(e - ref).max()))
        return worst

    def _case(self, seed):
        _setup()
        rng = np.random.default_rng(seed)
        coef = rng.standard_normal(4)

        def pot(at):
            # a fixed smooth real potential on the grid (same function of r for every k): Hartree-like field and xc potential
            r = np.asarray(at.r)
            b = 2 * np.pi * np.linalg.inv(np.asarray(at.a)).T
            v = sum(c * np.cos(r @ b[i % 3] * (1 + i // 3)) for i, c in enumerate(coef)) * 0.1
            return at.J(v), np.asarray([v * 0.5])

        k = np.array([0.13, -0.07, 0.21])
        b = 2 * np.pi * np.linalg.inv(A_TRI).T
        e0, h0 = self._eigs(k, pot)
        e1, _ = self._eigs(k + b[0], pot)
        e2, _ = self._eigs(k - b[1] + b[2], pot)
        e3, _ = self._eigs(-k, pot)
        # a shift that moves k OUTSIDE the cut-off sphere of the wave functions (|k + G| > sqrt(2 ecut)): the basis is the sphere around -k - G
        e4, _ = self._eigs(k + 3 * b[0] - 2 * b[2], pot)
        d = dict(k_plus_b1=float(np.abs(e1 - e0).max()), k_minus_b2_plus_b3=float(np.abs(e2 - e0).max()), minus_k=float(np.abs(e3 - e0).max()),
                 k_plus_3b1_minus_2b3=float(np.abs(e4 - e0).max()), hermiticity=h0)
        # the same with ONE SCF object whose atoms are replaced by atoms at the other k-points (projectors and masks have to follow the k-point)
        r = self._eigs_reused(np.array([0.3, 0.2, -0.1]), [k, -k, k + b[0]], pot)
        d["reused_scf_object_k_minusk_kplusb1"] = float(max(np.abs(x - e0).max() for x in r))
        # k and -k (and k + b1, Gamma) in ONE k-point list: every entry of the list has its own projectors and masks, whatever its partners in the list are
        d["one_list_with_k_minusk_kplusb1_gamma"] = self._eigs_list([k, -k, k + b[0], np.zeros(3), -k - b[0]], pot, e0)
        return (max(d["k_plus_b1"], d["k_minus_b2_plus_b3"], d["minus_k"], d["k_plus_3b1_minus_2b3"], d["reused_scf_object_k_minusk_kplusb1"], d["one_list_with_k_minusk_kplusb1_gamma"]),), dict(check="lowest 6 eigenvalues of the dense H (Si/H, GTH s/p projectors, triclinic cell, fixed real potential)", eigenvalues=e0.tolist(), **d)

    def __call__(self, ob, tier, seed):
        (worst,), info = self._case(seed)
        if worst > 1e-7:
            return Result(REFUTED, backend="native", witness=dict(seed=seed), replayed=True, replay_info=info, detail=f"band energies differ by {worst:.2e} between k, k + G and -k at fixed potential: {info}")
        return Result(BOUNDED_OK, backend="native", detail=f"bounded: lowest band energies at k, k + b1, k - b2 + b3 and -k agree to {worst:.1e}")

    def replay(self, wit):
        (worst,), info = self._case(wit["seed"])
        return bool(worst > 1e-7), info


class Supercell:
    """BOUNDED: energy per primitive cell from an N1 x 1 x 1 Gamma-centred mesh vs 1/N1 of the Gamma-point energy of the supercell for
    the mapped orbitals, every contribution separately (incl. Ewald)."""

    def _case(self, seed, N1, lattice, sheared_from=None):
        import dataclasses

        from eminus import SCF, Atoms
        from eminus.dft import orth
        from eminus.energies import get_E, get_Eewald

        _setup()
        rng = np.random.default_rng(seed)
        a = {"triclinic": A_TRI, "hexagonal": 6.0 * np.array([[1, 0, 0], [-0.5, np.sqrt(3) / 2, 0], [0, 0, 1.6]])}[lattice]
        frac = np.array([[0.1, 0.2, 0.15], [0.55, 0.5, 0.6]])
        pos = frac @ a
        s = np.array([9, 9, 11])
        if sheared_from is None:
            prim = Atoms(["Si", "He"], pos, ecut=3, a=a)
            prim.s = list(s)
            prim.kpts.kmesh = [N1, 1, 1]
            prim.kpts.gamma_centered = True
        else:
            # the primitive object was built for ANOTHER cell of the same volume (sheared_from) and got the cell `a` and the positions by assignment
            a0 = np.asarray(sheared_from, float)
            if abs(abs(np.linalg.det(a0)) - abs(np.linalg.det(a))) > 1e-9 * abs(np.linalg.det(a)):
                raise RuntimeError("harness: the two cells do not have the same volume")
            prim = Atoms(["Si", "He"], frac @ a0, ecut=3, a=a0)
            prim.s = list(s)
            prim.kpts.kmesh = [N1, 1, 1]
            prim.kpts.gamma_centered = True
            prim.build()
            prim.a = a
            prim.pos = pos
            prim.s = list(s)
        sp = SCF(prim, xc="pbe", verbose="critical")
        ap = sp.atoms
        asup_a = a * np.array([[N1], [1], [1]])
        pos_sup = np.vstack([pos + i * a[0] for i in range(N1)])
        sup = Atoms(["Si", "He"] * N1, pos_sup, ecut=3, a=asup_a)
        sup.s = list(s * np.array([N1, 1, 1]))
        ss = SCF(sup, xc="pbe", verbose="critical")
        asu = ss.atoms
        nst = ap.occ.Nstate
        if asu.occ.Nstate != N1 * nst or ap.kpts.Nk != N1:
            return (1.0,), dict(note="harness: state / k-point counts do not match", Nk=int(ap.kpts.Nk), Nstate=(int(ap.occ.Nstate), int(asu.occ.Nstate)))
        W = [rng.standard_normal((1, len(ap.Gk2c[ik]), nst)) + 1j * rng.standard_normal((1, len(ap.Gk2c[ik]), nst)) for ik in range(N1)]
        W = [w * np.exp(-0.4 * np.asarray(ap.Gk2c[ik]))[None, :, None] for ik, w in enumerate(W)]
        Y = orth(ap, W)
        # supercell orbitals: the plane wave G + k_j of the primitive cell is a reciprocal vector of the supercell
        Gs = np.asarray(asu.G)[np.asarray(asu.active[0][0] if isinstance(asu.active[0], (tuple, list)) else asu.active[0]).ravel()]
        key = {tuple(np.round(g / 1e-6).astype(np.int64)): i for i, g in enumerate(Gs)}
        Ws = np.zeros((1, len(Gs), N1 * nst), dtype=complex)
        missing = 0
        for ik in range(N1):
            act = np.asarray(ap.active[ik][0] if isinstance(ap.active[ik], (tuple, list)) else ap.active[ik]).ravel()
            q = np.asarray(ap.G)[act] + np.asarray(ap.kpts.k[ik])
            for row, g in enumerate(q):
                j = key.get(tuple(np.round(g / 1e-6).astype(np.int64)))
                if j is None:
                    missing += 1
                    continue
                Ws[0, j, ik * nst:(ik + 1) * nst] = np.asarray(Y[ik])[0, row, :] / np.sqrt(N1)
        sp.W = Y
        sp._precompute()
        get_E(sp)
        sp.energies.Eewald = get_Eewald(ap)
        ss.W = [Ws]
        ss._precompute()
        get_E(ss)
        ss.energies.Eewald = get_Eewald(asu)
        ep = {f.name: float(getattr(sp.energies, f.name)) for f in dataclasses.fields(sp.energies)}
        es = {f.name: float(getattr(ss.energies, f.name)) / N1 for f in dataclasses.fields(ss.energies)}
        diffs = {k: abs(ep[k] - es[k]) / ((200 * max(1.0, abs(ep[k]))) if k == "Eewald" else 1.0) for k in ep}
        return (max(diffs.values()),), dict(check=f"{N1}x1x1 Gamma-centred mesh vs {N1}x1x1 supercell / {N1} ({lattice} cell, Si/He, PBE)", missing_plane_waves=missing, mesh=ep, supercell_per_cell=es)

    def __call__(self, ob, tier, seed):
        worst = 0.0
        for N1, lat in ((2, "triclinic"), (3, "hexagonal")) if tier == "quick" else ((2, "triclinic"), (3, "hexagonal"), (3, "triclinic"), (4, "hexagonal")):
            (w,), info = self._case(seed, N1, lat)
            worst = max(worst, w)
            if w > 1e-8 or info.get("missing_plane_waves"):
                wit = dict(seed=seed, N1=N1, lattice=lat)
                return Result(REFUTED, backend="native", witness=wit, replayed=True, replay_info=info,
                              detail=f"the {N1}x1x1 mesh energy per cell differs from the supercell energy / {N1} by {w:.2e} ({lat} cell)")
        # the triclinic cell reached by a volume-conserving shear assigned to an object that was built for the unsheared cell
        shear = np.array([[1.0, 0.0, 0.0], [0.25, 1.0, 0.0], [-0.15, 0.3, 1.0]])
        (w,), info = self._case(seed, 2, "triclinic", sheared_from=A_TRI @ np.linalg.inv(shear))
        worst = max(worst, w)
        if w > 1e-8 or info.get("missing_plane_waves"):
            wit = dict(seed=seed, N1=2, lattice="triclinic", sheared=True)
            return Result(REFUTED, backend="native", witness=wit, replayed=True, replay_info=info,
                          detail=f"after a volume-conserving change of the cell on a built object the 2x1x1 mesh energy per cell differs from the supercell energy / 2 by {w:.2e}")
        return Result(BOUNDED_OK, backend="native", detail=f"bounded: every energy contribution of the k-mesh calculation equals supercell / N to {worst:.1e}")

    def replay(self, wit):
        sh = None
        if wit.get("sheared"):
            sh = A_TRI @ np.linalg.inv(np.array([[1.0, 0.0, 0.0], [0.25, 1.0, 0.0], [-0.15, 0.3, 1.0]]))
        (w,), info = self._case(wit["seed"], wit["N1"], wit["lattice"], sheared_from=sh)
        return bool(w > 1e-8 or info.get("missing_plane_waves")), info


register(Obligation(name="C07.k_order.energies_native", prop=PROP, engine="B", bounded=True, run=KOrderNative(), functions=["eminus.energies:get_E", "eminus.dft:get_n_total"],
                    budget={"quick": 300, "thorough": 600}, doc="BOUNDED: all energy components for permuted weighted k-points (PBE, unrestricted, GTH)"))
register(Obligation(name="C07.band_energies.k_kplusG_minusk", prop=PROP, engine="B", bounded=True, run=BandEnergies(), functions=["eminus.dft:H", "eminus.gth:init_gth_nonloc", "eminus.operators:L"],
                    budget={"quick": 400, "thorough": 900}, doc="BOUNDED: dense-H eigenvalues at k, k + reciprocal-lattice vectors and -k at a fixed real potential"))
register(Obligation(name="C07.supercell.mesh_vs_gamma", prop=PROP, engine="B", bounded=True, run=Supercell(), budget={"quick": 600, "thorough": 1800},
                    functions=["eminus.energies:get_E", "eminus.energies:get_Eewald", "eminus.kpoints:gamma_centered", "eminus.kpoints:kpoint_convert", "eminus.gth:init_gth_nonloc"],
                    doc="BOUNDED: N1x1x1 Gamma-centred mesh vs supercell Gamma point for mapped orbitals, each energy contribution"))


def native_weight_split(seed):
    """A k-point with weight 3/4 vs the same k-point listed three times with weight 1/4 each (coefficients and fillings repeated): every energy
    contribution AND the band energy agree; so do the kinetic energies evaluated from cut-off restricted and from zero-padded full-basis coefficients."""
    import dataclasses

    from eminus import SCF, Atoms
    from eminus.dft import orth
    from eminus.energies import get_E, get_Eband, get_Ekin

    _setup()
    k1, k2 = np.array([0.05, 0.1, -0.02]), np.array([0.21, -0.13, 0.17])
    xcs = ["pbe"]
    try:
        import pyscf  # noqa: F401

        xcs.append(":MGGA_X_TPSS,:MGGA_C_TPSS")  # the kinetic energy density carries the weights too
    except ImportError:
        pass
    diffs = {}
    for xc in xcs:
        rng = np.random.default_rng(seed)
        res = []
        Wa = None
        for ks, wk, idx in (([k1, k2], [0.25, 0.75], [0, 1]), ([k1, k2, k2, k2], [0.25, 0.25, 0.25, 0.25], [0, 1, 1, 1])):
            at = Atoms(["Si", "H"], [[0.5, 0.6, 0.4], [2.9, 3.0, 3.3]], ecut=4, a=A_TRI, unrestricted=True)
            at.s = [11, 11, 13]
            at.set_k(np.array(ks), np.array(wk))
            scf = SCF(at, xc=xc, verbose="critical")
            at = scf.atoms
            if Wa is None:
                Wa = [rng.standard_normal((2, len(at.Gk2c[ik]), at.occ.Nstate)) + 1j * rng.standard_normal((2, len(at.Gk2c[ik]), at.occ.Nstate)) for ik in range(2)]
            scf.W = orth(at, [Wa[i] for i in idx])
            scf._precompute()
            get_E(scf)
            e = {f.name: float(getattr(scf.energies, f.name)) for f in dataclasses.fields(scf.energies)}
            e["Eband"] = float(get_Eband(scf, scf.W, **scf._precomputed))
            # kinetic energy from zero-padded full-basis coefficients
            ek_a = float(get_Ekin(at, scf.W))
            full = []
            for ik in range(at.kpts.Nk):
                z = np.zeros((2, at.Ns, at.occ.Nstate), dtype=complex)
                z[:, np.asarray(at.active[ik][0]), :] = np.asarray(scf.W[ik])
                full.append(z)
            ek_f = float(get_Ekin(at, full))
            e["Ekin(full basis) - Ekin(cut-off basis)"] = ek_f - ek_a
            res.append(e)
        tag = "" if xc == "pbe" else "TPSS: "
        for k in res[0]:
            diffs[tag + k] = abs(res[0][k] - res[1][k])
        diffs[tag + "Ekin(full basis) - Ekin(cut-off basis)"] = max(abs(res[0]["Ekin(full basis) - Ekin(cut-off basis)"]), abs(res[1]["Ekin(full basis) - Ekin(cut-off basis)"]))
    return max(diffs.values()), dict(check="weights (1/4, 3/4) vs the heavy k-point listed three times; full vs cut-off basis kinetic energy; PBE and (with PySCF) TPSS", diffs=diffs)


class WeightSplit:
    def __call__(self, ob, tier, seed):
        worst, info = native_weight_split(seed)
        if worst > 1e-9:
            return Result(REFUTED, backend="native", witness=dict(seed=seed), replayed=True, replay_info=info, detail=f"energies depend on how a k-point weight is split / on the basis layout: {info['diffs']}")
        return Result(BOUNDED_OK, backend="native", detail=f"bounded: all energy contributions and the band energy agree to {worst:.1e} between weights (1/4, 3/4) and the heavy k-point listed three times; Ekin(full) = Ekin(cut-off)")

    def replay(self, wit):
        worst, info = native_weight_split(wit["seed"])
        return bool(worst > 1e-9), info


class SupercellSmearedFillings:
    """BOUNDED: smeared fillings of a k-mesh vs the equivalent supercell at Gamma: the supercell has ONE Fermi level for the union of the states of all
    k-points, so Occupations.smear of the mesh object (Nk k-points, Nb bands, eigenvalues eps[k]) and of the supercell object (one k-point, Nk x Nb bands,
    the same eigenvalues listed together, Nk times the electrons) give the same filling for every state, spin-paired and spin-polarised, metal-like spectra
    (k-points hold different electron numbers)."""

    def problems(self, seed):
        from eminus import Atoms

        _setup()
        rng = np.random.default_rng(seed)
        bad = []
        worst = 0.0
        for unres in (False, True):
            for mesh in ((2, 2, 1), (3, 1, 1)):
                nk = int(np.prod(mesh))
                nb = 4
                a = np.array([[5.0, 0.2, 0.0], [0.0, 5.5, 0.3], [0.1, 0.0, 6.0]])
                prim = Atoms("Li", [[0.3, 0.2, 0.1]], ecut=1, a=a, unrestricted=unres)
                prim.kpts.kmesh = list(mesh)
                prim.occ.smearing = 0.03
                prim.occ.bands = nb
                prim.build()
                A = a * np.array(mesh)[:, None]
                cells = [(i, j, k) for i in range(mesh[0]) for j in range(mesh[1]) for k in range(mesh[2])]
                pos = [np.array([0.3, 0.2, 0.1]) + np.array(c) @ a for c in cells]
                sup = Atoms(["Li"] * nk, pos, ecut=1, a=A, unrestricted=unres)
                sup.occ.smearing = 0.03
                sup.occ.bands = nb * nk
                sup.build()
                ns = prim.occ.Nspin
                if sup.occ.Nspin != ns or sup.occ.Nelec != nk * prim.occ.Nelec:
                    raise RuntimeError("harness: the supercell object does not hold Nk times the electrons")
                # metal-like spectrum: bands that cross the Fermi level differently at different k-points
                eps = np.sort(rng.uniform(-0.2, 0.3, (nk, ns, nb)), axis=-1) + rng.uniform(-0.08, 0.08, (nk, 1, 1))
                mu_k = prim.occ.smear(eps.copy())
                eps_sc = np.transpose(eps, (1, 0, 2)).reshape(1, ns, nk * nb)
                mu_s = sup.occ.smear(eps_sc.copy())
                fk = np.asarray(prim.occ.f)
                fs = np.asarray(sup.occ.f).reshape(ns, nk, nb).transpose(1, 0, 2)
                d = float(np.abs(fk - fs).max())
                worst = max(worst, d, abs(float(mu_k) - float(mu_s)))
                if d > 1e-8 or abs(float(mu_k) - float(mu_s)) > 1e-8:
                    bad.append(dict(mesh=list(mesh), spin_polarised=unres, largest_filling_difference=d, fermi_level_mesh=float(mu_k), fermi_level_supercell=float(mu_s),
                                    electrons_per_kpoint_mesh=np.sum(fk, axis=(1, 2)).tolist(), electrons_per_kpoint_supercell=np.sum(fs, axis=(1, 2)).tolist()))
        return bad, worst

    def __call__(self, ob, tier, seed):
        bad, worst = self.problems(seed)
        if bad:
            return Result(REFUTED, backend="native", witness=dict(seed=seed, first=bad[0]), replayed=True, replay_info=dict(failing=bad[:4]),
                          detail=f"smeared fillings of the {bad[0]['mesh']} mesh differ from those of the equivalent supercell by {bad[0]['largest_filling_difference']:.2e} (electrons per k-point {bad[0]['electrons_per_kpoint_mesh']} vs {bad[0]['electrons_per_kpoint_supercell']})")
        return Result(BOUNDED_OK, backend="native", detail=f"bounded: 2 meshes x 2 spin treatments, metal-like spectra: fillings and Fermi level of mesh and supercell agree to {worst:.1e}")

    def replay(self, wit):
        bad, _ = self.problems(wit["seed"])
        return bool(bad), dict(failing=bad[:4])


register(Obligation(name="C07.supercell.smeared_fillings_one_fermi_level", prop=PROP, engine="B", bounded=True, run=SupercellSmearedFillings(), functions=["eminus.occupations:Occupations.smear", "eminus.tools:get_Efermi"],
                    doc="BOUNDED: with smearing the fillings of a k-mesh are those of the equivalent supercell at Gamma (one Fermi level for the states of all k-points)"))


register(Obligation(name="C07.k_weights.split_equivalence_and_full_basis_Ekin", prop=PROP, engine="B", bounded=True, run=WeightSplit(),
                    functions=["eminus.energies:get_E", "eminus.energies:get_Eband", "eminus.energies:get_Ekin", "eminus.operators:L", "eminus.gga:get_tau"], budget={"quick": 300, "thorough": 600},
                    doc="BOUNDED: a weighted k-point equals the same k-point listed several times with the weight divided (every energy, band energy included); "
                        "the kinetic energy at k != 0 is the same from cut-off restricted and zero-padded full-basis coefficients"))


# ------------------------------------------------------------------------------------------------
# time-reversal reduction of a k-point set: the k-weighted band energy at fixed potential does not change
# ------------------------------------------------------------------------------------------------


class TrsBandEnergy:
    """BOUNDED: since the band energies at k and -k coincide (fixed real potential), merging the time-reversal partners of a k-point set with their weights
    (KPoints.trs) leaves the k-weighted sum of band energies unchanged. Gamma-centred 2x2x2 mesh of an fcc cell (its Cartesian k-points have negative
    components and the partners are NOT at mirrored list positions), a Monkhorst-Pack 2x2x1 mesh, and a hand-made list with weights."""

    def case(self, seed):
        import eminus
        from eminus.kpoints import KPoints

        _setup()
        be = BandEnergies()
        rng = np.random.default_rng(seed)
        coef = rng.standard_normal(4)
        cell = 7.5 * np.array([[0.0, 0.5, 0.5], [0.5, 0.0, 0.5], [0.5, 0.5, 0.0]])

        def pot(at):
            r = np.asarray(at.r)
            b = 2 * np.pi * np.linalg.inv(np.asarray(at.a)).T
            v = sum(c * np.cos(r @ b[i % 3] * (1 + i // 3)) for i, c in enumerate(coef)) * 0.1
            return at.J(v), np.asarray([v * 0.5])

        cache = {}

        def eband(ks, wk):
            tot = 0.0
            for k, w in zip(np.asarray(ks), np.asarray(wk)):
                key = tuple(np.round(k, 10))
                if key not in cache:
                    cache[key] = float(np.sum(be._eigs(np.asarray(k, dtype=float), pot, nev=4, cell=cell, s=(12, 12, 12))[0]))
                tot += float(w) * cache[key]
            return tot

        out = {}
        b = 2 * np.pi * np.linalg.inv(cell).T
        sets = {}
        kp = KPoints("fcc", cell)
        kp.kmesh = [2, 2, 2]
        kp.build()
        sets["Gamma-centred 2x2x2, fcc"] = kp
        kp = KPoints("fcc", cell)
        kp.gamma_centered = False
        kp.kmesh = [2, 2, 1]
        kp.build()
        sets["Monkhorst-Pack 2x2x1, fcc"] = kp
        kp = KPoints("fcc", cell)
        kp.build()
        kq = np.array([0.3, -0.1, 0.2]) @ b
        kp.k = np.array([[0.0, 0.0, 0.0], kq, 0.5 * b[0], -kq])
        kp.wk = np.array([0.1, 0.2, 0.3, 0.4])
        kp.is_built = True  # the setters reset the flag (trs() would regenerate the mesh); trs() itself marks its result as built in the same way
        sets["list (0, q, b1/2, -q) with weights (0.1, 0.2, 0.3, 0.4)"] = kp
        for name, kp in sets.items():
            k0, w0 = np.asarray(kp.k).copy(), np.asarray(kp.wk).copy()
            e_full = eband(k0, w0)
            kp.trs()
            k1, w1 = np.asarray(kp.k), np.asarray(kp.wk)
            out[name] = dict(points_before=len(k0), points_after=len(k1), weight_sum_after=float(np.sum(w1)), band_energy_full=e_full, band_energy_reduced=eband(k1, w1))
        worst = max(max(abs(v["band_energy_full"] - v["band_energy_reduced"]), abs(v["weight_sum_after"] - 1)) for v in out.values())
        return worst, out

    def __call__(self, ob, tier, seed):
        try:
            worst, info = self.case(seed)
        except Exception as e:  # noqa: BLE001
            worst, info = float("inf"), dict(raised=f"{type(e).__name__}: {e}")
        if not worst <= 1e-8:
            return Result(REFUTED, backend="native", witness=dict(seed=seed), replayed=True, replay_info=info, detail=f"k-weighted band energy at fixed potential changes under trs(): {info}")
        return Result(BOUNDED_OK, backend="native", detail=f"bounded: k-weighted sum of the lowest band energies before / after trs() agree to {worst:.1e} for three k-point sets (fcc cell)")

    def replay(self, wit):
        worst, info = self.case(wit["seed"])
        return bool(not worst <= 1e-8), info


register(Obligation(name="C07.trs.k_weighted_band_energy_unchanged", prop=PROP, engine="B", bounded=True, run=TrsBandEnergy(), functions=["eminus.kpoints:KPoints.trs", "eminus.dft:H"],
                    budget={"quick": 300, "thorough": 600},
                    doc="BOUNDED: merging time-reversal partners with their weights leaves the k-weighted band energy at fixed potential unchanged (band energies at k and -k coincide)"))
