"""C17 - file round trips preserve the system (engine Z with symbolic text).

The real writers are executed on an object with concrete species labels and *symbolic* coordinates / cell; what they write
is kept as symbolic text (literal characters + formatted values); the real readers are executed on that text. Obligation:
the reader returns exactly the written values (to the printed precision: formatting and parsing of one number are an assumed
inverse pair), with every species attached to its own position, for EVERY iteration order of unordered collections."""

from __future__ import annotations

import itertools
import os
import time

import numpy as np
import z3

from pycv.framework import DISCHARGED, REFUTED, UNDECIDED, Obligation, Result, register
from pycv.wp.execute import Vec
from pycv.wp.explore import check_valid, explore, named
from pycv.wp.interp import OutsideSubset, PyRaise, Sym, World
from pycv.wp.ioext import io_ext, make_set
from pycv.wp.numext import NdArr

PROP = "C17"


class Stub:
    _zplain = True


def make_atoms(w, labels, cell=True):
    at = Stub()
    at.atom = list(labels)
    at.Natoms = len(labels)
    pos = NdArr((len(labels), 3))
    for i in range(len(labels)):
        for c in range(3):
            pos.a[i, c] = named(w, f"pos{i}{c}", "real")
    at.pos = pos
    a = NdArr((3, 3))
    for i in range(3):
        for c in range(3):
            a.a[i, c] = named(w, f"a{i}{c}", "real")
    at.a = a
    at.unrestricted = False
    at._atoms = at
    return at


def real_eq(w, pc, x, y):
    """x == y as reals under the path condition."""
    def z(v):
        if isinstance(v, Sym):
            return z3.ToReal(v.e) if v.kind == "int" else v.e
        return z3.RealVal(repr(float(v)))

    v, _ = check_valid(w, pc, z(x) == z(y))
    return v == "proved"


class RoundTrip:
    def __init__(self, fmt, labels):
        self.fmt, self.labels = fmt, labels

    def __call__(self, ob, tier, seed):
        try:
            return self.prove(ob)
        except (OutsideSubset, TypeError, AttributeError, KeyError, ValueError, IndexError, z3.Z3Exception) as e:
            wit = dict(fmt=self.fmt, labels=self.labels)
            ok, info = self.replay(wit)
            if ok:
                return Result(REFUTED, backend="native-contract-evaluation", witness=wit, replayed=True, replay_info=info,
                              detail=f"{self.fmt} round trip fails natively (symbolic run left the subset: {type(e).__name__}: {e})")
            return Result(UNDECIDED, backend="engine-Z", detail=f"outside subset: {type(e).__name__}: {e}")

    def prove(self, ob):
        w = World()
        mod = w.module(f"eminus.io.{self.fmt}")
        at = make_atoms(w, self.labels)
        store = {}
        ext = io_ext(store)
        ext["set"] = make_set
        fname = {"xyz": "t.xyz", "poscar": "t.POSCAR"}[self.fmt]

        def run(it):
            store.clear()
            wr = it.lookup_global(f"write_{self.fmt}", mod)
            it.call(wr, [at, fname], {})
            rd = it.lookup_global(f"read_{self.fmt}", mod)
            return it.call(rd, [fname], {}), None

        res = explore(w, run, ext=ext, max_paths=500)
        npaths = 0
        for r in res:
            npaths += 1
            if r.outcome != "return":
                return self.refute(f"reader/writer raised {r.outcome} ({r.value}) on one iteration order of an unordered collection")
            out = r.value
            atom, pos = out[0], out[1]
            atom = [str(x.concrete() if hasattr(x, "concrete") else x) for x in atom]
            if len(atom) != len(self.labels):
                return self.refute(f"{len(atom)} atoms read, {len(self.labels)} written")
            # every written atom must be found with its own species at its own position
            P = pos.a if isinstance(pos, NdArr) else np.array([list(p) for p in pos], dtype=object)
            used = set()
            for i, lab in enumerate(self.labels):
                hit = None
                for j in range(len(atom)):
                    if j in used or atom[j] != lab:
                        continue
                    if all(real_eq(w, r.path.pc, P[j, c], at.pos.a[i, c]) for c in range(3)):
                        hit = j
                        break
                if hit is None:
                    order = [str(c)[:40] for c in r.path.pc][-4:]
                    return self.refute(f"atom {i} ({lab}) is not read back with its species at its position: species read {atom}, "
                                       f"written {self.labels} (set iteration order branch {order})")
                used.add(hit)
            if self.fmt == "poscar":
                a = out[2]
                A = a.a if isinstance(a, NdArr) else a
                for i in range(3):
                    for c in range(3):
                        if not real_eq(w, r.path.pc, A[i, c], at.a.a[i, c]):
                            return self.refute(f"lattice entry a[{i},{c}] is not preserved")
        return Result(DISCHARGED, backend="z3", stats=dict(paths=npaths))

    def refute(self, msg):
        wit = dict(fmt=self.fmt, labels=self.labels)
        ok, info = self.replay(wit)
        return Result(REFUTED, backend="engine-Z", witness=wit, replayed=ok, replay_info=info, detail=f"{self.fmt} round trip: {msg}")

    def replay(self, wit):
        """Native round trip for several PYTHONHASHSEED values (separate interpreters: the set order depends on the hash seed)."""
        import json
        import os
        import subprocess
        import sys
        import tempfile

        code = r'''
import sys, json, tempfile, os
sys.path.insert(0, sys.argv[1])
import numpy as np, eminus
eminus.config.backend = "numpy"; eminus.config.verbose = "critical"
from eminus import Atoms
from eminus.io import read, write
labels = json.loads(sys.argv[2]); fmt = sys.argv[3]
rng = np.random.default_rng(1)
pos = rng.uniform(0.5, 5.5, (len(labels), 3))
a = np.array([[6.0, 0.4, 0.2], [0.3, 7.0, 0.5], [0.1, 0.6, 8.0]])
at = Atoms(labels, pos, ecut=1, a=a)
with tempfile.TemporaryDirectory() as d:
    fn = os.path.join(d, "t." + ("xyz" if fmt == "xyz" else "POSCAR"))
    write(at, fn)
    out = read(fn)
atom2, pos2 = out[0], np.asarray(out[1])
bad = []
used = set()
for i, lab in enumerate(labels):
    hit = [j for j in range(len(atom2)) if j not in used and atom2[j] == lab and np.abs(pos2[j] - pos[i]).max() < 1e-5]
    if not hit:
        bad.append(i)
    else:
        used.add(hit[0])
if fmt == "poscar" and np.abs(np.asarray(out[2]) - a).max() > 1e-5:
    bad.append("cell")
print(json.dumps(dict(bad=bad, species_read=list(map(str, atom2)))))
'''
        repo = os.environ.get("EMINUS_REPO", "/repo")
        results = {}
        for seed in ("0", "1", "2", "3", "4", "5"):
            env = dict(os.environ, PYTHONHASHSEED=seed)
            p = subprocess.run([sys.executable, "-c", code, repo, json.dumps(wit["labels"]), wit["fmt"]], capture_output=True, text=True, env=env, timeout=300)
            try:
                results[seed] = json.loads(p.stdout.strip().splitlines()[-1])
            except Exception:  # noqa: BLE001
                results[seed] = dict(bad=["crash"], stderr=p.stderr[-300:])
        failing = {s: r for s, r in results.items() if r["bad"]}
        return bool(failing), dict(check="native write -> read for PYTHONHASHSEED 0..5 (triclinic cell)", failing=failing)


def _register():
    Z = ("engineZ", "z3", "float-format")
    for fmt, funcs in (("xyz", ["eminus.io.xyz:write_xyz", "eminus.io.xyz:read_xyz"]),
                       ("poscar", ["eminus.io.poscar:write_poscar", "eminus.io.poscar:read_poscar"])):
        for labels in (["He"], ["O", "H", "H"], ["O", "H", "H", "C"]):
            register(Obligation(name=f"C17.{fmt}.roundtrip[{''.join(labels)}]", prop=PROP, engine="Z", functions=funcs,
                                run=RoundTrip(fmt, labels), budget={"quick": 120, "thorough": 600}, assumes=Z,
                                doc=f"{fmt}: write then read returns every atom of {labels} with its species at its (symbolic) position"
                                    + (" and the (symbolic) cell" if fmt == "poscar" else "") + ", for every set iteration order"))


_register()


class PoscarForeign:
    """read_poscar on a foreign file that follows the format definition: scaling factor(s), Direct or Cartesian coordinates,
    optional 'Selective dynamics' line - all numbers symbolic."""

    def __init__(self, mode, nscale, selective, sel_line="Selective dynamics"):
        self.mode, self.nscale, self.selective, self.sel_line = mode, nscale, selective, sel_line
        # format definition: only the first letter of the mode line counts; C, c, K, k select Cartesian coordinates, anything else Direct
        self.direct = mode.strip().lower()[:1] not in ("c", "k")

    def __call__(self, ob, tier, seed):
        try:
            return self.prove(ob)
        except (OutsideSubset, TypeError, AttributeError, KeyError, ValueError, IndexError, z3.Z3Exception) as e:
            wit = dict(mode=self.mode, nscale=self.nscale, selective=self.selective, sel_line=self.sel_line)
            ok, info = self.replay(wit)
            if ok:
                return Result(REFUTED, backend="native-contract-evaluation", witness=wit, replayed=True, replay_info=info,
                              detail=f"read_poscar misreads a {self.mode} file natively (symbolic run left the subset: {type(e).__name__}: {e})")
            return Result(UNDECIDED, backend="engine-Z", detail=f"outside subset: {type(e).__name__}: {e}")

    def prove(self, ob):
        from pycv.wp.symstr import SStr, Tok

        w = World()
        mod = w.module("eminus.io.poscar")
        sc = [named(w, f"sc{i}", "real") for i in range(self.nscale)]
        A = [[named(w, f"A{i}{c}", "real") for c in range(3)] for i in range(3)]
        labels = ["Si", "C"]
        counts = [1, 2]
        X = [[named(w, f"x{i}{c}", "real") for c in range(3)] for i in range(3)]

        def num_line(vals, extra=""):
            ps = []
            for v in vals:
                ps += ["  ", Tok(v, " .8f")]
            return SStr(ps + [extra, "\n"])

        text = SStr(["a foreign file\n"]) + num_line(sc)
        for i in range(3):
            text = text + num_line(A[i])
        text = text + SStr(["Si C\n", "1 2\n"])
        if self.selective:
            text = text + SStr([self.sel_line + "\n"])
        text = text + SStr([self.mode + "\n"])
        for i in range(3):
            text = text + num_line(X[i], "  T T F" if self.selective else "")
        store = {"f.POSCAR": text}
        ext = io_ext(store)

        def run(it):
            rd = it.lookup_global("read_poscar", mod)
            return it.call(rd, ["f.POSCAR"], {}), None

        res = explore(w, run, ext=ext)
        ang = 0.529177210544
        for r in res:
            if r.outcome != "return":
                return self.refute(f"reader raised {r.outcome}: {r.value}")
            atom, pos, a = r.value
            atom = [str(x) for x in atom]
            if atom != ["Si", "C", "C"]:
                return self.refute(f"species expanded to {atom}, expected ['Si', 'C', 'C']")
            P = pos.a if isinstance(pos, NdArr) else np.array([list(p) for p in pos], dtype=object)
            Aa = a.a if isinstance(a, NdArr) else a

            def s(c):
                return sc[c if self.nscale == 3 else 0]

            for i in range(3):
                for c in range(3):
                    want_a = (s(c) * A[i][c]) / ang
                    if not real_eq(w, r.path.pc, Aa[i, c], want_a):
                        return self.refute(f"lattice a[{i},{c}] != scaling * file value (in Bohr)")
            for i in range(3):
                for c in range(3):
                    if self.direct:
                        want = sum(((X[i][j] * (s(c) * A[j][c])) for j in range(3)), 0) / ang
                    else:
                        want = (s(c) * X[i][c]) / ang
                    if not real_eq(w, r.path.pc, P[i, c], want):
                        return self.refute(f"position {i} component {c} is not " + ("sum_j c_j a_j" if self.direct else "scaling * file value"))
        return Result(DISCHARGED, backend="z3", stats=dict(paths=len(res)))

    def refute(self, msg):
        wit = dict(mode=self.mode, nscale=self.nscale, selective=self.selective, sel_line=self.sel_line)
        ok, info = self.replay(wit)
        return Result(REFUTED, backend="engine-Z", witness=wit, replayed=ok, replay_info=info, detail=f"read_poscar ({self.mode}, {self.nscale} scaling factor(s)"
                      f"{', selective dynamics' if self.selective else ''}): {msg}")

    def replay(self, wit):
        import tempfile

        import eminus
        from eminus.io.poscar import read_poscar

        eminus.config.backend = "numpy"
        eminus.config.verbose = "critical"
        rng = np.random.default_rng(3)
        sc = rng.uniform(0.8, 1.5, wit["nscale"])
        A = np.array([[5.0, 0.7, 0.3], [0.2, 6.0, 0.9], [0.4, 0.1, 7.0]])
        X = rng.uniform(0.1, 0.9, (3, 3))
        lines = ["foreign", " ".join(f"{v:.8f}" for v in sc)] + [" ".join(f"{v:.8f}" for v in row) for row in A] + ["Si C", "1 2"]
        if wit["selective"]:
            lines.append(wit.get("sel_line", "Selective dynamics"))
        lines.append(wit["mode"])
        lines += [" ".join(f"{v:.8f}" for v in row) + ("  T T F" if wit["selective"] else "") for row in X]
        import os

        with tempfile.TemporaryDirectory() as d:
            fn = os.path.join(d, "f.POSCAR")
            open(fn, "w").write("\n".join(lines) + "\n")
            # uninitialised memory is made visible: the allocator hands a freed block of the same size to the reader
            for fill in (7.7e33, -3.3e21):
                junk = [np.full((3, 3), fill) for _ in range(64)]
                del junk
                atom, pos, a = read_poscar(fn)
                if not np.all(np.abs(np.asarray(pos)) < 1e6):
                    break
        scv = sc if wit["nscale"] == 3 else np.repeat(sc, 3)
        a_want = A * scv / 0.529177210544
        direct = wit["mode"].strip().lower()[:1] not in ("c", "k")
        pos_want = (X @ (A * scv) if direct else X * scv) / 0.529177210544
        ea, ep = float(np.abs(np.asarray(a) - a_want).max()), float(np.abs(np.asarray(pos) - pos_want).max())
        return bool(ea > 1e-6 or ep > 1e-6 or list(atom) != ["Si", "C", "C"]), dict(max_err_cell=ea, max_err_positions=ep, species=list(map(str, atom)))


def _register_foreign():
    Z = ("engineZ", "z3", "float-format")
    for mode, nscale, sel in (("Direct", 1, False), ("Cartesian", 1, False), ("Direct", 3, True), ("Cartesian", 3, True)):
        register(Obligation(name=f"C17.poscar.foreign[{mode},{nscale}sc{',sel' if sel else ''}]", prop=PROP, engine="Z",
                            functions=["eminus.io.poscar:read_poscar"], run=PoscarForeign(mode, nscale, sel), assumes=Z,
                            doc=f"read_poscar on a foreign {mode} file with {nscale} scaling factor(s){' and selective dynamics' if sel else ''}: "
                                "cell = scaling * rows, positions = sum_j c_j a_j (Direct) / scaling * coords (Cartesian), species expanded by the counts"))


_register_foreign()


def _register_foreign_spellings():
    """The format definition (VASP wiki, linked in the module) lets only the FIRST LETTER of the mode lines decide: 'S'/'s' announces selective
    dynamics, 'C', 'c', 'K', 'k' Cartesian coordinates, everything else Direct. Files in the wild abbreviate ('Cart', 'D', 'Direct coordinates')."""
    Z = ("engineZ", "z3", "float-format")
    for mode, nscale, sel, sl in (("Cart", 1, False, None), ("K", 3, False, None), ("c", 1, True, "Selective Dynamics"), ("D", 1, False, None),
                                  ("direct coordinates", 3, True, "s"), ("Fractional", 1, False, None)):
        register(Obligation(name=f"C17.poscar.foreign_spelling[{mode},{nscale}sc{',sel=' + sl if sel else ''}]", prop=PROP, engine="Z",
                            functions=["eminus.io.poscar:read_poscar"], run=PoscarForeign(mode, nscale, sel, sl or "Selective dynamics"), assumes=Z,
                            doc=f"read_poscar on a foreign file whose mode line reads '{mode}'" + (f" after a '{sl}' line" if sel else "") + ": only the first letter "
                                "decides (format definition); every position is assigned (never uninitialised memory) and follows the Direct / Cartesian formula"))


_register_foreign_spellings()


class CubeRoundTrip:
    """write_cube -> read_cube with a symbolic non-orthogonal cell, symbolic positions / charges / field values and an
    anisotropic concrete grid."""

    def __init__(self, s=(2, 3, 4)):
        self.s = s

    def __call__(self, ob, tier, seed):
        try:
            return self.prove(ob)
        except (OutsideSubset, TypeError, AttributeError, KeyError, ValueError, IndexError, z3.Z3Exception) as e:
            ok, info = self.replay({})
            if ok:
                return Result(REFUTED, backend="native-contract-evaluation", witness=dict(s=list(self.s)), replayed=True, replay_info=info,
                              detail=f"CUBE round trip fails natively (symbolic run left the subset: {type(e).__name__}: {e})")
            return Result(UNDECIDED, backend="engine-Z", detail=f"outside subset: {type(e).__name__}: {e}")

    def prove(self, ob):
        w = World()
        mod = w.module("eminus.io.cube")
        labels = ["O", "H"]
        at = make_atoms(w, labels)
        at.s = list(self.s)
        at.Z = [named(w, f"Z{i}", "real") for i in range(len(labels))]
        n = self.s[0] * self.s[1] * self.s[2]
        field = Vec([named(w, f"f{i}", "real") for i in range(n)])
        store = {}
        ext = io_ext(store)

        def run(it):
            store.clear()
            it.call(it.lookup_global("write_cube", mod), [at, "t.cube", field], {})
            return it.call(it.lookup_global("read_cube", mod), ["t.cube"], {}), None

        res = explore(w, run, ext=ext)
        for r in res:
            if r.outcome != "return":
                return self.refute(f"raised {r.outcome}: {r.value}")
            atom, pos, Z, a, s, fld = r.value
            if [str(x) for x in atom] != labels:
                return self.refute(f"species {atom} != {labels}")
            P = pos.a if isinstance(pos, NdArr) else np.array([list(p) for p in pos], dtype=object)
            Aa = a.a if isinstance(a, NdArr) else np.array([list(p) for p in a], dtype=object)
            for i in range(len(labels)):
                if not real_eq(w, r.path.pc, Z[i], at.Z[i]):
                    return self.refute(f"charge of atom {i}")
                for c in range(3):
                    if not real_eq(w, r.path.pc, P[i, c], at.pos.a[i, c]):
                        return self.refute(f"position of atom {i}")
            for i in range(3):
                for c in range(3):
                    if not real_eq(w, r.path.pc, Aa[i, c], at.a.a[i, c]):
                        return self.refute(f"cell vector a[{i},{c}] is not preserved (voxel vector i must be a_i / s_i) for the anisotropic grid {self.s}")
            S = list(s.a) if isinstance(s, NdArr) else list(s)
            if [int(x) for x in S] != list(self.s):
                return self.refute(f"sampling {S}")
            F = list(fld)
            if len(F) != n:
                return self.refute(f"{len(F)} field values read, {n} written")
            for i in range(n):
                if not real_eq(w, r.path.pc, F[i], field[i]):
                    return self.refute(f"field value {i} is not preserved / reordered")
        return Result(DISCHARGED, backend="z3")

    def refute(self, msg):
        ok, info = self.replay({})
        return Result(REFUTED, backend="engine-Z", witness=dict(s=list(self.s)), replayed=ok, replay_info=info, detail=f"CUBE round trip: {msg}")

    def replay(self, wit):
        import os
        import tempfile

        import eminus
        from eminus import Atoms
        from eminus.io import read_cube, write_cube

        eminus.config.backend = "numpy"
        eminus.config.verbose = "critical"
        a = np.array([[6.0, 0.4, 0.2], [0.3, 7.0, 0.5], [0.1, 0.6, 8.0]])
        at = Atoms(["O", "H"], [[1.0, 2.0, 3.0], [2.5, 1.5, 0.5]], ecut=1, a=a)
        at.s = [7, 11, 18]
        at.build()
        f = np.random.default_rng(0).standard_normal(at.Ns)
        with tempfile.TemporaryDirectory() as d:
            fn = os.path.join(d, "t.cube")
            write_cube(at, fn, f)
            atom, pos, Z, a2, s2, f2 = read_cube(fn)
        errs = dict(cell=float(np.abs(np.asarray(a2) - a).max()), pos=float(np.abs(np.asarray(pos) - np.asarray(at.pos)).max()),
                    field=float(np.abs(np.asarray(f2) - f).max()), s=[int(x) for x in s2],
                    charges=float(np.abs(np.asarray(Z, dtype=float) - np.asarray(at.Z, dtype=float)).max()))
        bad = errs["cell"] > 1e-4 or errs["pos"] > 1e-5 or errs["field"] > 1e-5 or errs["s"] != [7, 11, 18] or list(atom) != ["O", "H"] or errs["charges"] > 1e-5
        return bool(bad), dict(check="native CUBE round trip, triclinic cell, s=(7,11,18)", errors=errs)


register(Obligation(name="C17.cube.roundtrip", prop=PROP, engine="Z", functions=["eminus.io.cube:write_cube", "eminus.io.cube:read_cube"],
                    run=CubeRoundTrip(), assumes=("engineZ", "z3", "float-format"),
                    doc="CUBE: species, positions, charges, symbolic non-orthogonal cell (voxel vectors a_i/s_i), anisotropic grid (2,3,4) and all field values in order"))


class JsonHook:
    """_custom_object_hook restores every stored attribute of a dataclass-like object (Energy, Occupations): the restored
    object's fields equal the dictionary entries, for symbolic values (no field is dropped or defaulted)."""

    def __init__(self, cls):
        self.cls = cls

    def __call__(self, ob, tier, seed):
        import ast

        try:
            w = World()
            mod = w.module("eminus.io.json")
            modname, clsname = {"Energy": ("eminus.energies", "Energy"), "Occupations": ("eminus.occupations", "Occupations")}[self.cls]
            C = w.module(modname).get_class(clsname)
            fields = [n.target.id for n in C.node.body if isinstance(n, ast.AnnAssign)]
            dct = {f: named(w, f"v_{f}", "real") for f in fields}

            def run(it):
                return it.call(it.lookup_global("_custom_object_hook", mod), [dct], {}), None

            res = explore(w, run, ext={"copy.deepcopy": lambda it, a, k: a[0]})
            for r in res:
                if r.outcome != "return":
                    return Result(UNDECIDED, backend="engine-Z", detail=f"hook ended with {r.outcome}: {r.value}")
                o = r.value
                if not hasattr(o, "fields") or o.cls.name != clsname:
                    return self.refute(f"the hook does not rebuild a {clsname} object")
                for f in fields:
                    v = o.fields.get(f)
                    if not isinstance(v, Sym) or not v.e.eq(dct[f].e):
                        return self.refute(f"attribute {f} of the restored {clsname} is {v!r}, not the stored value")
            return Result(DISCHARGED, backend="engine-Z", stats=dict(fields=fields))
        except (OutsideSubset, TypeError, AttributeError, KeyError, ValueError, IndexError) as e:
            ok, info = self.replay({})
            if ok:
                return Result(REFUTED, backend="native-contract-evaluation", witness=dict(cls=self.cls), replayed=True, replay_info=info,
                              detail=f"JSON restore of {self.cls} loses an attribute natively ({type(e).__name__}: {e})")
            return Result(UNDECIDED, backend="engine-Z", detail=f"outside subset: {type(e).__name__}: {e}")

    def refute(self, msg):
        ok, info = self.replay({})
        return Result(REFUTED, backend="engine-Z", witness=dict(cls=self.cls), replayed=ok, replay_info=info, detail=f"JSON object hook: {msg}")

    def replay(self, wit):
        import dataclasses
        import os
        import tempfile

        import eminus
        from eminus.io import read_json, write_json

        eminus.config.backend = "numpy"
        if self.cls == "Energy":
            from eminus.energies import Energy

            o = Energy(*[0.5 + 0.25 * i for i in range(len(dataclasses.fields(Energy)))])
        else:
            from eminus.occupations import Occupations

            o = Occupations()
            o.Nelec, o.Nspin, o.spin, o.charge, o.smearing, o.bands = 5, 2, 1, 1, 0.01, 6
        with tempfile.TemporaryDirectory() as d:
            fn = os.path.join(d, "o.json")
            write_json(o, fn)
            o2 = read_json(fn)
        bad = {k: (v, getattr(o2, k, None)) for k, v in o.__dict__.items() if not np.all(getattr(o2, k, None) == v)}
        return bool(bad), dict(check=f"native JSON round trip of a {self.cls} object with distinct field values", differing={k: str(v) for k, v in bad.items()})


for _cls in ("Energy", "Occupations"):
    register(Obligation(name=f"C17.json.object_hook.{_cls}", prop=PROP, engine="Z",
                        functions=["eminus.io.json:_custom_object_hook"], run=JsonHook(_cls), assumes=("engineZ",),
                        doc=f"JSON/HDF5 object hook restores every attribute of a stored {_cls} object (symbolic values)"))


class TrajRoundTrip:
    """write_traj([frame1, frame2], fods) -> read_traj: every frame returns every atom (and every FOD, written as pseudo-atoms) with its
    species at its symbolic position, for every set order; frames are returned in the order written."""

    def __init__(self, labels, with_fods):
        self.labels, self.with_fods = labels, with_fods

    def __call__(self, ob, tier, seed):
        try:
            return self.prove()
        except (OutsideSubset, PyRaise, TypeError, AttributeError, KeyError, ValueError, IndexError, z3.Z3Exception) as e:
            wit = dict(labels=self.labels, fods=self.with_fods)
            ok, info = self.replay(wit)
            if ok:
                return Result(REFUTED, backend="native-contract-evaluation", witness=wit, replayed=True, replay_info=info,
                              detail=f"TRAJ round trip fails natively (symbolic run left the subset: {type(e).__name__}: {e})")
            return Result(UNDECIDED, backend="engine-Z", detail=f"outside subset: {type(e).__name__}: {e}")

    def prove(self):
        w = World()
        mod = w.module("eminus.io.traj")
        frames = []
        for f in range(2):
            at = make_atoms(w, self.labels)
            for i in range(len(self.labels)):
                for c in range(3):
                    at.pos.a[i, c] = named(w, f"f{f}pos{i}{c}", "real")
            frames.append(at)
        fods = None
        if self.with_fods:
            fods = []
            for s in range(2):
                arr = NdArr((s + 1, 3))
                for i in range(s + 1):
                    for c in range(3):
                        arr.a[i, c] = named(w, f"fod{s}{i}{c}", "real")
                fods.append(arr)
        store = {}
        ext = io_ext(store)
        ext["set"] = make_set

        def run(it):
            store.clear()
            wr = it.lookup_global("write_traj", mod)
            it.call(wr, [frames, "t.traj"], {"fods": fods} if fods is not None else {})
            rd = it.lookup_global("read_traj", mod)
            return it.call(rd, ["t.traj"], {}), None

        res = explore(w, run, ext=ext, max_paths=200)
        npaths = 0
        for r in res:
            npaths += 1
            if r.outcome != "return":
                return self.refute(f"reader/writer raised {r.outcome} ({r.value})")
            traj = r.value
            if len(traj) != 2:
                return self.refute(f"{len(traj)} frames read, 2 written")
            for f, (atom, pos) in enumerate(traj):
                atom = [str(x.concrete() if hasattr(x, "concrete") else x) for x in atom]
                P = pos.a if isinstance(pos, NdArr) else np.array([list(p) for p in pos], dtype=object)
                want = [(lab, [frames[f].pos.a[i, c] for c in range(3)]) for i, lab in enumerate(self.labels)]
                if fods is not None:
                    for s, sym in enumerate(("X", "He")):
                        for i in range(fods[s].a.shape[0]):
                            want.append((sym, [fods[s].a[i, c] for c in range(3)]))
                if len(atom) != len(want):
                    return self.refute(f"frame {f}: {len(atom)} entries read, {len(want)} written")
                used = set()
                for lab, xyz in want:
                    hit = None
                    for j in range(len(atom)):
                        if j in used or atom[j] != lab:
                            continue
                        if all(real_eq(w, r.path.pc, P[j, c], xyz[c]) for c in range(3)):
                            hit = j
                            break
                    if hit is None:
                        return self.refute(f"frame {f}: entry {lab} is not read back with its species at its position (species read {atom})")
                    used.add(hit)
        return Result(DISCHARGED, backend="z3", stats=dict(paths=npaths, frames=2, fods=bool(fods)))

    def refute(self, msg):
        wit = dict(labels=self.labels, fods=self.with_fods)
        ok, info = self.replay(wit)
        return Result(REFUTED, backend="engine-Z", witness=wit, replayed=ok, replay_info=info, detail=f"TRAJ round trip: {msg}")

    def replay(self, wit):
        import os
        import tempfile

        import eminus
        from eminus import Atoms
        from eminus.io import read_traj, write_traj

        eminus.config.backend = "numpy"
        eminus.config.verbose = "critical"
        rng = np.random.default_rng(2)
        labels = wit["labels"]
        # the second frame lists the atoms in another order: every frame carries its own species column
        orders = [list(labels), list(labels[1:]) + list(labels[:1])]
        frames = [Atoms(orders[f], rng.uniform(0.5, 5.5, (len(labels), 3)), ecut=1, a=8) for f in range(2)]
        fods = [rng.uniform(0.5, 5.5, (1, 3)), rng.uniform(0.5, 5.5, (2, 3))] if wit["fods"] else None
        try:
            with tempfile.TemporaryDirectory() as d:
                fn = os.path.join(d, "t.traj")
                write_traj(frames, fn, fods=fods)
                out = read_traj(fn)
        except Exception as e:  # noqa: BLE001
            return True, dict(check="native write_traj -> read_traj", raised=f"{type(e).__name__}: {e}")
        bad = []
        if len(out) != 2:
            bad.append(f"{len(out)} frames")
        for f, (atom, pos) in enumerate(out[:2]):
            pos = np.asarray(pos)
            want = [(lab, np.asarray(frames[f].pos)[i]) for i, lab in enumerate(orders[f])]
            if fods is not None:
                want += [("X", p) for p in fods[0]] + [("He", p) for p in fods[1]]
            if len(atom) != len(want):
                bad.append(f"frame {f}: {len(atom)} entries instead of {len(want)}")
                continue
            used = set()
            for lab, p in want:
                hit = [j for j in range(len(atom)) if j not in used and atom[j] == lab and np.abs(pos[j] - p).max() < 1e-5]
                if not hit:
                    bad.append(f"frame {f}: {lab} lost")
                else:
                    used.add(hit[0])
        return bool(bad), dict(check="native write_traj -> read_traj, two frames" + (" with FODs" if fods else ""), problems=bad)


for _labels, _fods in ((["O", "H", "H"], False), (["O", "H", "H"], True), (["C", "O"], True)):
    register(Obligation(name=f"C17.traj.roundtrip[{''.join(_labels)}{',fods' if _fods else ''}]", prop=PROP, engine="Z",
                        functions=["eminus.io.traj:write_traj", "eminus.io.traj:read_traj", "eminus.io.xyz:write_xyz"], run=TrajRoundTrip(_labels, _fods),
                        assumes=("engineZ", "z3", "float-format"), budget={"quick": 120, "thorough": 600},
                        doc=f"TRAJ: two frames of {_labels}{' with FODs' if _fods else ''} written and read back: every frame returns every atom / FOD with its species at its (symbolic) position"))


class ScfRestart:
    """BOUNDED native: an SCF object saved to JSON (and HDF5 if h5py is importable) and loaded again reproduces the stored energies bit for
    bit and continues the minimisation identically (multi-k-point with ragged basis sizes, smearing, GGA)."""

    def case(self, fmt):
        problems = self.case_one(fmt, False)
        problems.update({f"Gamma-only, restricted, LDA: {k}": v for k, v in self.case_one(fmt, True).items()})
        problems.update({f"CH4, PBE, five pccg steps: {k}": v for k, v in self.case_total(fmt).items()})
        return problems

    def case_total(self, fmt):
        """A system for which compensated and naive summation of the stored contributions differ in the last bit: the restored object reports the stored total."""
        import os
        import tempfile

        import eminus
        from eminus import SCF, Atoms
        from eminus.io import read, write

        eminus.config.backend = "numpy"
        eminus.config.verbose = "critical"
        at = Atoms("CH4", [[0, 0, 0], [1.2, 1.2, 1.2], [-1.2, -1.2, 1.2], [1.2, -1.2, -1.2], [-1.2, 1.2, -1.2]], ecut=4, a=8)
        scf = SCF(at, xc="pbe", opt={"pccg": 5}, etol=1e-12)
        scf.run()
        with tempfile.TemporaryDirectory() as d:
            fn = os.path.join(d, "scf." + fmt)
            write(scf, fn)
            scf2 = read(fn)
        a, b = float(scf.energies.Etot), float(scf2.energies.Etot)
        return {} if a == b else {"Etot": dict(stored_object=a.hex(), restored_object=b.hex())}

    def case_one(self, fmt, gamma_only):
        import dataclasses
        import os
        import tempfile

        import eminus
        from eminus import SCF, Atoms
        from eminus.io import read, write

        eminus.config.backend = "numpy"
        eminus.config.verbose = "critical"
        at = Atoms(["Li", "H"], [[0.2, 0.1, 0.3], [0.4, 0.2, 3.1]], ecut=3, a=[[6.0, 0.3, 0.1], [0.2, 6.5, 0.4], [0.5, 0.1, 7.0]], unrestricted=True)
        if gamma_only:
            at = Atoms(["Li", "H"], [[0.2, 0.1, 0.3], [0.4, 0.2, 3.1]], ecut=3, a=[[6.0, 0.3, 0.1], [0.2, 6.5, 0.4], [0.5, 0.1, 7.0]])
        else:
            at.kpts.kmesh = [2, 1, 1]
            at.kpts.kshift = [0.1, 0.0, 0.05]
            at.occ.smearing = 0.01
            at.occ.bands = 3
        # the Gamma-only case chains two minimisers in non-alphabetical order: the restored object has to continue with the same sequence
        scf = SCF(at, xc="lda,vwn" if gamma_only else "pbe", opt={"sd": 2, "pccg": 2} if gamma_only else {"pccg": 3}, etol=1e-14)
        scf.run()
        with tempfile.TemporaryDirectory() as d:
            fn = os.path.join(d, "scf." + fmt)
            write(scf, fn)
            scf2 = read(fn)
        e1 = {f.name: getattr(scf.energies, f.name) for f in dataclasses.fields(scf.energies)}
        e2 = {f.name: getattr(scf2.energies, f.name) for f in dataclasses.fields(scf2.energies)}
        problems = {k: (float(e1[k]), float(e2[k])) for k in e1 if float(e1[k]) != float(e2[k])}
        # the TOTAL energy the restored object reports (Energy.Etot sums the stored fields; Python's sum() adds floats with compensation and numpy.float64
        # scalars naively, so fields restored with another scalar type give a total that differs in the last bit for about every third system) and, as the
        # deterministic form of the same statement, the scalar type of every stored contribution
        if float(scf.energies.Etot) != float(scf2.energies.Etot):
            problems["Etot"] = (float(scf.energies.Etot).hex(), float(scf2.energies.Etot).hex())
        for k in e1:
            if type(e1[k]) is not type(e2[k]):
                problems[f"type of the stored contribution {k}"] = (type(e1[k]).__name__, type(e2[k]).__name__)
                break
        for ik in range(len(scf.W)):
            if not np.array_equal(np.asarray(scf.W[ik]), np.asarray(scf2.W[ik])):
                problems[f"W[{ik}]"] = "coefficients differ"
        if not np.array_equal(np.asarray(scf.atoms.occ.f), np.asarray(scf2.atoms.occ.f)):
            problems["f"] = "fillings differ"
        if list(scf.opt.items()) != list(scf2.opt.items()):
            problems["opt"] = f"minimiser sequence stored {list(scf.opt.items())}, restored {list(scf2.opt.items())}"
        # continue both (the Gamma-only case with the minimiser sequence each object holds)
        if not gamma_only:
            for s in (scf, scf2):
                s.opt = {"pccg": 2}
        a, b = scf.run(), scf2.run()
        if a != b:
            problems["continued Etot"] = (float(a), float(b))
        return problems

    def __init__(self, fmt):
        self.fmt = fmt

    def __call__(self, ob, tier, seed):
        fmts = [self.fmt]
        if self.fmt == "hdf5":
            try:
                import h5py  # noqa: F401
            except ImportError:
                return Result(UNDECIDED, backend="native", detail="h5py is not importable")
        for fmt in fmts:
            try:
                problems = self.case(fmt)
            except Exception as e:  # noqa: BLE001
                return Result(REFUTED, backend="native", witness=dict(format=fmt), replayed=True, replay_info=dict(raised=f"{type(e).__name__}: {e}"),
                              detail=f"saving / loading an SCF object as {fmt} raises {type(e).__name__}: {e}")
            if problems:
                return Result(REFUTED, backend="native", witness=dict(format=fmt), replayed=True, replay_info=problems,
                              detail=f"{fmt}: the restored SCF object differs from the stored one: {problems}")
        from pycv.framework import BOUNDED_OK

        return Result(BOUNDED_OK, backend="native", detail=f"bounded: LiH, 2 shifted k-points (ragged bases), smearing, PBE, unrestricted; and Gamma-only restricted LDA (lists of one array): {', '.join(fmts)} restore energies, coefficients and fillings bit for bit and the continued run is identical")

    def replay(self, wit):
        try:
            p = self.case(wit["format"])
        except Exception as e:  # noqa: BLE001
            return True, dict(raised=f"{type(e).__name__}: {e}")
        return bool(p), p


for _fmt, _funcs in (("json", ["eminus.io.json:write_json", "eminus.io.json:read_json"]), ("hdf5", ["eminus.extras.hdf5:write_hdf5", "eminus.extras.hdf5:read_hdf5"])):
    register(Obligation(name=f"C17.scf.save_load_continue[{_fmt}]", prop=PROP, engine="B", bounded=True, run=ScfRestart(_fmt), budget={"quick": 300, "thorough": 600},
                        functions=_funcs + ["eminus.scf:SCF.run"],
                        doc=f"BOUNDED: an SCF object saved as {_fmt} and loaded again reproduces energies bit for bit and continues identically (multi-k with ragged bases, smearing, GGA)"))


class JsonBackendArrays:
    """BOUNDED: JSON save / load under BOTH array backends of the package: every array member of a restored Atoms / SCF object has the type it had when it
    was stored (a NumPy array under NumPy, a tensor under Torch), the values agree bit for bit, and a restored SCF object continues like the stored one."""

    def problems(self):
        import tempfile

        import eminus
        from eminus import SCF, Atoms
        from eminus import backend as xp
        from eminus.io import read_json, write_json

        bad = []
        for backend in ("numpy", "torch"):
            eminus.config.backend = backend
            try:
                if eminus.config.backend != backend:
                    continue  # backend not installed: nothing to check for it
                eminus.config.verbose = "critical"
                with tempfile.TemporaryDirectory() as d:
                    at = Atoms("LiH", [[0.0, 0.0, 0.0], [0.0, 0.0, 3.0]], ecut=3, a=[[7.0, 0.3, 0.0], [0.0, 7.5, 0.2], [0.1, 0.0, 8.0]], unrestricted=True)
                    at.kpts.kmesh = [2, 1, 1]
                    at.build()
                    write_json(at, os.path.join(d, "a.json"))
                    at2 = read_json(os.path.join(d, "a.json"))
                    for owner, o1, o2 in (("Atoms", at, at2), ("KPoints", at.kpts, at2.kpts), ("Occupations", at.occ, at2.occ)):
                        for k, v in vars(o1).items():
                            if xp.is_array(v) if hasattr(xp, "is_array") else hasattr(v, "shape"):
                                w = getattr(o2, k, None)
                                if type(w) is not type(v):
                                    bad.append(dict(backend=backend, member=f"{owner}.{k}", stored_as=type(v).__name__, restored_as=type(w).__name__))
                                elif not np.array_equal(np.asarray(xp.to_np(v)), np.asarray(xp.to_np(w))):
                                    bad.append(dict(backend=backend, member=f"{owner}.{k}", problem="values differ"))
                    scf = SCF(at, xc="pbe", opt={"pccg": 2}, etol=1e-14, verbose="critical")
                    scf.run()
                    write_json(scf, os.path.join(d, "s.json"))
                    try:
                        scf2 = read_json(os.path.join(d, "s.json"))
                        e1 = float(scf.run())
                        e2 = float(scf2.run())
                        if e1 != e2:
                            bad.append(dict(backend=backend, problem="the restored SCF object continues differently", stored=e1, restored=e2))
                        for ik in range(len(scf.W)):
                            if type(scf2.W[ik]) is not type(scf.W[ik]):
                                bad.append(dict(backend=backend, member=f"SCF.W[{ik}]", stored_as=type(scf.W[ik]).__name__, restored_as=type(scf2.W[ik]).__name__))
                    except Exception as e:  # noqa: BLE001
                        bad.append(dict(backend=backend, problem="restoring / continuing the SCF object raises", raised=f"{type(e).__name__}: {e}"))
            finally:
                eminus.config.backend = "numpy"
        return bad

    def __call__(self, ob, tier, seed):
        from pycv.framework import BOUNDED_OK

        try:
            bad = self.problems()
        except Exception as e:  # noqa: BLE001
            bad = [dict(raised=f"{type(e).__name__}: {e}")]
        if bad:
            return Result(REFUTED, backend="native", witness=bad[0], replayed=True, replay_info=dict(failing=bad[:5]), detail=f"JSON round trip under the array backends: {bad[0]}")
        return Result(BOUNDED_OK, backend="native", detail="bounded: Atoms (2 k-points) and an SCF object (PBE, two steps) through JSON under NumPy and Torch: array types and values restored, continued run identical")

    def replay(self, wit):
        bad = self.problems()
        return bool(bad), dict(failing=bad[:5])


register(Obligation(name="C17.json.arrays_restored_for_the_active_backend", prop=PROP, engine="B", bounded=True, run=JsonBackendArrays(), functions=["eminus.io.json:_custom_object_hook", "eminus.io.json:read_json", "eminus.io.json:write_json"],
                    budget={"quick": 300, "thorough": 600}, doc="BOUNDED: JSON round trip of Atoms and SCF objects under both array backends: restored arrays have the backend's type, values bit for bit, the continued run is identical"))


# =================================================================================================
# HDF5: lists of arrays with different shapes (one per k-point) - order-preserving for EVERY length
# =================================================================================================


class Hdf5RaggedList:
    """VC generated from the ASTs of write_hdf5 / read_hdf5 (engine Z, special purpose): the group written for a list of N arrays and
    the list restored from it agree element by element for EVERY N.

    Model of the dependency (assumed contract 'h5py-group-map'): a Group is a finite map name -> payload; create_dataset(name, data=d) adds
    name -> d; group[name] returns the payload; len(group) is the number of entries; ITERATING a group (items / values / keys) visits the
    names in ascending LEXICOGRAPHIC order ('10' before '2'), which is not the insertion order - any reader that iterates is outside the
    subset and falls back to the native replay. to_np / asarray / [()] are the identity on payloads. Python's str on non-negative
    integers is injective ('str-injective').
    Writer loop  `for I, V in enumerate(value): group.create_dataset(NAME(I), data=DATA(V))`     gives  G(NAME(i)) = DATA(list[i]), i < N,
    provided NAME is injective on [0, N) (VC 1; otherwise a later dataset replaces an earlier one / h5py raises).
    Reader       `[ELT(value[KEY(I)]) for I in range(len(value))]` then the tuple restoration     gives  out[i] = RESTORE(G(KEY(i))), i < len(G) = N.
    VC 2: for all N, 0 <= i < N: RESTORE(ELT(G(KEY(i)))) == list[i] (pre-condition for '_active': every entry is a 1-tuple)."""

    def find(self, tree):
        import ast

        w = next(n for n in ast.walk(tree) if isinstance(n, ast.FunctionDef) and n.name == "write_hdf5_recursively")
        r = next(n for n in ast.walk(tree) if isinstance(n, ast.FunctionDef) and n.name == "read_hdf5_recursively")
        loops = [n for n in ast.walk(w) if isinstance(n, ast.For) and isinstance(n.iter, ast.Call) and getattr(n.iter.func, "id", None) == "enumerate"
                 and any(isinstance(c, ast.Call) and getattr(c.func, "attr", None) == "create_dataset" for c in ast.walk(n))]
        if len(loops) != 1:
            raise OutsideSubset(f"{len(loops)} enumerate loops creating datasets in write_hdf5_recursively")
        loop = loops[0]
        if not (isinstance(loop.target, ast.Tuple) and len(loop.target.elts) == 2 and all(isinstance(e, ast.Name) for e in loop.target.elts)):
            raise OutsideSubset("writer loop target is not (index, value)")
        if len(loop.body) != 1 or not isinstance(loop.body[0], ast.Expr) or not isinstance(loop.body[0].value, ast.Call):
            raise OutsideSubset("writer loop body is not a single create_dataset call")
        call = loop.body[0].value
        if getattr(call.func, "attr", None) != "create_dataset" or len(call.args) != 1:
            raise OutsideSubset("writer loop body is not group.create_dataset(name, data=...)")
        data = next((k.value for k in call.keywords if k.arg == "data"), None)
        if data is None:
            raise OutsideSubset("create_dataset without data=")
        # the attribute that tells the reader how to restore the entries
        attr = None
        for n in ast.walk(w):
            if isinstance(n, ast.Assign) and isinstance(n.targets[0], ast.Subscript) and getattr(n.targets[0].value, "attr", None) == "attrs" \
                    and isinstance(n.targets[0].slice, ast.Constant) and n.targets[0].slice.value == "list":
                attr = n.value
        if attr is None:
            raise OutsideSubset("writer does not set the 'list' attribute")
        # reader: the branch guarded by `"list" in value.attrs`
        branch = None
        for n in ast.walk(r):
            if isinstance(n, ast.If) and any(isinstance(c, ast.Compare) and isinstance(c.left, ast.Constant) and c.left.value == "list" for c in ast.walk(n.test)):
                branch = n
                break
        if branch is None:
            raise OutsideSubset("reader has no branch for the 'list' attribute")
        return dict(ivar=loop.target.elts[0].id, vvar=loop.target.elts[1].id, listvar=loop.iter.args[0], name=call.args[0], data=data, attr=attr, branch=branch)

    def vc(self):
        import ast

        import z3

        src = open(os.path.join(os.environ.get("EMINUS_REPO", "/repo"), "eminus", "extras", "hdf5.py")).read()
        parts = self.find(ast.parse(src))
        Val = z3.DeclareSort("Val")
        Name = z3.DeclareSort("Name")
        str_ = z3.Function("str", z3.IntSort(), Name)
        first = z3.Function("first", Val, Val)  # x[0]
        tup1 = z3.Function("tuple1", Val, Val)  # (x,)
        lst = z3.Function("list", z3.IntSort(), Val)
        G = z3.Function("G", Name, Val)
        active = z3.Bool("key_is__active")
        N = z3.Int("N")
        a, b = z3.Ints("a b")
        x = z3.Const("x", Val)
        axioms = [z3.ForAll([a, b], z3.Implies(z3.And(a >= 0, b >= 0, str_(a) == str_(b)), a == b)),  # str-injective
                  z3.ForAll([x], first(tup1(x)) == x)]

        def tr(node, env):
            """Expressions of the subset -> z3 (Int / Name / Val / Bool / python str constants)."""
            if isinstance(node, ast.Name):
                if node.id in env:
                    return env[node.id]
                raise OutsideSubset(f"free name {node.id}")
            if isinstance(node, ast.Constant):
                if isinstance(node.value, bool) or not isinstance(node.value, (int, str)) and node.value != ():
                    raise OutsideSubset(f"constant {node.value!r}")
                return node.value
            if isinstance(node, ast.BinOp) and isinstance(node.op, (ast.Add, ast.Sub, ast.Mult)):
                l, r_ = tr(node.left, env), tr(node.right, env)
                if not all(isinstance(v, int) or (z3.is_expr(v) and v.sort() == z3.IntSort()) for v in (l, r_)):
                    raise OutsideSubset("arithmetic on non-integers")
                return {ast.Add: lambda: l + r_, ast.Sub: lambda: l - r_, ast.Mult: lambda: l * r_}[type(node.op)]()
            if isinstance(node, ast.Call) and isinstance(node.func, ast.Name) and node.func.id == "str" and len(node.args) == 1:
                v = tr(node.args[0], env)
                return str_(v if z3.is_expr(v) else z3.IntVal(v))
            if isinstance(node, ast.JoinedStr) and len(node.values) == 1 and isinstance(node.values[0], ast.FormattedValue) \
                    and node.values[0].format_spec is None and node.values[0].conversion == -1:
                v = tr(node.values[0].value, env)
                if z3.is_expr(v) and v.sort() == z3.IntSort():
                    return str_(v)
                raise OutsideSubset("f-string of a non-integer")
            if isinstance(node, ast.Call) and isinstance(node.func, ast.Attribute) and node.func.attr in ("to_np", "asarray") and len(node.args) == 1 and not node.keywords:
                return tr(node.args[0], env)  # identity on payloads
            if isinstance(node, ast.Subscript):
                base = tr(node.value, env)
                if isinstance(node.slice, ast.Tuple) and not node.slice.elts:  # x[()]
                    return base
                if isinstance(base, tuple) and base[0] == "group":
                    k = tr(node.slice, env)
                    if not (z3.is_expr(k) and k.sort() == Name):
                        raise OutsideSubset("group indexed by something that is not a dataset name")
                    return G(k)
                if isinstance(base, tuple) and base[0] == "attrs":
                    if tr(node.slice, env) == "list":
                        return ("attr-list",)
                    raise OutsideSubset("other attribute")
                if z3.is_expr(base) and base.sort() == Val and isinstance(node.slice, ast.Constant) and node.slice.value == 0:
                    return first(base)
                raise OutsideSubset(f"subscript {ast.unparse(node)}")
            if isinstance(node, ast.Attribute) and node.attr == "attrs" and isinstance(tr(node.value, env), tuple):
                return ("attrs",)
            if isinstance(node, ast.Tuple) and len(node.elts) == 1:
                v = tr(node.elts[0], env)
                if z3.is_expr(v) and v.sort() == Val:
                    return tup1(v)
                raise OutsideSubset("tuple of a non-payload")
            if isinstance(node, ast.Compare) and len(node.ops) == 1 and isinstance(node.ops[0], ast.Eq):
                l, r_ = tr(node.left, env), tr(node.comparators[0], env)
                if l == ("key",) and r_ == "_active":
                    return active
                if l == ("attr-list",) and isinstance(r_, str):
                    return ("attr-is", r_)
                raise OutsideSubset(f"comparison {ast.unparse(node)}")
            if isinstance(node, ast.IfExp):
                c, t, e = tr(node.test, env), tr(node.body, env), tr(node.orelse, env)
                if isinstance(c, tuple) and c[0] == "attr-is":
                    c = env["__attr_is"](c[1])
                if isinstance(t, str) and isinstance(e, str):
                    return ("ifstr", c, t, e)
                return z3.If(c, t, e)
            raise OutsideSubset(f"expression {ast.unparse(node)}")

        i = z3.Int("i")
        j = z3.Int("j")
        wenv = {parts["ivar"]: i, parts["vvar"]: lst(i), "key": ("key",)}
        name_i = tr(parts["name"], wenv)
        data_i = tr(parts["data"], wenv)
        if not (z3.is_expr(name_i) and name_i.sort() == Name):
            raise OutsideSubset("dataset name is not str(index)")
        name_j = z3.substitute(name_i, (i, j))
        attr = tr(parts["attr"], {"key": ("key",)})
        if not (isinstance(attr, tuple) and attr[0] == "ifstr"):
            raise OutsideSubset("the 'list' attribute is not a conditional string")
        _, acond, astr_t, astr_e = attr

        def attr_is(s):  # value.attrs["list"] == s
            return z3.If(acond, z3.BoolVal(astr_t == s), z3.BoolVal(astr_e == s))

        vcs = {}
        # VC 1: dataset names are pairwise different
        vcs["names_injective"] = z3.And(axioms + [0 <= i, i < j, j < N, name_i == name_j])
        # group content after the loop (map-building lemma, valid under VC 1)
        group_ax = z3.ForAll([i], z3.Implies(z3.And(0 <= i, i < N), G(name_i) == data_i))
        # reader
        br = parts["branch"]
        comp = None
        restored = None
        env = {"value": ("group",), "__attr_is": attr_is}
        for st in br.body:
            if isinstance(st, ast.Assign) and isinstance(st.value, ast.ListComp) and isinstance(st.targets[0], ast.Name):
                lc = st.value
                g = lc.generators[0]
                if len(lc.generators) != 1 or g.ifs or not (isinstance(g.iter, ast.Call) and getattr(g.iter.func, "id", None) == "range" and len(g.iter.args) == 1
                                                               and ast.unparse(g.iter.args[0]) == "len(value)") or not isinstance(g.target, ast.Name):
                    raise OutsideSubset(f"reader builds the list by `{ast.unparse(lc)}`: not an index loop over range(len(value)) "
                                        "(iterating a Group visits the names in lexicographic order)")
                k = z3.Int("k")
                comp = (st.targets[0].id, k, tr(lc.elt, {**env, g.target.id: k}))
            elif isinstance(st, ast.If) and comp is not None:
                c = tr(st.test, env)
                c = attr_is(c[1]) if isinstance(c, tuple) and c[0] == "attr-is" else c

                def branch_val(body):
                    if len(body) != 1 or not isinstance(body[0], ast.Assign):
                        raise OutsideSubset("restoration branch is not a single assignment")
                    v = body[0].value
                    if isinstance(v, ast.Name) and v.id == comp[0]:
                        return comp[2]
                    if isinstance(v, ast.ListComp) and len(v.generators) == 1 and isinstance(v.generators[0].iter, ast.Name) and v.generators[0].iter.id == comp[0] \
                            and not v.generators[0].ifs and isinstance(v.generators[0].target, ast.Name):
                        return tr(v.elt, {**env, v.generators[0].target.id: comp[2]})
                    raise OutsideSubset(f"restoration `{ast.unparse(v)}`")

                restored = z3.If(c, branch_val(st.body), branch_val(st.orelse))
        if comp is None or restored is None:
            raise OutsideSubset("reader branch does not have the shape  arrays = [...]; if attrs['list'] == ...: ... else: ...")
        k = comp[1]
        pre = z3.ForAll([a], z3.Implies(active, lst(a) == tup1(first(lst(a)))))  # '_active' entries are 1-tuples (np.nonzero of a 1-D mask)
        vcs["roundtrip_elementwise"] = z3.And(axioms + [group_ax, pre, 0 <= k, k < N, restored != lst(k)])
        # ground instances of the quantified premises (only used to look for a candidate counter-model when z3 answers `unknown`;
        # a candidate counts only if the native replay reproduces it)
        inst = [z3.substitute(z3.Implies(z3.And(0 <= i, i < N), G(name_i) == data_i), (i, t)) for t in (k - 1, k, k + 1)]
        inst += [z3.Implies(active, lst(t) == tup1(first(lst(t)))) for t in (k - 1, k, k + 1)]
        inst += [z3.Implies(z3.And(t1 >= 0, t2 >= 0, str_(t1) == str_(t2)), t1 == t2) for t1 in (k - 1, k, k + 1) for t2 in (k - 1, k, k + 1)]
        inst += [first(tup1(first(lst(t)))) == first(lst(t)) for t in (k - 1, k, k + 1)]
        self.ground = {"roundtrip_elementwise": z3.And(inst + [0 <= k, k < N, restored != lst(k)])}
        return vcs

    def __call__(self, ob, tier, seed):
        import z3

        try:
            vcs = self.vc()
        except OutsideSubset as e:
            ok, info = self.replay({})
            if ok:
                return Result(REFUTED, backend="native", witness=dict(Nk=12), replayed=True, replay_info=info,
                              detail=f"HDF5 round trip of per-k-point lists differs natively ({e})")
            return Result(UNDECIDED, backend="engine-Z", detail=f"outside subset: {e}")
        t0 = time.time()
        for name, f in vcs.items():
            s = z3.Solver()
            s.set("timeout", 8000)
            s.add(f)
            r = s.check()
            if r == z3.sat:
                ok, info = self.replay({})
                return Result(REFUTED if ok else UNDECIDED, backend="z3", witness=dict(vc=name, model=str(s.model())[:800]), replayed=ok, replay_info=info,
                              solver_output=str(s.model())[:1500], detail=f"{ob.name}: VC {name} has a counter-model")
            if r != z3.unsat:
                g = getattr(self, "ground", {}).get(name)
                if g is not None:
                    s2 = z3.Solver()
                    s2.set("timeout", 20000)
                    s2.add(g)
                    if s2.check() == z3.sat:
                        ok, info = self.replay({})
                        if ok:
                            return Result(REFUTED, backend="z3", witness=dict(vc=name, candidate_model=str(s2.model())[:800]), replayed=True, replay_info=info,
                                          solver_output=str(s2.model())[:1500], detail=f"{ob.name}: VC {name} has a candidate counter-model (ground instances) that the native round trip reproduces")
                return Result(UNDECIDED, backend="z3", detail=f"VC {name}: {r}")
        return Result(DISCHARGED, backend="z3", stats=dict(vcs=len(vcs), solver_time=round(time.time() - t0, 3)))

    def replay(self, wit):
        """Atoms with 12 k-points of different basis sizes, written and read back."""
        import tempfile

        try:
            import h5py  # noqa: F401
        except ImportError:
            return None, dict(note="h5py is not importable")
        import eminus
        from eminus import Atoms
        from eminus.io import read, write

        eminus.config.backend = "numpy"
        eminus.config.verbose = "critical"
        at = Atoms("Si", [[0.0, 0.0, 0.0]], ecut=5, a=[[0.0, 5.13, 5.13], [5.13, 0.0, 5.13], [5.13, 5.13, 0.0]])
        at.kpts.kmesh = [3, 2, 2]
        at.build()
        with tempfile.TemporaryDirectory() as d:
            fn = os.path.join(d, "atoms.hdf5")
            try:
                write(at, fn)
                at2 = read(fn)
            except Exception as e:  # noqa: BLE001
                return True, dict(raised=f"{type(e).__name__}: {e}")
        bad = []
        for ik in range(at.kpts.Nk):
            if not np.array_equal(np.asarray(at._active[ik][0]), np.asarray(at2._active[ik][0])):
                bad.append(f"_active[{ik}]")
            if not np.array_equal(np.asarray(at._Gk2c[ik]), np.asarray(at2._Gk2c[ik])):
                bad.append(f"_Gk2c[{ik}]")
        return bool(bad), dict(Nk=int(at.kpts.Nk), basis_sizes=[int(len(g)) for g in at._Gk2c], differing=bad[:8])


register(Obligation(name="C17.hdf5.per_k_lists_roundtrip_any_length", prop=PROP, engine="Z", functions=["eminus.extras.hdf5:write_hdf5", "eminus.extras.hdf5:read_hdf5"],
                    run=Hdf5RaggedList(), assumes=("h5py-group-map", "str-injective"),
                    doc="HDF5: a list of N arrays of different shapes (per-k-point data, '_active' tuples) is restored element by element in the stored order, for every N"))


# =================================================================================================
# bounded native cases the symbolic-text obligations do not instantiate: CUBE with FODs, trailing lines in foreign files
# =================================================================================================


class NativeExtraCases:
    """BOUNDED: (a) CUBE written with FODs of both spin channels and read back: atoms, FOD pseudo-atoms with their symbols, cell, sampling and field to the
    printed precision (triclinic cell, anisotropic sampling); (b) foreign XYZ / POSCAR files with trailing blank lines (and a velocities block in the
    POSCAR case): the documented number of atoms is read, the rest is ignored."""

    def problems(self):
        import tempfile

        import eminus
        from eminus import Atoms
        from eminus.io import read, write

        eminus.config.backend = "numpy"
        eminus.config.verbose = "critical"
        bad = []
        with tempfile.TemporaryDirectory() as d:
            a = np.array([[8.0, 0.0, 0.0], [2.0, 10.0, 0.0], [1.0, 3.0, 12.0]])
            at = Atoms(["O", "H", "H"], [[1.0, 1.1, 0.9], [2.5, 1.0, 1.4], [1.0, 2.6, 2.2]], ecut=1, a=a, unrestricted=True)
            at.s = [6, 8, 10]
            at.build()
            field = np.linspace(-1.0, 2.0, at.Ns)
            fods = [np.array([[1.2, 1.0, 1.0], [2.0, 1.0, 1.3]]), np.array([[1.0, 2.0, 2.0]])]
            fn = os.path.join(d, "w.cube")
            try:
                write(at, fn, field, fods=fods)
                atom, pos, Z, a2, s2, f2 = read(fn)
                want_atoms = ["O", "H", "H", "X", "X", "He"]
                want_pos = np.vstack([np.asarray(at.pos), fods[0], fods[1]])
                if list(atom) != want_atoms:
                    bad.append(dict(case="cube with FODs", species_read=list(atom), expected=want_atoms))
                elif np.abs(np.asarray(pos) - want_pos).max() > 2e-6:
                    bad.append(dict(case="cube with FODs", position_error=float(np.abs(np.asarray(pos) - want_pos).max())))
                if np.abs(np.asarray(a2) - a).max() > 2e-5 or list(np.asarray(s2)) != [6, 8, 10]:
                    bad.append(dict(case="cube with FODs", cell_read=np.asarray(a2).tolist(), sampling_read=np.asarray(s2).tolist()))
                if np.shape(f2) != (at.Ns,) or np.abs(np.asarray(f2) - field).max() > 1e-6:
                    bad.append(dict(case="cube with FODs", field="differs"))
            except Exception as e:  # noqa: BLE001
                bad.append(dict(case="cube with FODs", raised=f"{type(e).__name__}: {e}"))
            # TRAJ / XYZ with user-chosen FOD labels: a list of frames, a single frame and the XYZ writer all use the labels they were given
            from eminus.io import read_traj, read_xyz, write_traj, write_xyz

            he = Atoms(["He", "H"], [[1.0, 1.1, 0.9], [2.5, 1.0, 1.4]], ecut=1, a=8, unrestricted=True)
            labels = ("Xx", "Yy")
            for what in ("list of two frames", "single frame", "xyz"):
                fn = os.path.join(d, "l.traj" if what != "xyz" else "l.xyz")
                if os.path.exists(fn):
                    os.remove(fn)
                try:
                    if what == "list of two frames":
                        write_traj([he, he], fn, fods=fods, elec_symbols=labels)
                        frames = read_traj(fn)
                    elif what == "single frame":
                        write_traj(he, fn, fods=fods, elec_symbols=labels)
                        frames = read_traj(fn)
                    else:
                        write_xyz(he, fn, fods=fods, elec_symbols=labels)
                        frames = [read_xyz(fn)]
                    want = ["He", "H", "Xx", "Xx", "Yy"]
                    for i, (atom, pos) in enumerate(frames):
                        if list(atom) != want:
                            bad.append(dict(case=f"FOD labels {labels}, {what}", frame=i, species_read=list(atom), expected=want))
                            break
                except Exception as e:  # noqa: BLE001
                    bad.append(dict(case=f"FOD labels {labels}, {what}", raised=f"{type(e).__name__}: {e}"))
            # foreign XYZ with a comment line and trailing blank lines
            fx = os.path.join(d, "f.xyz")
            open(fx, "w").write("3\nwater, trailing blank lines\nO   0.000000  0.000000  0.117300\nH   0.000000  0.757200 -0.469200\nH   0.000000 -0.757200 -0.469200\n\n\n")
            try:
                atom, pos = read(fx)
                if list(atom) != ["O", "H", "H"] or np.shape(pos) != (3, 3) or abs(float(np.asarray(pos)[1, 1]) - 0.7572 / 0.529177210903) > 1e-5:
                    bad.append(dict(case="xyz with trailing blank lines", atoms=list(atom), pos=np.asarray(pos).tolist()))
            except Exception as e:  # noqa: BLE001
                bad.append(dict(case="xyz with trailing blank lines", raised=f"{type(e).__name__}: {e}"))
            # foreign XYZ / TRAJ files whose comment line is empty or blank (the format definition allows it), mixed species, three frames
            ang = 0.529177210903
            frames_txt = [("3", "", [("O", 0.0, 0.0, 0.1173), ("H", 0.0, 0.7572, -0.4692), ("H", 0.0, -0.7572, -0.4692)]),
                          ("3", "   ", [("O", 0.1, 0.0, 0.1173), ("H", 0.1, 0.7572, -0.4692), ("H", 0.1, -0.7572, -0.4692)]),
                          ("3", "frame 3", [("O", 0.2, 0.0, 0.1173), ("H", 0.2, 0.7572, -0.4692), ("H", 0.2, -0.7572, -0.4692)])]

            def text(frs):
                return "".join(f"{n}\n{c}\n" + "".join(f"{a} {x:.6f} {y:.6f} {z:.6f}\n" for a, x, y, z in rows) for n, c, rows in frs)

            for label, frs in (("three frames, empty / blank / titled comment lines", frames_txt), ("one frame, empty comment line", frames_txt[:1]), ("two frames, blank comment first", frames_txt[1:])):
                ft = os.path.join(d, "foreign.traj")
                open(ft, "w").write(text(frs))
                try:
                    got = read_traj(ft)
                    ok = len(got) == len(frs) and all(list(g[0]) == [r[0] for r in fr[2]] and np.abs(np.asarray(g[1]) - np.array([r[1:] for r in fr[2]]) / ang).max() < 1e-5 for g, fr in zip(got, frs))
                    if not ok:
                        bad.append(dict(case=f"foreign TRAJ: {label}", frames_read=len(got), frames_in_file=len(frs), species_read=[list(g[0]) for g in got]))
                except Exception as e:  # noqa: BLE001
                    bad.append(dict(case=f"foreign TRAJ: {label}", raised=f"{type(e).__name__}: {e}"))
            for label, fr in (("empty comment line", frames_txt[0]), ("blank comment line", frames_txt[1])):
                fx2 = os.path.join(d, "foreign2.xyz")
                open(fx2, "w").write(text([fr]))
                try:
                    atom, pos = read_xyz(fx2)
                    if list(atom) != [r[0] for r in fr[2]] or np.abs(np.asarray(pos) - np.array([r[1:] for r in fr[2]]) / ang).max() > 1e-5:
                        bad.append(dict(case=f"foreign XYZ: {label}", species_read=list(atom), pos=np.asarray(pos).tolist()))
                except Exception as e:  # noqa: BLE001
                    bad.append(dict(case=f"foreign XYZ: {label}", raised=f"{type(e).__name__}: {e}"))
            # foreign POSCAR: scaling factor, Direct coordinates, then a blank line and a velocities block
            fp = os.path.join(d, "f.POSCAR")
            open(fp, "w").write("hexagonal test\n2.0\n 2.0 0.0 0.0\n -1.0 1.7320508 0.0\n 0.0 0.0 3.0\nB N\n1 1\nDirect\n 0.333333 0.666667 0.25\n 0.666667 0.333333 0.75\n\n 0.0 0.0 0.0\n 0.0 0.0 0.0\n")
            try:
                atom, pos, a3 = read(fp)
                lat = 2.0 * np.array([[2.0, 0.0, 0.0], [-1.0, 1.7320508, 0.0], [0.0, 0.0, 3.0]]) / 0.529177210903
                want = np.array([[0.333333, 0.666667, 0.25], [0.666667, 0.333333, 0.75]]) @ lat
                if list(atom) != ["B", "N"] or np.shape(pos) != (2, 3) or np.abs(np.asarray(pos) - want).max() > 1e-5 or np.abs(np.asarray(a3) - lat).max() > 1e-5:
                    bad.append(dict(case="POSCAR with velocities block", atoms=list(atom), pos=np.asarray(pos).tolist(), expected=want.tolist()))
            except Exception as e:  # noqa: BLE001
                bad.append(dict(case="POSCAR with velocities block", raised=f"{type(e).__name__}: {e}"))
        return bad

    def __call__(self, ob, tier, seed):
        from pycv.framework import BOUNDED_OK

        bad = self.problems()
        if bad:
            return Result(REFUTED, backend="native", witness=bad[0], replayed=True, replay_info=dict(failing=bad[:4]), detail=f"file round trip / foreign file: {bad[0]}")
        return Result(BOUNDED_OK, backend="native", detail="bounded: CUBE with FODs of both spin channels (triclinic, anisotropic sampling); XYZ and POSCAR (scaled, Direct) with trailing lines")

    def replay(self, wit):
        bad = self.problems()
        return bool(bad), dict(failing=bad[:4])


register(Obligation(name="C17.native.cube_with_fods_and_trailing_lines", prop=PROP, engine="B", bounded=True, run=NativeExtraCases(),
                    functions=["eminus.io.cube:write_cube", "eminus.io.cube:read_cube", "eminus.io.xyz:read_xyz", "eminus.io.poscar:read_poscar"],
                    doc="BOUNDED: CUBE with FODs; foreign XYZ / POSCAR files with trailing blank lines and a velocities block"))
