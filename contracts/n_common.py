"""Engine-N harness: symbolic Atoms / SCF stubs (the state contract established by Atoms._sample_unit_cell) and
loading of the real operator code."""

from __future__ import annotations

from fractions import Fraction

from pycv.algebra import core as A
from pycv.loader import Loader
from pycv.opalg import arrays as R
from pycv.opalg import nc
from pycv.opalg.arrays import DIM, Backend, ColMask, Idx, NArr, NStack, dim_active
from pycv.opalg.nc import NC


class MathShim:
    @property
    def pi(self):
        return A.ctx().pi()

    @staticmethod
    def sqrt(x):
        return A.sqrt(A.lift(x))


def make_loader(stubs=None):
    return Loader(Backend(), MathShim(), lambda t: A.lift(Fraction(t)), stubs=stubs, native_extra=("eminus",))


def vec_atom(name, n, real=True):
    a = nc.ctx().atom(name, n, 1, real=real)
    return NArr(NC.of(a), (n,), real=real)


def mat_atom(name, rows, cols):
    a = nc.ctx().atom(name, rows, cols)
    return NArr(NC.of(a), (rows, cols))


class Occ:
    pass


class Kpts:
    def _assert_gamma_only(self):
        return None


def make_atoms(loader, Nk=1, Nspin=1):
    """Symbolic Atoms: what build() establishes, as symbols. Index Nk (== -1) is the k-independent G sphere."""
    ops = loader.load("eminus.operators")
    ns = dict(O=ops.O, L=ops.L, Linv=ops.Linv, K=ops.K, T=ops.T, I=ops.I, J=ops.J, Idag=ops.Idag, Jdag=ops.Jdag)
    cls = type("AtomsStub", (), ns)
    at = cls()
    at.Omega = A.ctx().var("Omega", positive=True)
    at.Ns = DIM["Ns"]
    at._Ns = DIM["Ns"]
    at.s = [DIM["s0"], DIM["s1"], DIM["s2"]]
    at._active = [Idx(ik) for ik in range(Nk + 1)]
    at.active = at._active
    R.SINGULAR0.add("G2")
    G2 = vec_atom("G2", DIM["Ns"])
    at._G2 = at.G2 = G2
    at._Gk2 = [vec_atom(f"Gk2_{ik}", DIM["Ns"]) for ik in range(Nk)] + [G2]
    at.Gk2 = at._Gk2
    at._Gk2c = [vec_atom(f"Gk2c_{ik}", dim_active(ik)) for ik in range(Nk + 1)]
    at.Gk2c = at._Gk2c
    at.G2c = at._Gk2c[-1]
    occ = Occ()
    occ.Nspin = Nspin
    occ.Nstate = DIM["Nstate"]
    at.occ = occ
    k = Kpts()
    k.Nk = Nk
    k.wk = [A.ctx().var(f"wk{ik}", positive=True) for ik in range(Nk)]
    at.kpts = k
    at._atoms = at
    at.dV = at.Omega / A.ctx().var("Ngrid", positive=True)
    return at


def W_stack(tag, ik, Nspin, cols=DIM["Nstate"], active=True):
    n = dim_active(ik) if active else DIM["Ns"]
    return NStack([mat_atom(f"{tag}{ik}s{s}", n, cols) for s in range(Nspin)])


def inner(a, b):
    """a^H b for NArr matrices."""
    return a.conj().T @ b


def same(x, y):
    """Exact equality of two engine-N values (arrays, stacks, lists)."""
    if isinstance(x, list):
        return isinstance(y, list) and len(x) == len(y) and all(same(a, b) for a, b in zip(x, y))
    if isinstance(x, NStack):
        return isinstance(y, NStack) and len(x.parts) == len(y.parts) and all(same(a, b) for a, b in zip(x.parts, y.parts))
    if x.shape != y.shape or x.grid or y.grid or x.pending or y.pending:
        return False
    return nc.is_zero(x.val - y.val)


def scaled(x, c):
    if isinstance(x, list):
        return [scaled(a, c) for a in x]
    if isinstance(x, NStack):
        return NStack([scaled(a, c) for a in x.parts])
    return x * c


# -------------------------------------------------------------------------------------------------
# trace (cyclic) equality
# -------------------------------------------------------------------------------------------------


def _word_key(w):
    return (len(w), tuple(a.uid for a in w))


def trace_normal(p):
    """Canonical representative of trace(p) under cyclic rotations + the rewrite rules."""
    cur = nc.normalise(p)
    for _ in range(6):
        out = NC({}, cur.rows, cur.cols)
        changed = False
        for w, c in cur.t.items():
            best = None
            for r in range(max(1, len(w))):
                rot = w[r:] + w[:r]
                q = nc.normalise(NC({rot: c}, rot[0].rows if rot else cur.rows, rot[-1].cols if rot else cur.cols))
                key = (sum(len(x) for x in q.t), sorted(_word_key(x) for x in q.t))
                if best is None or key < best[0]:
                    best = (key, q)
            q = best[1]
            if list(q.t.keys()) != [w]:
                changed = True
            q.rows = q.cols = cur.rows
            out = out + q
        cur = out
        if not changed:
            break
    return cur


def trace_zero(p):
    q = trace_normal(p)
    q = NC({w: c for w, c in q.t.items() if not A.is_zero(c, budget=10)}, q.rows, q.cols)
    if not q.t:
        return True
    # unfold definitions and retry
    C = nc.ctx()
    present = [a for w in q.t for a in w if a in C.defs or (a.adj is not None and a.adj in C.defs)]
    if present:
        a = max(present, key=lambda x: x.uid)
        a = a if a in C.defs else a.adj
        return trace_zero(nc.unfold(q, a))
    return False


# -------------------------------------------------------------------------------------------------
# SCF / GTH stubs
# -------------------------------------------------------------------------------------------------


class GthStub:
    """scf.gth: one species with s (2 projectors) and p (2 projectors) channels -> 2 + 3*2 = 8 projector functions.
    h[l,i,j] are real symbols with h_ij = h_ji (post-condition of read_gth, C12.read_gth.h_symmetric)."""

    def __init__(self, at, symmetric=True):
        import numpy as np

        C = A.ctx()
        self.NbetaNL = 8
        lmax = 2
        nproj = [2, 2, 0, 0]
        h = np.empty((4, 3, 3), dtype=object)
        h.fill(A.ZERO)
        for l in range(lmax):
            for i in range(nproj[l]):
                for j in range(nproj[l]):
                    if symmetric:
                        h[l, i, j] = C.var(f"h{l}_{min(i, j)}{max(i, j)}")
                    else:
                        h[l, i, j] = C.var(f"h{l}_{i}{j}")
        self.psp = dict(lmax=lmax, Nproj_l=nproj, h=h)
        # the index table exactly as init_gth_nonloc fills it (contract C06.prj2beta.bijection)
        p2b = -np.ones((3, 1, 4, 7), dtype=int)
        nb = 0
        for l in range(lmax):
            for m in range(-l, l + 1):
                for iprj in range(nproj[l]):
                    nb += 1
                    p2b[iprj, 0, l, m + lmax - 1] = nb
        self.prj2beta = p2b
        es = R.declare_units(self.NbetaNL, self.NbetaNL)
        self.betaNL = []
        for ik in range(at.kpts.Nk):
            val = NC({}, dim_active(ik), self.NbetaNL)
            for j in range(self.NbetaNL):
                b = nc.ctx().atom(f"beta{ik}_{j}", dim_active(ik), 1)
                val = val + NC({(b, es[j].dagger()): A.ONE}, dim_active(ik), self.NbetaNL)
            self.betaNL.append(NArr(val, (dim_active(ik), self.NbetaNL)))

    def __getitem__(self, key):
        return self.psp


class Scf:
    pass


class FVec:
    """Fillings of one (k, spin) channel as far as control flow may look at them: constant or not, occupied or not."""

    def __init__(self, constant):
        self.constant = constant

    def __getitem__(self, i):
        return ("filling", i)

    def __ne__(self, o):
        return FMaskNe(self.constant)

    def __eq__(self, o):
        return FMaskNe(not self.constant)

    __hash__ = None

    def __gt__(self, o):
        if o != 0:
            raise A.OutsideSubset("occupied states are selected with f > 0")
        from pycv.opalg.arrays import ColMask

        return ColMask("occ")


class FMaskNe:
    def __init__(self, all_false):
        self.all_false = all_false

    def any(self):
        return not self.all_false

    def all(self):
        raise A.OutsideSubset("all() of a fillings comparison")


def make_scf(loader, Nk=1, Nspin=1, symmetric_h=True, pot="gth", phi_generic=False):
    at = make_atoms(loader, Nk=Nk, Nspin=Nspin)
    at.Natoms = 1
    at.atom = ["X"]
    scf = Scf()
    scf.atoms = at
    scf.kpts = at.kpts
    scf.xc_type = "lda"
    scf.pot = pot
    scf.Vloc = vec_atom("Vloc", DIM["Ns"], real=True)
    scf.gth = GthStub(at, symmetric=symmetric_h)
    f = [[A.ctx().var(f"f{ik}{s}", positive=True) for s in range(Nspin)] for ik in range(Nk)]
    at.occ.F = [[NArr(NC.ident(DIM["Nstate"], f[ik][s]), (DIM["Nstate"], DIM["Nstate"])) for s in range(Nspin)] for ik in range(Nk)]
    at.occ.fsym = f
    at.occ.f = [[FVec(True) for s in range(Nspin)] for ik in range(Nk)]
    vxc = [vec_atom(f"vxc{s}", DIM["Ns"], real=True) for s in range(Nspin)]
    if phi_generic:
        # the Hartree field as an ARBITRARY complex reciprocal-space vector: on even samplings of non-orthogonal cells its
        # real-space image is not real (|G|^2 is not inversion symmetric on the Nyquist planes); H would have to take the real part
        phi = vec_atom("phi_G", DIM["Ns"], real=False)
    else:
        # pre-condition of the plain contracts: the real-space image of the Hartree field is real
        phi = at.J(vec_atom("phi_r", DIM["Ns"], real=True))
    pots = dict(dn_spin=None, phi=phi, vxc=vxc, vsigma=None, vtau=None)
    return scf, at, pots
