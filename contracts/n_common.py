"""Engine-N harness: symbolic Atoms / SCF stubs (the state contract established by Atoms._sample_unit_cell) and
loading of the real operator code."""

from __future__ import annotations

from fractions import Fraction

from pycv.algebra import core as A
from pycv.loader import Loader
from pycv.opalg import arrays as R
from pycv.opalg import nc
from pycv.opalg.arrays import DIM, Backend, ColMask, Idx, NArr, NStack, dim_active
from pycv.opalg.nc import NC


class MathShim:
    @property
    def pi(self):
        return A.ctx().pi()

    @staticmethod
    def sqrt(x):
        return A.sqrt(A.lift(x))


def make_loader(stubs=None):
    return Loader(Backend(), MathShim(), lambda t: A.lift(Fraction(t)), stubs=stubs, native_extra=("eminus",))


def vec_atom(name, n, real=True):
    a = nc.ctx().atom(name, n, 1, real=real)
    return NArr(NC.of(a), (n,), real=real)


def mat_atom(name, rows, cols):
    a = nc.ctx().atom(name, rows, cols)
    return NArr(NC.of(a), (rows, cols))


class Occ:
    pass


class Kpts:
    def _assert_gamma_only(self):
        return None


def make_atoms(loader, Nk=1, Nspin=1):
    """Symbolic Atoms: what build() establishes, as symbols. Index Nk (== -1) is the k-independent G sphere."""
    ops = loader.load("eminus.operators")
    ns = dict(O=ops.O, L=ops.L, Linv=ops.Linv, K=ops.K, T=ops.T, I=ops.I, J=ops.J, Idag=ops.Idag, Jdag=ops.Jdag)
    cls = type("AtomsStub", (), ns)
    at = cls()
    at.Omega = A.ctx().var("Omega", positive=True)
    at.Ns = DIM["Ns"]
    at._Ns = DIM["Ns"]
    at.s = [DIM["s0"], DIM["s1"], DIM["s2"]]
    at._active = [Idx(ik) for ik in range(Nk + 1)]
    at.active = at._active
    R.SINGULAR0.add("G2")
    G2 = vec_atom("G2", DIM["Ns"])
    at._G2 = at.G2 = G2
    at._Gk2 = [vec_atom(f"Gk2_{ik}", DIM["Ns"]) for ik in range(Nk)] + [G2]
    at.Gk2 = at._Gk2
    at._Gk2c = [vec_atom(f"Gk2c_{ik}", dim_active(ik)) for ik in range(Nk + 1)]
    at.Gk2c = at._Gk2c
    at.G2c = at._Gk2c[-1]
    occ = Occ()
    occ.Nspin = Nspin
    occ.Nstate = DIM["Nstate"]
    at.occ = occ
    k = Kpts()
    k.Nk = Nk
    k.wk = [A.ctx().var(f"wk{ik}", positive=True) for ik in range(Nk)]
    at.kpts = k
    at._atoms = at
    at.dV = at.Omega / A.ctx().var("Ngrid", positive=True)
    return at


def W_stack(tag, ik, Nspin, cols=DIM["Nstate"], active=True):
    n = dim_active(ik) if active else DIM["Ns"]
    return NStack([mat_atom(f"{tag}{ik}s{s}", n, cols) for s in range(Nspin)])


def inner(a, b):
    """a^H b for NArr matrices."""
    return a.conj().T @ b


def same(x, y):
    """Exact equality of two engine-N values (arrays, stacks, lists)."""
    if isinstance(x, list):
        return isinstance(y, list) and len(x) == len(y) and all(same(a, b) for a, b in zip(x, y))
    if isinstance(x, NStack):
        return isinstance(y, NStack) and len(x.parts) == len(y.parts) and all(same(a, b) for a, b in zip(x.parts, y.parts))
    if x.shape != y.shape or x.grid or y.grid or x.pending or y.pending:
        return False
    return nc.is_zero(x.val - y.val)


def scaled(x, c):
    if isinstance(x, list):
        return [scaled(a, c) for a in x]
    if isinstance(x, NStack):
        return NStack([scaled(a, c) for a in x.parts])
    return x * c
