"""Engine-N obligations for C04 (orthonormalisation), C05 (Hermitian Hamiltonian, spectrum), C01 (gradient structure) and
C11 (Hartree field). The real eminus.dft / eminus.gth / eminus.energies functions are traced on symbolic matrices."""

from __future__ import annotations

import numpy as np

from contracts import n_common as H
from contracts.c03 import NOb, native_atoms, rnd
from contracts.n_common import DIM, NArr, NC, NStack, dim_active, inner, mat_atom, same, scaled, vec_atom
from pycv.algebra import core as A
from pycv.framework import Obligation, register
from pycv.opalg import arrays as R
from pycv.opalg import nc

NST = DIM["Nstate"]


def ident(n=NST, c=None):
    return NArr(NC.ident(n, c), (n, n))


def zero(r, c):
    return NArr(NC.zero(r, c), (r, c))


# =================================================================================================
# C04
# =================================================================================================


def sym_orth():
    ld = H.make_loader()
    at = H.make_atoms(ld, Nk=2, Nspin=2)
    orth = ld.get("eminus.dft", "orth")
    W = [H.W_stack("W", ik, 2) for ik in range(2)]
    Y = orth(at, W)
    for ik in range(2):
        for s in range(2):
            y = Y[ik].parts[s]
            if not same(inner(y, at.O(y)), ident()):
                return False, f"Y^H O Y != 1 (ik={ik}, spin={s})"
            if not same(orth(at, y), y):
                return False, "orth is not idempotent"
            # span: Y = W M with M = inv(sqrtm(W^H O W)) invertible: W = Y sqrtm(U)
            w = W[ik].parts[s]
            U = inner(w, at.O(w))
            back = y @ NArr(nc.sqrtm(U.val), (NST, NST))
            if not same(back, w):
                return False, "orth(W) sqrtm(W^H O W) != W (span not preserved)"
    return True, ""


def nat_orth_left_handed(rng):
    """orth / orth_unocc and the density integral in a cell whose lattice matrix has a negative determinant (the same physical lattice)."""
    import eminus
    from eminus import Atoms
    from eminus.dft import get_n_total, orth, orth_unocc

    eminus.config.backend = "numpy"
    eminus.config.verbose = "critical"
    a0 = np.array([[4.0, 0.3, 0.1], [0.2, 4.5, 0.4], [0.5, 0.1, 5.0]])
    e = 0.0
    for a in (a0[[1, 0, 2]], a0 * np.array([[1], [1], [-1]])):
        at = Atoms("Li", [[0.1, 0.2, 0.3]], ecut=3, a=a, unrestricted=True)
        at.s = [6, 5, 4]
        at.set_k([[0.0, 0.0, 0.0], [0.2, 0.1, 0.05]], [0.3, 0.7])
        W = [rnd(rng, 2, len(at.Gk2c[ik]), at.occ.Nstate) for ik in range(2)]
        Z = [rnd(rng, 2, len(at.Gk2c[ik]), 2) for ik in range(2)]
        Y = orth(at, W)
        D = orth_unocc(at, Y, Z)
        f = np.asarray(at.occ.f)
        for ik in range(2):
            for s in range(2):
                y, d = np.asarray(Y[ik][s]), np.asarray(D[ik][s])
                occ = f[ik, s] > 0
                e = max(e, np.abs(y.conj().T @ np.asarray(at.O(y)) - np.eye(y.shape[1])).max(), np.abs(np.asarray(orth(at, y)) - y).max(),
                        np.abs(d.conj().T @ np.asarray(at.O(d)) - np.eye(2)).max(), np.abs(d.conj().T @ np.asarray(at.O(y[:, occ]))).max() if occ.any() else 0.0)
        n = np.asarray(get_n_total(at, Y))
        nel = float(np.sum(f * np.asarray(at.kpts.wk)[:, None, None]))
        e = max(e, abs(float(n.sum() * at.dV) - nel), float(max(0.0, -n.min())))
    return e


def nat_orth(rng):
    from eminus.dft import orth

    at = native_atoms(Nspin=2)
    W = [rnd(rng, 2, len(at.Gk2c[ik]), 3) for ik in range(at.kpts.Nk)]
    Y = orth(at, W)
    e = nat_orth_left_handed(rng)
    for ik in range(at.kpts.Nk):
        for s in range(2):
            y = Y[ik][s]
            e = max(e, np.abs(y.conj().T @ at.O(y) - np.eye(3)).max(), np.abs(orth(at, y) - y).max())
    # a badly conditioned but full-rank set (singular values spanning 3e5): the symmetric orthonormalisation still reaches ~ cond^2 * eps,
    # compared on the scale 1e-3 (reported as error / 1e5 so that the common 1e-8 threshold applies)
    u, _, vh = np.linalg.svd(rnd(rng, len(at.Gk2c[0]), 3), full_matrices=False)
    Wbad = [np.stack([(u * np.array([1.0, 3e-3, 3e-6])) @ vh] * 2)] + [rnd(rng, 2, len(at.Gk2c[ik]), 3) for ik in range(1, at.kpts.Nk)]
    yb = orth(at, Wbad)[0][0]
    e = max(e, np.abs(yb.conj().T @ at.O(yb) - np.eye(3)).max() / 1e5)
    # the orthonormalised orbitals do not depend on the overall scale of W (positive homogeneity of degree 0): sets of tiny and of large norm
    for scale in (1e-3, 1e-6, 1e-9, 1e4):
        Ys = orth(at, [scale * w for w in W])
        for ik in range(at.kpts.Nk):
            e = max(e, np.abs(np.asarray(Ys[ik]) - np.asarray(Y[ik])).max())
            y = np.asarray(Ys[ik][0])
            e = max(e, np.abs(y.conj().T @ at.O(y) - np.eye(3)).max())
    return e


def sym_orth_unocc():
    ld = H.make_loader()
    at = H.make_atoms(ld, Nk=2, Nspin=2)
    dft = ld.load("eminus.dft")
    NU = DIM["Nunocc"]
    Y = [H.W_stack("Y", ik, 2) for ik in range(2)]
    Z = [H.W_stack("Z", ik, 2, cols=NU) for ik in range(2)]
    # precondition: Y orthonormal (post-condition of orth): Y^H Y = 1/Omega
    for ik in range(2):
        for s in range(2):
            y = list(Y[ik].parts[s].val.t)[0][0]
            nc.ctx().rule((y.dagger(), y), NC({(): A.ONE / at.Omega}, NST, NST))

    class FMask:
        def __gt__(self, o):
            if o != 0:
                raise A.OutsideSubset("occupied states are selected with f > 0")
            return R.ColMask("occ")

    at.occ.f = [[FMask() for _ in range(2)] for _ in range(2)]
    D = dft.orth_unocc(at, Y, Z)
    for ik in range(2):
        for s in range(2):
            d = D[ik].parts[s]
            if not same(inner(d, at.O(d)), ident(NU)):
                return False, f"D^H O D != 1 (ik={ik}, spin={s})"
            yocc = Y[ik].parts[s][:, R.ColMask("occ")]
            if not same(inner(d, at.O(yocc)), zero(NU, DIM["Nocc"])):
                return False, "D^H O Y_occ != 0: unoccupied orbitals are not orthogonal to the occupied ones"
    return True, ""


def nat_orth_unocc(rng):
    from eminus.dft import orth, orth_unocc

    at = native_atoms(Nspin=2)
    W = [rnd(rng, 2, len(at.Gk2c[ik]), at.occ.Nstate) for ik in range(at.kpts.Nk)]
    Y = orth(at, W)
    Z = [rnd(rng, 2, len(at.Gk2c[ik]), 2) for ik in range(at.kpts.Nk)]
    D = orth_unocc(at, Y, Z)
    e = 0
    for ik in range(at.kpts.Nk):
        for s in range(2):
            d = D[ik][s]
            yo = Y[ik][s][:, at.occ.f[ik][s] > 0]
            e = max(e, np.abs(d.conj().T @ at.O(d) - np.eye(2)).max(), np.abs(d.conj().T @ at.O(yo)).max())
    # badly conditioned but full-rank trial sets that lie almost inside the occupied space (Z = Y C + eps R): the part outside is tiny, the result is still
    # orthonormal to round-off (measured 2e-15 on the unchanged tree down to eps = 1e-7: projecting first and orthonormalising the remainder is stable)
    for eps in (1e-3, 1e-5, 1e-6, 1e-7):
        Zn = []
        for ik in range(at.kpts.Nk):
            z = np.empty_like(Z[ik])
            for s in range(2):
                yo = np.asarray(Y[ik][s])[:, np.asarray(at.occ.f[ik][s]) > 0]
                z[s] = yo @ rnd(rng, yo.shape[1], 2) + eps * Z[ik][s]
            Zn.append(z)
        Dn = orth_unocc(at, Y, Zn)
        for ik in range(at.kpts.Nk):
            for s in range(2):
                d = np.asarray(Dn[ik][s])
                yo = np.asarray(Y[ik][s])[:, np.asarray(at.occ.f[ik][s]) > 0]
                e = max(e, np.abs(d.conj().T @ at.O(d) - np.eye(2)).max(), np.abs(d.conj().T @ at.O(yo)).max())
    # trial sets of tiny norm give the same orthonormal unoccupied orbitals
    Ds = orth_unocc(at, Y, [1e-6 * z for z in Z])
    for ik in range(at.kpts.Nk):
        e = max(e, np.abs(np.asarray(Ds[ik]) - np.asarray(D[ik])).max())
    # "all fillings": occupied states need not come first (the fillings array of a built object is set directly; the public
    # setter is subject to the known finding C19.Occupations.f)
    at = native_atoms(Nspin=2)
    at.occ._f = np.array([[[1.0, 0.0, 1.0], [1.0, 1.0, 0.0]], [[0.0, 1.0, 1.0], [0.0, 0.0, 1.0]]])[: at.kpts.Nk]
    W = [rnd(rng, 2, len(at.Gk2c[ik]), 3) for ik in range(at.kpts.Nk)]
    Y = orth(at, W)
    Z = [rnd(rng, 2, len(at.Gk2c[ik]), 2) for ik in range(at.kpts.Nk)]
    D = orth_unocc(at, Y, Z)
    for ik in range(at.kpts.Nk):
        for s in range(2):
            d = D[ik][s]
            yo = Y[ik][s][:, np.asarray(at.occ.f[ik][s]) > 0]
            e = max(e, np.abs(d.conj().T @ at.O(d) - np.eye(2)).max(), np.abs(d.conj().T @ at.O(yo)).max())
    return e


# =================================================================================================
# C05
# =================================================================================================


def _H_env(symmetric_h=True, phi_generic=False):
    ld = H.make_loader()
    scf, at, pots = H.make_scf(ld, Nk=2, Nspin=2, symmetric_h=symmetric_h, phi_generic=phi_generic)
    dft = ld.load("eminus.dft")
    return ld, scf, at, pots, dft


def sym_H_linear():
    ld, scf, at, pots, dft = _H_env()
    a = [H.W_stack("A", ik, 2) for ik in range(2)]
    b = [H.W_stack("B", ik, 2) for ik in range(2)]
    al = A.ctx().var("alpha")
    be = A.ctx().var("beta")
    for ik in range(2):
        for s in range(2):
            comb = [NStack([a[k].parts[t] * al + b[k].parts[t] * be for t in range(2)]) for k in range(2)]
            l = dft.H(scf, ik, s, comb, **pots)
            r = dft.H(scf, ik, s, a, **pots) * al + dft.H(scf, ik, s, b, **pots) * be
            if not same(l, r):
                return False, f"H(alpha A + beta B) != alpha H(A) + beta H(B) (ik={ik}, spin={s})"
            if dft.H(scf, ik, s, a, **pots).shape != a[ik].parts[s].shape:
                return False, "H changes the shape"
    return True, ""


def sym_H_hermitian(phi_generic=False):
    ld, scf, at, pots, dft = _H_env(phi_generic=phi_generic)
    a = [H.W_stack("A", ik, 2) for ik in range(2)]
    b = [H.W_stack("B", ik, 2) for ik in range(2)]
    for ik in range(2):
        for s in range(2):
            l = inner(a[ik].parts[s], dft.H(scf, ik, s, b, **pots))
            r = inner(dft.H(scf, ik, s, a, **pots), b[ik].parts[s])
            if not same(l, r):
                d = nc.normalise(l.val - r.val)
                return False, f"<a|H b> != <H a|b> (ik={ik}, spin={s}); difference {d!r}"
    return True, ""


def sym_H_hermitian_any_field():
    """Hermiticity for an ARBITRARY complex reciprocal-space Hartree field (no assumption that its real-space image is real)."""
    return sym_H_hermitian(phi_generic=True)


def sym_H_hermitian_needs_symmetric_h():
    """Canary: with a non-symmetric coupling matrix h the Hamiltonian must NOT be provably Hermitian."""
    ld, scf, at, pots, dft = _H_env(symmetric_h=False)
    a = [H.W_stack("A", ik, 2) for ik in range(2)]
    b = [H.W_stack("B", ik, 2) for ik in range(2)]
    l = inner(a[0].parts[0], dft.H(scf, 0, 0, b, **pots))
    r = inner(dft.H(scf, 0, 0, a, **pots), b[0].parts[0])
    return same(l, r), "canary: Hermitian with asymmetric h"


def _native_scf(Nspin=1, xc="lda,pw", s=(7, 5, 5), atom="He"):
    """Small SCF, one steepest-descent step; default: an odd sampling (callers pass even ones where the Nyquist planes matter)."""
    import eminus
    from eminus import SCF

    at = native_atoms(Nspin=Nspin, s=s, atom=atom)
    eminus.config.verbose = "critical"
    scf = SCF(at, xc=xc, opt={"sd": 1}, verbose="critical")
    scf.run()
    return scf, scf.atoms


def nat_H_hermitian(rng, s=(7, 5, 5)):
    from eminus.dft import H as Hn, H_precompute

    # Ca: s and p channels with two projectors each, one d projector (off-diagonal couplings in l = 0 and l = 1)
    scf, at = _native_scf(Nspin=2, atom="Ca", s=s)
    W = [rnd(rng, 2, len(at.Gk2c[ik]), at.occ.Nstate) for ik in range(at.kpts.Nk)]
    dn, phi, vxc, vs, vt = H_precompute(scf, scf.W)
    e = 0
    A_ = [rnd(rng, 2, len(at.Gk2c[ik]), at.occ.Nstate) for ik in range(at.kpts.Nk)]
    for ik in range(at.kpts.Nk):
        for s in range(2):
            hb = Hn(scf, ik, s, W, dn, phi, vxc, vs, vt)
            ha = Hn(scf, ik, s, A_, dn, phi, vxc, vs, vt)
            l = A_[ik][s].conj().T @ hb
            r = ha.conj().T @ W[ik][s]
            e = max(e, np.abs(l - r).max() / max(1.0, np.abs(l).max()))
    return e


def nat_H_hermitian_even(rng):
    """Coarse EVEN sampling of a triclinic cell: the density has weight on the Nyquist planes."""
    return nat_H_hermitian(rng, s=(6, 6, 4))


def nat_H_linear(rng):
    from eminus.dft import H as Hn, H_precompute

    scf, at = _native_scf(Nspin=1)
    dn, phi, vxc, vs, vt = H_precompute(scf, scf.W)
    W = [rnd(rng, 1, len(at.Gk2c[ik]), at.occ.Nstate) for ik in range(at.kpts.Nk)]
    V = [rnd(rng, 1, len(at.Gk2c[ik]), at.occ.Nstate) for ik in range(at.kpts.Nk)]
    C_ = [2.5 * w - 1.5j * v for w, v in zip(W, V)]
    e = 0
    for ik in range(at.kpts.Nk):
        l = Hn(scf, ik, 0, C_, dn, phi, vxc, vs, vt)
        r = 2.5 * Hn(scf, ik, 0, W, dn, phi, vxc, vs, vt) - 1.5j * Hn(scf, ik, 0, V, dn, phi, vxc, vs, vt)
        e = max(e, np.abs(l - r).max() / max(1.0, np.abs(l).max()))
    return e


def sym_Eband():
    """get_Eband = sum_k wk sum_spin trace(Y^H H Y) (the k-weighted sum of the subspace eigenvalues by the trace lemma)."""
    ld, scf, at, pots, dft = _H_env()
    en = ld.load("eminus.energies")
    import builtins

    Y = [H.W_stack("Y", ik, 2) for ik in range(2)]
    en.float = lambda x: x
    got = en.get_Eband(scf, Y, **pots)
    want = None
    for ik in range(2):
        for s in range(2):
            t = R.Trace(inner(Y[ik].parts[s], dft.H(scf, ik, s, Y, **pots)).val) * at.kpts.wk[ik]
            want = t if want is None else want + t
    if not isinstance(got, R.Trace):
        return False, f"get_Eband returned {type(got).__name__}"
    return H.trace_zero(got.val - want.val), "get_Eband != sum_k wk sum_s tr(Y^H H Y)"


def sym_get_psi():
    """get_psi: psi = Y D with D the unitary eigenvector matrix of mu = Y^H H Y: psi^H O psi = 1, psi^H H psi = Lam (real diagonal), same
    span as Y; get_epsilon returns the (ascending) eigenvalues of the same mu, and mixing the input orbitals with an invertible M changes
    orth(W) only by a unitary R (so that mu -> R^H mu R has the same eigenvalues: lemma 'similarity')."""
    # H by its contract (C05.H.additive_homogeneous / C05.H.hermitian): a fixed Hermitian linear map per (k, spin)
    ld, scf, at, pots, dft = _grad_env()
    pots = {}
    R.Backend.eigh_indefinite = True
    try:
        W = [H.W_stack("W", ik, 2) for ik in range(2)]
        Y = dft.orth(at, W)
        psi = dft.get_psi(scf, W, **pots)
        eps = dft.get_epsilon(scf, W, **pots)
        for ik in range(2):
            for s in range(2):
                y = Y[ik].parts[s]
                p = psi[ik].parts[s] if isinstance(psi[ik], NStack) else psi[ik][s]
                if p is None:
                    return False, "eigenstates of a spin channel are not assigned"
                if not same(inner(p, at.O(p)), ident()):
                    return False, f"psi^H O psi != 1 (ik={ik}, spin={s})"
                Hp = dft.H(scf, ik, s, psi, **pots)
                sub = inner(p, Hp)
                e = eps[ik][s]
                if e is None or not isinstance(e, NArr):
                    return False, f"get_epsilon returns no eigenvalues for (ik={ik}, spin={s})"
                ev = nc.normalise(e.val)
                if len(ev.t) != 1 or len(list(ev.t)[0]) != 1 or not (list(ev.t)[0][0].diag and list(ev.t)[0][0].real):
                    return False, "get_epsilon does not return the real diagonal of an eigen-decomposition"
                Lam = NArr(e.val, (NST, NST))
                # psi = Y D: (1) D unitary, (2) D (psi^H H psi) D^H = mu, (3) mu = D Lam D^H  =>  psi^H H psi = Lam (real, diagonal)
                Dm = inner(y, at.O(p))
                mu = inner(y, dft.H(scf, ik, s, Y, **pots))
                if not same(inner(Dm, Dm), ident()) or not same(Dm @ Dm.conj().T, ident()):
                    return False, f"the rotation from orth(W) to the eigenstates is not unitary (ik={ik}, spin={s})"
                if not same(Dm @ sub @ Dm.conj().T, mu):
                    return False, f"psi^H H psi is not the subspace Hamiltonian in the rotated basis (ik={ik}, spin={s})"
                if not same(mu, Dm @ Lam @ Dm.conj().T):
                    return False, f"the eigenvalues get_epsilon returns do not diagonalise Y^H H Y with the rotation of get_psi (ik={ik}, spin={s})"
                if not same(p @ p.conj().T, y @ y.conj().T):
                    return False, "the eigenstates do not span the space of the orthonormalised input orbitals"
        # invertible mixing: orth(W M) = orth(W) R with R unitary
        ik, s = 0, 0
        m = nc.ctx().atom("Mix", NST, NST, kind="invertible")
        M = NArr(NC.of(m), (NST, NST))
        w = W[ik].parts[s]
        y = dft.orth(at, w)
        y2 = dft.orth(at, w @ M)
        Rm = inner(y, at.O(y2))
        if not same(y @ Rm, y2):
            return False, "orth(W M) is not orth(W) R with R = orth(W)^H O orth(W M)"
        if not same(inner(Rm, Rm), ident()):
            return False, "the matrix relating orth(W M) to orth(W) is not unitary"
    finally:
        R.Backend.eigh_indefinite = False
    return True, ""


def nat_get_psi(rng):
    from eminus.dft import H as Hn, get_epsilon, get_psi

    scf, at = _native_scf(Nspin=2, xc="lda,pw", atom="Ne")
    W = [rnd(rng, 2, len(at.Gk2c[ik]), at.occ.Nstate) for ik in range(at.kpts.Nk)]
    pre = scf._precomputed if hasattr(scf, "_precomputed") else {}
    psi = get_psi(scf, W, **pre)
    eps = np.asarray(get_epsilon(scf, W, **pre))
    Wm = [w @ (np.eye(w.shape[-1]) + 0.4 * rnd(rng, w.shape[-1], w.shape[-1])) for w in W]
    eps2 = np.asarray(get_epsilon(scf, Wm, **pre))
    err = float(np.abs(eps - eps2).max())
    err = max(err, float(np.max(np.diff(eps, axis=-1) < -1e-12)))
    # mixing of ORTHONORMAL orbitals whose result has columns of norm one (in the overlap metric) but is not orthogonal, and a rescaled set
    from eminus.dft import orth

    Y = [np.asarray(y) for y in orth(at, W)]
    Wn = []
    for y in Y:
        m = np.eye(y.shape[-1]) + 0.4 * rnd(rng, y.shape[-1], y.shape[-1])
        wn = y @ m
        nrm = np.sqrt(np.real(np.einsum("sgi,sgi->si", wn.conj(), np.stack([np.asarray(at.O(wn[sp])) for sp in range(wn.shape[0])]))))
        Wn.append(wn / nrm[:, None, :])
    err = max(err, float(np.abs(eps - np.asarray(get_epsilon(scf, Wn, **pre))).max()), float(np.abs(eps - np.asarray(get_epsilon(scf, [3.0 * w for w in W], **pre))).max()))
    # orbitals of small norm (overlap eigenvalues of 1e-10) and a mixing with condition number 1e4: still the same spectrum (compared on the scale 1e-5 for
    # the ill-conditioned case: round-off grows with the condition number)
    err = max(err, float(np.abs(eps - np.asarray(get_epsilon(scf, [1e-5 * y for y in Y], **pre))).max()))
    Wc = []
    for y in Y:
        u, _, vh = np.linalg.svd(rnd(rng, y.shape[-1], y.shape[-1]))
        Wc.append(y @ (u * np.logspace(0, -4, y.shape[-1])) @ vh)
    err = max(err, float(np.abs(eps - np.asarray(get_epsilon(scf, Wc, **pre))).max()) / 1e3)
    for ik in range(at.kpts.Nk):
        for s in range(2):
            p = np.asarray(psi[ik][s])
            n = p.shape[-1]
            err = max(err, float(np.abs(p.conj().T @ at.O(p) - np.eye(n)).max()))
            hp = np.asarray(Hn(scf, ik, s, psi, **pre))
            sub = p.conj().T @ hp
            err = max(err, float(np.abs(sub - np.diag(np.diag(sub))).max()), float(np.abs(np.sort(np.diag(sub).real) - eps[ik, s]).max()))
    return err


def nat_Eband(rng):
    from eminus.dft import get_epsilon
    from eminus.energies import get_Eband

    from eminus.dft import orth

    scf, at = _native_scf(Nspin=2)
    eps = get_epsilon(scf, scf.W)
    want = sum(at.kpts.wk[ik] * eps[ik].sum() for ik in range(at.kpts.Nk))
    return abs(get_Eband(scf, orth(at, scf.W)) - want)  # scf.Y may lag one step behind scf.W after run()


# =================================================================================================
# C01
# =================================================================================================


def _grad_env(F_scalar=True):
    ld = H.make_loader()
    scf, at, pots = H.make_scf(ld, Nk=2, Nspin=2)
    dft = ld.load("eminus.dft")
    # callee contracts (monkey-patched module globals): H is a fixed Hermitian linear map per (ik, spin) (C05.H.*),
    # Q(B, U) is linear in B (its Sylvester post-condition is C01.Q.*)
    Hop = {}

    def Hstub(scf_, ik, spin, W, **kw):
        key = (ik, spin)
        if key not in Hop:
            Hop[key] = nc.ctx().atom(f"Hop{ik}{spin}", dim_active(ik), dim_active(ik), herm=True)
        w = W[ik].parts[spin] if isinstance(W[ik], NStack) else W[ik][spin]
        return NArr(NC.of(Hop[key]).mul(w.val), w.shape)

    def Qstub(inp, U):
        out = NC({}, inp.val.rows, inp.val.cols)
        for w, c in nc.normalise(inp.val).t.items():
            q = nc.ctx().atom("Q[" + "·".join(a.name for a in w) + "]", inp.val.rows, inp.val.cols)
            out = out + NC({(q,): c}, inp.val.rows, inp.val.cols)
        return NArr(out, inp.shape)

    dft.H = Hstub
    dft.Q = Qstub
    return ld, scf, at, pots, dft


def sym_Q():
    """Q(B, U) is the solution of the Sylvester equation X sqrt(U) + sqrt(U) X = B for a Hermitian positive definite U (the
    operator of the differential of U^-1/2, Comput. Phys. Commun. 128, 1); the real code uses V^H ... V, which requires the
    eigenvectors it asks for to be orthonormal."""
    ld = H.make_loader()
    dft = ld.load("eminus.dft")
    for kind in ("generic", "antihermitian"):
        nc.new_ctx()
        u = nc.ctx().atom("U", NST, NST, herm=True)
        U = NArr(NC.of(u), (NST, NST))
        root = NArr(nc.sqrtm(U.val), (NST, NST))
        b = nc.ctx().atom("B", NST, NST)
        B = NArr(NC.of(b), (NST, NST))
        if kind == "antihermitian":
            B = B - B.conj().T
        q = dft.Q(B, U)
        lhs = q @ root + root @ q
        if not same(lhs, B):
            return False, f"Q(B,U) sqrt(U) + sqrt(U) Q(B,U) != B ({kind} B): residual {nc.normalise((lhs - B).val)!r}"[:600]
    return True, ""


def nat_Q(rng):
    """U = W^H W for orthonormal W (the identity up to round-off: where every SCF starts) and a generic U."""
    from scipy.linalg import sqrtm

    from eminus.dft import Q

    worst = 0.0
    for trial in range(20):
        n = 5
        if trial % 2 == 0:
            Wm, _ = np.linalg.qr(rnd(rng, 40, n))
            U = Wm.conj().T @ Wm
        else:
            M = rnd(rng, n, n)
            U = M.conj().T @ M + np.eye(n)
        Bm = rnd(rng, n, n)
        Bm = Bm - Bm.conj().T
        q = np.asarray(Q(Bm, U))
        r = sqrtm(U)
        worst = max(worst, np.abs(q @ r + r @ q - Bm).max() / np.abs(Bm).max())
    return worst


def sym_grad_span_orthogonal():
    ld, scf, at, pots, dft = _grad_env()
    W = [H.W_stack("W", ik, 2) for ik in range(2)]
    for ik in range(2):
        for s in range(2):
            g = dft.get_grad(scf, ik, s, W)
            w = W[ik].parts[s]
            if g.shape != w.shape:
                return False, "gradient shape"
            if not same(inner(w, g), zero(NST, NST)):
                return False, f"W^H grad != 0 for constant fillings (ik={ik}, spin={s}): {nc.normalise(inner(w, g).val)!r}"
    return True, ""


def sym_grad_formula():
    """General (non-constant, diagonal) fillings F, generic W: the two components of the gradient that follow from the
    derivative of E = sum_k wk tr(F Y^H H Y), Y = W U^-1/2, at fixed H (assumed lemma 'dftpp-gradient'):
      * directions D orthogonal to the span (W^H O D = 0) change Y by D U^-1/2:
            (1 - O W U^-1 W^H) g = wk (1 - O W U^-1 W^H) H W U^-1/2 F U^-1/2
      * directions D = W A rotate Y by a unitary whose generator solves a Sylvester equation (C01.Q.sylvester_equation):
            W^H g = wk U^1/2 Q([Ht, F]),   Ht = U^-1/2 W^H H W U^-1/2
    Both carry the k-point weight."""
    ld, scf, at, pots, dft = _grad_env()
    for ik in range(2):
        for s in range(2):
            fa = nc.ctx().atom(f"F{ik}{s}", NST, NST, herm=True, diag=True, real=True)
            at.occ.F[ik][s] = NArr(NC.of(fa), (NST, NST))
            at.occ.f[ik][s] = H.FVec(False)
    W = [H.W_stack("W", ik, 2) for ik in range(2)]
    for ik in range(2):
        for s in range(2):
            g = dft.get_grad(scf, ik, s, W)
            w = W[ik].parts[s]
            F = at.occ.F[ik][s]
            OW = at.O(w)
            U = inner(w, OW)
            iU = NArr(nc.inv(U.val), (NST, NST))
            U12 = NArr(nc.sqrtm(iU.val), (NST, NST))
            HW = dft.H(scf, ik, s, W)
            P = lambda x: x - OW @ iU @ inner(w, x)  # noqa: E731
            lhs = P(g)
            rhs = P(HW @ U12 @ F @ U12) * at.kpts.wk[ik]
            if not same(lhs, rhs):
                return False, f"component of the gradient orthogonal to the span is not wk (1-P) H W U^-1/2 F U^-1/2 (ik={ik}, spin={s})"
            Ht = U12 @ inner(w, HW) @ U12
            comm = Ht @ F - F @ Ht
            rootU = NArr(nc.sqrtm(U.val), (NST, NST))
            want = rootU @ dft.Q(comm, U) * at.kpts.wk[ik]
            if not same(inner(w, g), want):
                return False, (f"W^H g != wk U^1/2 Q([Ht, F]) (ik={ik}, spin={s}): the rotation part of the gradient for non-constant fillings is wrong: "
                               f"{nc.normalise((inner(w, g) - want).val)!r}")[:700]
    return True, ""


def sym_grad_occ_formula():
    """Band minimisation at orthonormal coefficients: g = wk (1 - O Y Y^H) H Y (derivative of sum_k wk tr(Y^H H Y), Y = orth(W))."""
    ld, scf, at, pots, dft = _grad_env()
    bm = ld.load("eminus.band_minimizer")
    bm.H = dft.H
    W = [H.W_stack("W", ik, 2) for ik in range(2)]
    for ik in range(2):
        for s in range(2):
            y = list(W[ik].parts[s].val.t)[0][0]
            nc.ctx().rule((y.dagger(), y), NC({(): A.ONE / at.Omega}, NST, NST))
    bm.orth = lambda atoms, W: W  # orth(Y) = Y for orthonormal Y (C04.orth.orthonormal_idempotent_span)
    for ik in range(2):
        for s in range(2):
            g = bm.get_grad_occ(scf, ik, s, W)
            w = W[ik].parts[s]
            HW = dft.H(scf, ik, s, W)
            want = (HW - at.O(w) @ inner(w, HW)) * at.kpts.wk[ik]
            if not same(g, want):
                return False, f"get_grad_occ != wk (1 - O Y Y^H) H Y at orthonormal Y (ik={ik}, spin={s})"
    return True, ""


def fd_slope(E, h=1e-3):
    """d/dt E(t) at t = 0 from two five-point stencils (steps h and h / 2) with Richardson extrapolation; returns (value, error estimate). The estimate is
    the difference of the two stencils: comparisons with an analytic derivative allow for it, so that a direction along which the energy is strongly
    non-linear (nearly rank-deficient random coefficients) cannot turn truncation error into an alarm."""
    cache = {}

    def e(t):
        if t not in cache:
            cache[t] = float(E(t))
        return cache[t]

    def five(hh):
        return (8 * (e(hh) - e(-hh)) - (e(2 * hh) - e(-2 * hh))) / (12 * hh)

    a, b = five(h), five(h / 2)
    scale = max(abs(e(h)), abs(e(-h)), 1e-300)
    return b + (b - a) / 15, abs(a - b) + 1e-13 * scale / h


def fd_dev(ana, num, est):
    """|ana - num| beyond the error estimate of the difference quotient."""
    return max(0.0, abs(ana - num) - 2 * est)



def nat_grad_occ(rng):
    """Central-difference slope of the band energy vs 2 Re<get_grad_occ, D> at orthonormal W, weighted k-points; one and two spin channels
    (different orbitals per channel)."""
    from eminus.band_minimizer import get_grad_occ, scf_step_occ
    from eminus.dft import orth

    worst = 0.0
    for Nspin in (1, 2):
        scf, at = _native_scf(Nspin=Nspin, xc="lda,pw")
        scf.W = orth(at, [rnd(rng, Nspin, len(at.Gk2c[ik]), at.occ.Nstate) for ik in range(at.kpts.Nk)])
        scf._precompute()
        W0 = [np.asarray(w) for w in scf.W]
        D = [rnd(rng, *w.shape) for w in W0]
        D = [d * np.linalg.norm(w) / np.linalg.norm(d) for w, d in zip(W0, D)]

        def E(t, W0=W0, D=D, scf=scf):
            return scf_step_occ(scf, [w + t * d for w, d in zip(W0, D)])

        slope, est = fd_slope(E)
        lin = 0
        for ik in range(at.kpts.Nk):
            for sp in range(Nspin):
                g = get_grad_occ(scf, ik, sp, W0, **scf._precomputed)
                lin += 2 * np.real(np.sum(np.asarray(g).conj() * D[ik][sp]))
        worst = max(worst, fd_dev(lin, slope, est) / max(1.0, abs(slope)))
    return worst


def nat_grad_nonconstant(rng):
    """Non-constant fillings (smearing with extra bands), two k-points with unequal weights, W orthonormal (even seeds) or
    strongly non-orthonormal (odd seeds): central-difference slope of the total energy vs 2 Re<get_grad, D>."""
    import eminus
    from eminus import SCF, Atoms
    from eminus.dft import get_grad, guess_random, orth
    from eminus.energies import get_E
    from eminus.minimizer import scf_step

    eminus.config.backend = "numpy"
    eminus.config.verbose = "critical"
    at = Atoms(["Li", "Li"], [[0.1, 0.2, 0.3], [0.3, 0.1, 4.4]], ecut=3, a=[[7.0, 0.3, 0.1], [0.2, 7.5, 0.4], [0.5, 0.1, 9.0]])
    at.s = [9, 9, 11]
    at.occ.smearing = 0.05
    at.occ.bands = 5
    at.set_k([[0.0, 0.0, 0.0], [0.2, 0.1, 0.0]], [0.3, 0.7])
    scf = SCF(at, xc="lda,vwn", verbose="critical")
    at = scf.atoms
    scf.W = guess_random(scf)
    scf_step(scf, 0)
    W = [np.array(w) for w in scf.W]
    if int(rng.integers(2)) == 0:
        W = [np.array(w) for w in orth(at, W)]
    else:
        W = [w @ (np.eye(w.shape[-1]) + 0.3 * rnd(rng, w.shape[-1], w.shape[-1])) for w in W]
    D = [rnd(rng, *w.shape) for w in W]
    D = [d * np.linalg.norm(w) / np.linalg.norm(d) for w, d in zip(W, D)]

    def E(t):
        scf.W = [w + t * d for w, d in zip(W, D)]
        scf._precompute()
        return get_E(scf)

    scf.W = [w.copy() for w in W]
    scf._precompute()
    ana = 0.0
    for ik in range(at.kpts.Nk):
        for sp in range(at.occ.Nspin):
            g = np.asarray(get_grad(scf, ik, sp, scf.W, **scf._precomputed))
            ana += 2 * np.real(np.vdot(g, D[ik][sp]))
    num, est = fd_slope(E)
    f = np.asarray(at.occ.f)
    if np.all(f == f[..., :1]):
        return 1.0  # the scenario must have non-constant fillings
    return fd_dev(ana, num, est) / max(1e-12, abs(num))


def nat_grad_exactly_empty_state(rng):
    """A state whose filling is exactly zero (minority channel of an open-shell atom; a user-set zero): the total energy still depends on its coefficients,
    because Y = W (W^H O W)^-1/2 mixes all columns - the derivative along a direction that moves ONLY the empty column is 2 Re<get_grad, D> as well
    (orthonormal and non-orthonormal W), and so is the derivative along a random direction."""
    import eminus
    from eminus import SCF, Atoms
    from eminus.dft import get_grad, guess_random, orth
    from eminus.energies import get_E

    eminus.config.backend = "numpy"
    eminus.config.verbose = "critical"
    at = Atoms("Li", [[0.1, 0.2, 0.3]], ecut=4, a=[[6.0, 0.3, 0.1], [0.2, 6.5, 0.4], [0.5, 0.1, 7.0]], unrestricted=True)
    at.s = [9, 9, 11]
    at.set_k([[0.0, 0.0, 0.0], [0.2, 0.1, 0.0]], [0.3, 0.7])
    scf = SCF(at, xc="lda,vwn", verbose="critical")
    at = scf.atoms
    f = np.asarray(at.occ.f)
    empty = np.argwhere(f == 0)
    if not len(empty) or f.shape[-1] < 2:
        raise RuntimeError("harness: the open-shell case has no exactly empty state")
    W = [np.array(w) for w in guess_random(scf)]
    worst = 0.0
    for kind in ("orthonormal", "non-orthonormal"):
        Wk = [np.array(w) for w in orth(at, W)] if kind == "orthonormal" else [w @ (np.eye(w.shape[-1]) + 0.3 * rnd(rng, w.shape[-1], w.shape[-1])) for w in W]
        for direction in ("only the empty column", "random"):
            D = [rnd(rng, *w.shape) for w in Wk]
            if direction == "only the empty column":
                mask = [np.zeros(w.shape) for w in Wk]
                for ik, sp, st in empty:
                    mask[ik][sp, :, st] = 1.0
                D = [d * m for d, m in zip(D, mask)]
            nrm = np.sqrt(sum(np.linalg.norm(d) ** 2 for d in D))
            D = [d / nrm for d in D]

            def E(t, Wk=Wk, D=D):
                scf.W = [w + t * d for w, d in zip(Wk, D)]
                scf._precompute()
                return get_E(scf)

            scf.W = [w.copy() for w in Wk]
            scf._precompute()
            ana = 0.0
            for ik in range(at.kpts.Nk):
                for sp in range(at.occ.Nspin):
                    g = np.asarray(get_grad(scf, ik, sp, scf.W, **scf._precomputed))
                    ana += 2 * np.real(np.vdot(g, D[ik][sp]))
            num, est = fd_slope(E)
            # measured against the size of the energy changes a unit step produces (the slope along the empty column alone is small but not zero)
            worst = max(worst, fd_dev(ana, num, est) / max(1e-3, abs(num)))
    return worst


def sym_grad_homogeneous():
    """get_grad is homogeneous of degree one in the fillings and proportional to wk (also: half fillings -> half gradient)."""
    ld, scf, at, pots, dft = _grad_env()
    W = [H.W_stack("W", ik, 2) for ik in range(2)]
    g1 = dft.get_grad(scf, 0, 1, W)
    f = at.occ.fsym[0][1]
    # substitute f -> f/2: the scalar coefficient of every term must be exactly f * wk * (f-free)
    for w, c in g1.val.t.items():
        q = c / (f * at.kpts.wk[0])
        G = A.ctx().gens
        names = {G[g].name for g in A.gens_of(q)}
        if f"f01" in names or "wk0" in names:
            return False, "gradient is not proportional to f * wk"
    return True, ""


def nat_grad_span(rng):
    from eminus.dft import get_grad

    scf, at = _native_scf(Nspin=1)
    W = [rnd(rng, 1, len(at.Gk2c[ik]), at.occ.Nstate) for ik in range(at.kpts.Nk)]
    e = 0
    for ik in range(at.kpts.Nk):
        g = get_grad(scf, ik, 0, W)
        e = max(e, np.abs(W[ik][0].conj().T @ g).max() / max(1.0, np.abs(g).max()))
    # orbitals that are ALMOST orthonormal (orthonormal ones rescaled / mixed by 1 + O(eps), eps = 1e-4 ... 1e-9: the state of every minimiser after a step):
    # the gradient is orthogonal to their span as well, no threshold separates "orthonormal" from "not orthonormal"
    from eminus.dft import orth

    Y = [np.asarray(y) for y in orth(at, W)]
    for eps in (1e-4, 1e-6, 1e-7, 1e-9):
        Wn = [y @ (np.eye(y.shape[-1]) + eps * (np.diag(rng.uniform(0.5, 1.5, y.shape[-1])) + 0.3 * rnd(rng, y.shape[-1], y.shape[-1]))) for y in Y]
        for ik in range(at.kpts.Nk):
            g = get_grad(scf, ik, 0, Wn)
            e = max(e, np.abs(Wn[ik][0].conj().T @ g).max() / max(1.0, np.abs(g).max()))
    # the energy does not change under invertible mixing of the orbitals - in particular not under a change of their overall scale, down to small norms
    from eminus.energies import get_E

    def E(Wx):
        scf.W = Wx
        scf._precompute()
        return float(get_E(scf))

    e0 = E([w.copy() for w in W])
    for sc in (1e-2, 1e-4, 1e-5, 1e3):
        e = max(e, abs(E([sc * w for w in W]) - e0) / max(1.0, abs(e0)))
    M = np.eye(W[0].shape[-1]) + 0.4 * rnd(rng, W[0].shape[-1], W[0].shape[-1])
    e = max(e, abs(E([w @ M for w in W]) - e0) / max(1.0, abs(e0)))
    return e


def nat_grad_derivative(rng):
    """slope of the total energy along a random direction D equals 2 Re <grad, D> (central differences, native)."""
    from eminus.dft import get_grad
    from eminus.minimizer import scf_step

    scf, at = _native_scf(Nspin=1)
    W0 = [rnd(rng, 1, len(at.Gk2c[ik]), at.occ.Nstate) for ik in range(at.kpts.Nk)]
    D = [rnd(rng, 1, len(at.Gk2c[ik]), at.occ.Nstate) for ik in range(at.kpts.Nk)]

    def E(t):
        scf.W = [w + t * d for w, d in zip(W0, D)]
        return scf_step(scf, 0)

    slope, est = fd_slope(E, h=2e-4)
    scf.W = W0
    scf_step(scf, 0)
    lin = 0
    for ik in range(at.kpts.Nk):
        g = get_grad(scf, ik, 0, scf.W, **scf._precomputed)
        lin += 2 * np.real(np.sum(g.conj() * D[ik][0]))
    return fd_dev(lin, slope, est) / max(1.0, abs(slope)) * 1e-2  # tolerance 1e-6 relative


# =================================================================================================
# C11
# =================================================================================================


def sym_phi():
    ld = H.make_loader()
    at = H.make_atoms(ld, Nk=1, Nspin=1)
    dft = ld.load("eminus.dft")
    n = vec_atom("n", DIM["Ns"], real=True)
    m = vec_atom("m", DIM["Ns"], real=True)
    phi = dft.get_phi(at, n)
    Z0 = nc.ctx().atom("Z0[Ns]", DIM["Ns"], DIM["Ns"], herm=True, diag=True, real=True)

    def z0(x):
        return NArr(NC.of(Z0).mul(x.val), x.shape)

    pi = A.ctx().pi()
    # Poisson: L(phi) = -4 pi O(J(n)) off the G = 0 component (i.e. for n - mean(n))
    if not same(at.L(phi), z0(at.O(at.J(n))) * (-4 * pi)):
        return False, "L(phi) != -4 pi O J (n - mean n)"
    if not same(z0(phi), phi):
        return False, "phi has a non-zero mean (G = 0 component)"
    al = A.ctx().var("alpha")
    if not same(dft.get_phi(at, n * al + m), phi * al + dft.get_phi(at, m)):
        return False, "get_phi is not linear"
    # single plane wave: phi_G = 4 pi / |G|^2 n_G   <=>  D[G2] phi = 4 pi Z0 J(n)
    if not same(at.G2[:, None] * NArr(phi.val, (DIM["Ns"], 1)), NArr(z0(at.J(n)).val, (DIM["Ns"], 1)) * (4 * pi)):
        return False, "|G|^2 phi_G != 4 pi n_G"
    return True, ""


def nat_phi(rng):
    e = 0.0
    # the field depends on the density and the grid only: an object WITHOUT electrons (He 2+) used as the grid of a non-zero density
    from eminus import Atoms

    he = Atoms("He", [[0.0, 0.0, 0.0]], ecut=2, a=[[5.0, 0.3, 0.0], [0.0, 5.5, 0.2], [0.1, 0.0, 6.0]], charge=2)
    he.s = [5, 4, 6]
    he.build()
    e = max(e, _nat_phi_err(rng, he))
    # samplings with s0 > s2 and s0 < s2 (anisotropic, even and odd), at the Gamma point and at ONE shifted k-point (the Hartree field
    # does not know about k-points)
    for s_, shift in (((6, 5, 4), None), ((4, 5, 7), None), ((6, 8, 10), None), ((5, 4, 6), [0.1, 0.0, 0.2])):
        e = max(e, _nat_phi_case(rng, s_, shift))
    return e


def _nat_phi_case(rng, s_, shift):
    at = native_atoms(Nk=1, s=s_)
    if shift is not None:
        at.kpts.kmesh = [1, 1, 1]
        at.kpts.kshift = shift
        at.build()
    e = _nat_phi_err(rng, at)
    # the same object after a change of the cell (same sampling): nothing of the old cell may survive in the Poisson solve
    at.a = np.asarray(at.a) * np.array([[1.3], [0.8], [1.1]])
    at.s = list(s_)
    at.build()
    return max(e, _nat_phi_err(rng, at))


def _nat_phi_err(rng, at):
    from eminus.dft import get_phi

    n = rng.random(at.Ns)
    phi = get_phi(at, n)
    # reciprocal-space density by an explicit sum (independent of the package's transforms): n_G = 1/Ns sum_r exp(-i G.r) n(r)
    phase = np.exp(-1j * (np.asarray(at.G) @ np.asarray(at.r).T))
    nG0 = phase @ n / at.Ns
    nG0[0] = 0
    # |G|^2 phi_G = 4 pi n_G for every G != 0, with |G|^2 taken from the reciprocal vectors themselves (not from a table of the object)
    G2 = np.sum(np.asarray(at.G) ** 2, axis=1)
    ref = np.zeros_like(nG0)
    ref[1:] = 4 * np.pi * nG0[1:] / G2[1:]
    e = np.abs(phi - ref).max() / max(1.0, np.abs(ref).max())
    # the single cosine: n = cos(G.r) gives phi_r = 4 pi / |G|^2 cos(G.r)
    ig = 1 + int(np.argsort(G2[1:])[3])  # a short reciprocal vector (away from the Nyquist planes, where cos(G.r) and cos(-G.r) share one coefficient)
    cosn = np.cos(np.asarray(at.r) @ np.asarray(at.G)[ig])
    phir = np.real(np.asarray(at.I(get_phi(at, cosn))))
    e = max(e, float(np.abs(phir - 4 * np.pi / G2[ig] * cosn).max() / (4 * np.pi / G2[ig])))
    e = max(e, abs(phi[0]))
    m = rng.random(at.Ns)
    e = max(e, np.abs(get_phi(at, 2 * n + m) - 2 * phi - get_phi(at, m)).max())
    # homogeneity down to tiny amplitudes (perturbation densities, spectral tails): phi(c n) = c phi(n), compared RELATIVELY, c = 1e-6 ... 1e-30
    ref_scale = float(np.abs(np.asarray(phi)).max())
    for c in (1e-6, 1e-12, 1e-16, 1e-30):
        e = max(e, float(np.abs(np.asarray(get_phi(at, c * n)) / c - np.asarray(phi)).max() / ref_scale))
    tiny = np.real(np.asarray(at.I(get_phi(at, 1e-15 * cosn))))
    e = max(e, float(np.abs(tiny / 1e-15 - 4 * np.pi / G2[ig] * cosn).max() / (4 * np.pi / G2[ig])))
    # fields whose grid sum is EXACTLY zero (a +1 / -1 double layer, the Nyquist cosine of an even axis): the G = 0 coefficient is 0 / 0 before it is
    # removed; field and energy stay finite, the mean is zero, the energy is >= 0
    from eminus.energies import get_Ecoul

    layer = np.zeros(at.Ns)
    layer[0], layer[at.Ns // 3] = 1.0, -1.0
    fields = [layer]
    s_ = np.asarray(at.s)
    if s_[0] % 2 == 0:
        idx = np.arange(at.Ns) // (s_[1] * s_[2])
        fields.append(np.where(idx % 2 == 0, 1.0, -1.0))
    for fld in fields:
        ph = np.asarray(get_phi(at, fld))
        ec = float(get_Ecoul(at, fld))
        if not np.all(np.isfinite(ph)) or not np.isfinite(ec):
            return 1.0
        e = max(e, abs(ph[0]), max(0.0, -ec))
    return e


def sym_Ecoul():
    """get_Ecoul(n) = (2 pi Omega / N^2) (F n)^H pinv(|G|^2) (F n): half of <n, phi_r>, a positive-weight sum of squares,
    quadratic in n."""
    ld = H.make_loader()
    at = H.make_atoms(ld, Nk=1, Nspin=1)
    en = ld.load("eminus.energies")
    dft = ld.load("eminus.dft")
    n = vec_atom("n", DIM["Ns"], real=True)
    captured = {}

    class XP(R.Backend):
        def real(self, x):
            captured["v"] = x
            return x

    en.xp = XP()
    en.float = lambda x: x
    out = en.get_Ecoul(at, n)
    if not isinstance(out, NArr):
        return False, f"unexpected result {type(out).__name__}"
    N = A.ctx().var("Ngrid", positive=True)
    pi = A.ctx().pi()
    Fn = at.J(n, norm="backward")  # F n
    pinv = None
    for a in nc.ctx().atoms.values():
        if a.kind == "pinv":
            pinv = a
    if pinv is None:
        return False, "the Hartree energy does not involve the pseudo-inverse of |G|^2"
    want = NArr(Fn.val.dagger().mul(NC.of(pinv)).mul(Fn.val).scale(2 * pi * at.Omega / (N * N)), out.shape)
    if not same(out, want):
        return False, f"Ecoul != (2 pi Omega/N^2) (Fn)^H pinv(G2) (Fn): got {nc.normalise(out.val)!r}"
    # half of <n, real-space Hartree potential>
    phi_r = at.Jdag(at.O(dft.get_phi(at, n)))
    half = NArr(n.val.dagger().mul(phi_r.val).scale(A.const("1/2")), out.shape)
    if not same(out, half):
        return False, "Ecoul != 1/2 <n, Jdag O phi>"
    return True, ""


def nat_Ecoul(rng):
    from eminus.dft import get_phi
    from eminus.energies import get_Ecoul

    at = native_atoms(Nk=1)
    e = 0.0
    # the property quantifies over all REAL fields: a positive density and a sign-changing field
    for n in (rng.random(at.Ns), rng.standard_normal(at.Ns)):
        E = get_Ecoul(at, n)
        nG = np.fft.fftn(n.reshape(at.s)).ravel()
        with np.errstate(divide="ignore"):
            w = np.where(at.G2 > 0, 1 / at.G2, 0)
        want = 2 * np.pi * at.Omega / at.Ns**2 * np.sum(w * np.abs(nG) ** 2)
        e = max(e, abs(E - want) / max(1, abs(want)))
        e = max(e, abs(get_Ecoul(at, -3 * n) - 9 * E) / max(1, abs(E)))
        e = max(e, 0.0 if E >= 0 else 1.0)
    # a field handed in by the caller: the energy is 1/2 int n phi for THAT field (cross energy of two densities, a scaled density with a fixed field), with the
    # real-space field obtained by an explicit sum over the reciprocal vectors
    n1, n2 = rng.random(at.Ns), rng.random(at.Ns)
    phi2 = get_phi(at, n2)
    phase = np.exp(1j * (np.asarray(at.r) @ np.asarray(at.G).T))
    phi2_r = np.real(phase @ np.asarray(phi2))
    dV = at.Omega / at.Ns
    for dens, label in ((n1, "cross"), (2.5 * n2, "scaled")):
        want = 0.5 * dV * float(np.sum(dens * phi2_r))
        e = max(e, abs(float(get_Ecoul(at, dens, phi2)) - want) / max(1.0, abs(want)))
    return e


def _register():
    dft = "eminus.dft"
    N_ = ("engineN", "reals")
    reg = [
        ("C04", "C04.orth.orthonormal_idempotent_span", sym_orth, nat_orth, [f"{dft}:orth", "eminus.operators:O"], N_ + ("sqrtm", "inv"),
         "Y = orth(W): Y^H O Y = 1, orth(Y) = Y, Y sqrtm(W^H O W) = W, for every k-point and spin channel (symbolic sizes)"),
        ("C04", "C04.orth_unocc.orthonormal_orth_to_occ", sym_orth_unocc, nat_orth_unocc, [f"{dft}:orth_unocc", "eminus.operators:O"],
         N_ + ("sqrtm", "inv"), "D = orth_unocc(Y, Z): D^H O D = 1 and D^H O Y_occ = 0 (pre: Y^H O Y = 1; occupied = f > 0)"),
        ("C05", "C05.H.additive_homogeneous", sym_H_linear, nat_H_linear, [f"{dft}:H", "eminus.gth:calc_Vnonloc", "eminus.gga:calc_Vtau"],
         N_ + ("fft",), "H(alpha A + beta B) = alpha H(A) + beta H(B) at fixed potentials (kinetic + local + non-local), all k / spin"),
        ("C05", "C05.H.hermitian", sym_H_hermitian, nat_H_hermitian, [f"{dft}:H", "eminus.gth:calc_Vnonloc", "eminus.operators:L",
                                                                      "eminus.operators:I", "eminus.operators:Idag"],
         N_ + ("fft", "callee-contract"), "<a|H b> = <H a|b> for real local potentials and symmetric GTH coupling matrices (LDA-type potentials)"),
        ("C05", "C05.H.hermitian.any_reciprocal_field", sym_H_hermitian_any_field, nat_H_hermitian_even, [f"{dft}:H", "eminus.operators:Jdag", "eminus.operators:O"],
         N_ + ("fft", "callee-contract"),
         "<a|H b> = <H a|b> for an ARBITRARY complex reciprocal-space Hartree field: the local potential applied by H is the REAL part of its real-space image (replay: coarse even sampling of a triclinic cell)"),
        ("C05", "C05.get_psi_get_epsilon.subspace_diagonalisation", sym_get_psi, nat_get_psi, [f"{dft}:get_psi", f"{dft}:get_epsilon", f"{dft}:orth", f"{dft}:H"],
         N_ + ("eigh", "sqrtm", "inv", "similarity", "interlacing", "callee-contract"),
         "get_psi: orthonormal rotation of orth(W) that diagonalises Y^H H Y; get_epsilon: its ascending eigenvalues; orth(W M) = orth(W) R with R unitary for invertible M"),
        ("C05", "C05.get_Eband.weighted_trace", sym_Eband, nat_Eband, ["eminus.energies:get_Eband", f"{dft}:H"], N_ + ("trace-eigs",),
         "get_Eband = sum_k wk sum_spin tr(Y^H H Y)"),
        ("C01", "C01.get_grad.span_orthogonal", sym_grad_span_orthogonal, nat_grad_span, [f"{dft}:get_grad", "eminus.operators:O"],
         N_ + ("sqrtm", "inv", "callee-contract"), "for constant fillings F = f 1 the gradient is orthogonal to the span: W^H get_grad = 0 (H, Q by contract)"),
        ("C01", "C01.get_grad.homogeneous_in_f_wk", sym_grad_homogeneous, nat_grad_span, [f"{dft}:get_grad"], N_ + ("callee-contract",),
         "get_grad is proportional to f * wk (degree-one homogeneity; half fillings give half the gradient)"),
        ("C01", "C01.get_grad.analytic_components", sym_grad_formula, nat_grad_nonconstant, [f"{dft}:get_grad", "eminus.operators:O"],
         N_ + ("sqrtm", "inv", "callee-contract", "dftpp-gradient"),
         "general diagonal fillings: (1-P) g = wk (1-P) H W U^-1/2 F U^-1/2 and W^H g = wk U^1/2 Q([Ht, F]) (both derived from dE at fixed H)"),
        ("C01", "C01.get_grad_occ.analytic", sym_grad_occ_formula, nat_grad_occ, ["eminus.band_minimizer:get_grad_occ"],
         N_ + ("sqrtm", "inv", "callee-contract", "dftpp-gradient"),
         "band minimisation at orthonormal Y: get_grad_occ = wk (1 - O Y Y^H) H Y, the derivative of sum_k wk tr(Y^H H Y)"),
        ("C01", "C01.Q.sylvester_equation", sym_Q, nat_Q, [f"{dft}:Q"], N_ + ("sqrtm", "eigh", "sylvester-division"),
         "Q(B, U) sqrt(U) + sqrt(U) Q(B, U) = B for Hermitian positive definite U (needs ORTHONORMAL eigenvectors: eigh contract; the eig contract only gives invertible ones)"),
        ("C11", "C11.get_phi.poisson_zero_mean_linear", sym_phi, nat_phi, [f"{dft}:get_phi", "eminus.operators:Linv", "eminus.operators:L",
                                                                        "eminus.operators:J", "eminus.operators:O"], N_ + ("fft",),
         "L(phi) = -4 pi O J (n - mean n); phi has zero mean; linear in n; |G|^2 phi_G = 4 pi n_G for every G != 0"),
        ("C11", "C11.get_Ecoul.half_n_phi_sum_of_squares", sym_Ecoul, nat_Ecoul, ["eminus.energies:get_Ecoul", f"{dft}:get_phi"], N_ + ("fft",),
         "Ecoul = 1/2 <n, phi_r> = (2 pi Omega/N^2) sum_{G != 0} |n_G|^2 / |G|^2 >= 0, quadratic in n"),
    ]
    for prop, name, sym, nat, funcs, assumes, doc in reg:
        register(Obligation(name=name, prop=prop, engine="N", functions=funcs, run=NOb(sym, nat), assumes=assumes, doc=doc))
    register(Obligation(name="C05.canary.hermitian_with_asymmetric_h", prop="C05", engine="N", functions=[f"{dft}:H"],
                        run=NOb(sym_H_hermitian_needs_symmetric_h, None), canary=True,
                        doc="with a non-symmetric coupling matrix the Hamiltonian must not be provably Hermitian"))
    for prop in ("C04", "C01", "C11"):
        def can():
            ld = H.make_loader()
            at = H.make_atoms(ld)
            x = mat_atom("x", dim_active(0), NST)
            return same(at.O(x), x), "canary"

        register(Obligation(name=f"{prop}.canary.O_is_identity", prop=prop, engine="N", functions=["eminus.operators:O"],
                            run=NOb(can, None), canary=True, doc="O(x) == x must be refuted"))


_register()


# -------------------------------------------------------------------------------------------------
# bounded stand-ins (native evaluation of a contract on sampled inputs; never counted as proved)
# -------------------------------------------------------------------------------------------------

from pycv.framework import BOUNDED_OK, DISCHARGED, REFUTED, UNDECIDED, Result  # noqa: E402


class BoundedNative:
    def __init__(self, nat, nseeds, tol=1e-8, what=""):
        self.nat, self.nseeds, self.tol, self.what = nat, nseeds, tol, what

    def __call__(self, ob, tier, seed):
        n = self.nseeds if tier == "quick" else 4 * self.nseeds
        worst = 0.0
        for k in range(n):
            try:
                err = float(self.nat(np.random.default_rng(seed * 1000 + k)))
            except RuntimeError as e:
                if str(e).startswith("harness:"):
                    raise
                err, raised = float("inf"), f"{type(e).__name__}: {e}"
            except Exception as e:  # noqa: BLE001
                # the real code raises on an input on which the contract is evaluated (it does not on the committed tree): a failing input
                err, raised = float("inf"), f"{type(e).__name__}: {e}"
            else:
                raised = None
            if raised is not None:
                wit = dict(obligation=ob.name, seed=seed * 1000 + k, raised=raised)
                return Result(REFUTED, backend="native-contract-evaluation", witness=wit, replayed=True, replay_info=dict(check=self.what, raised=raised),
                              detail=f"{ob.name}: {self.what}: the code raises {raised[:200]} (seed {seed * 1000 + k})")
            if not np.isfinite(err):
                err = float("inf")
            worst = max(worst, err)
            if err > self.tol:
                wit = dict(obligation=ob.name, seed=seed * 1000 + k, err=err)
                return Result(REFUTED, backend="native-contract-evaluation", witness=wit, replayed=True,
                              replay_info=dict(check=self.what, err=err), detail=f"{ob.name}: {self.what}: error {err:.3e} (seed {seed * 1000 + k})")
        return Result(BOUNDED_OK, backend="native-contract-evaluation", detail=f"bounded: {n} random instances, worst error {worst:.2e}")

    def replay(self, wit):
        try:
            err = float(self.nat(np.random.default_rng(wit["seed"])))
        except Exception as e:  # noqa: BLE001
            return True, dict(check=self.what, raised=f"{type(e).__name__}: {e}")
        return bool(not err <= self.tol), dict(check=self.what, err=err)


def nat_grad_derivative_case(Nspin, xc):
    def f(rng):
        from eminus.dft import get_grad
        from eminus.minimizer import scf_step

        scf, at = _native_scf(Nspin=Nspin, xc=xc)
        W0 = [rnd(rng, Nspin, len(at.Gk2c[ik]), at.occ.Nstate) for ik in range(at.kpts.Nk)]
        D = [rnd(rng, Nspin, len(at.Gk2c[ik]), at.occ.Nstate) for ik in range(at.kpts.Nk)]

        def E(t):
            scf.W = [w + t * d for w, d in zip(W0, D)]
            return scf_step(scf, 0)

        slope, est = fd_slope(E, h=2e-4)
        scf.W = W0
        scf_step(scf, 0)
        lin = 0
        for ik in range(at.kpts.Nk):
            for s in range(Nspin):
                g = get_grad(scf, ik, s, scf.W, **scf._precomputed)
                lin += 2 * np.real(np.sum(g.conj() * D[ik][s]))
        return fd_dev(lin, slope, est) / max(1.0, abs(slope))

    return f


def _register_bounded():
    for Nspin, xc, tag in ((1, "lda,pw", "lda_unpol"), (2, "pbe", "pbe_pol")):
        register(Obligation(name=f"C01.total_energy.slope_eq_2Re_grad_D.{tag}", prop="C01", engine="B", bounded=True,
                            functions=["eminus.dft:get_grad", "eminus.dft:H", "eminus.minimizer:scf_step"],
                            run=BoundedNative(nat_grad_derivative_case(Nspin, xc), 2, tol=2e-6,
                                              what="central-difference slope of the total energy vs 2 Re<grad, D> for non-orthonormal W"),
                            budget={"quick": 200, "thorough": 900},
                            doc="BOUNDED stand-in: derivative relation on sampled non-orthonormal W (triclinic cell, 2 k-points)"))


def _register_bounded2():
    register(Obligation(name="C01.total_energy.slope_eq_2Re_grad_D.smeared_weighted_k", prop="C01", engine="B", bounded=True,
                        functions=["eminus.dft:get_grad", "eminus.dft:Q", "eminus.dft:H", "eminus.energies:get_E"],
                        run=BoundedNative(nat_grad_nonconstant, 2, tol=1e-6,
                                          what="slope of the total energy vs 2 Re<grad, D>: smeared fillings with empty states, k-weights (0.3, 0.7), orthonormal and non-orthonormal W"),
                        budget={"quick": 300, "thorough": 900},
                        doc="BOUNDED stand-in: derivative relation for non-constant fillings and unequal k-point weights (Li2, triclinic cell, odd grid)"))
    register(Obligation(name="C01.total_energy.slope_eq_2Re_grad_D.exactly_empty_state", prop="C01", engine="B", bounded=True,
                        functions=["eminus.dft:get_grad", "eminus.dft:Q", "eminus.dft:H", "eminus.energies:get_E"],
                        run=BoundedNative(nat_grad_exactly_empty_state, 1, tol=1e-5,
                                          what="slope of the total energy vs 2 Re<grad, D> for an open-shell atom with an exactly empty state: along the empty column alone and along a random direction"),
                        budget={"quick": 300, "thorough": 900},
                        doc="BOUNDED stand-in: the derivative relation holds for the coefficients of a state with filling exactly zero as well (Li, unrestricted, two weighted k-points)"))
    register(Obligation(name="C01.band_energy.slope_eq_2Re_grad_occ_D", prop="C01", engine="B", bounded=True,
                        functions=["eminus.band_minimizer:get_grad_occ", "eminus.band_minimizer:scf_step_occ"],
                        run=BoundedNative(nat_grad_occ, 2, tol=2e-6, what="slope of the band energy vs 2 Re<get_grad_occ, D> at orthonormal W, two k-points"),
                        budget={"quick": 200, "thorough": 900},
                        doc="BOUNDED stand-in: band-energy derivative relation at orthonormal coefficients (fixed Hamiltonian)"))


def nat_grad_coarse_even_grid(xc, s=(6, 6, 8), pot="gth", unrestricted=None, kmesh=None, setk=None, species=("Li", "H"), switch_from=None):
    def f(rng):
        """The derivative relation for a functional family / external potential / sampling; s = (6, 6, 8) is a user-chosen COARSE EVEN
        sampling (smaller than the default one): products of orbitals reach the Nyquist planes of the FFT box."""
        import eminus
        from eminus import SCF, Atoms
        from eminus.dft import get_grad, guess_random
        from eminus.energies import get_E

        eminus.config.backend = "numpy"
        eminus.config.verbose = "critical"
        at = Atoms(list(species), [[0.2, 0.1, 0.3], [0.4, 0.2, 3.1], [3.1, 2.9, 0.4]][: len(species)], ecut=4, a=[[6.0, 0.3, 0.1], [0.2, 6.5, 0.4], [0.5, 0.1, 7.0]],
                   unrestricted=unrestricted)
        at.s = list(s)
        if kmesh:
            at.kpts.kmesh = list(kmesh)
        if setk:
            at.set_k(*setk)
        if switch_from is None:
            scf = SCF(at, xc=xc, pot=pot, verbose="critical")
        else:
            # the object is created with another potential (pseudopotential data of species with projectors), the potential is switched afterwards
            scf = SCF(at, xc=xc, pot=switch_from, verbose="critical")
            scf.pot = pot
        at = scf.atoms
        W = [np.asarray(w) for w in guess_random(scf)]
        W = [w @ (np.eye(w.shape[-1]) + 0.3 * rnd(rng, w.shape[-1], w.shape[-1])) for w in W]
        D = [rnd(rng, *w.shape) for w in W]
        D = [d * np.linalg.norm(w) / np.linalg.norm(d) for w, d in zip(W, D)]

        def E(t):
            scf.W = [w + t * d for w, d in zip(W, D)]
            scf._precompute()
            return get_E(scf)

        scf.W = [w.copy() for w in W]
        scf._precompute()
        ana = sum(2 * np.real(np.vdot(np.asarray(get_grad(scf, ik, sp, scf.W, **scf._precomputed)), D[ik][sp])) for ik in range(at.kpts.Nk) for sp in range(at.occ.Nspin))
        num, est = fd_slope(E)
        return fd_dev(ana, num, est) / abs(num)
    return f


def nat_grad_xc_params(rng):
    """The derivative relation with non-default functional parameters set through SCF.xc_params (energy, potential and the keyword-less gradient all use them)."""
    import eminus
    from eminus import SCF, Atoms
    from eminus.dft import get_grad, guess_random
    from eminus.energies import get_E

    eminus.config.backend = "numpy"
    eminus.config.verbose = "critical"
    worst = 0.0
    for xc, par in (("pbe", dict(mu=10 / 81, beta=0.046)), ("lda,gdsmfb", dict(T=0.3))):
        at = Atoms(["Li", "H"], [[0.2, 0.1, 0.3], [0.4, 0.2, 3.1]], ecut=4, a=[[6.0, 0.3, 0.1], [0.2, 6.5, 0.4], [0.5, 0.1, 7.0]], unrestricted=True)
        at.s = [7, 7, 9]
        scf = SCF(at, xc=xc, verbose="critical")
        scf.xc_params = dict(par)
        at = scf.atoms
        W = [np.asarray(w) for w in guess_random(scf)]
        D = [rnd(rng, *w.shape) for w in W]
        D = [d * np.linalg.norm(w) / np.linalg.norm(d) for w, d in zip(W, D)]

        def E(t, W=W, D=D, scf=scf):
            scf.W = [w + t * d for w, d in zip(W, D)]
            scf._precompute()
            return get_E(scf)

        num, est = fd_slope(E)
        scf.W = [w.copy() for w in W]
        scf._precompute()
        ana = sum(2 * np.real(np.vdot(np.asarray(get_grad(scf, ik, sp, scf.W, **scf._precomputed)), D[ik][sp])) for ik in range(at.kpts.Nk) for sp in range(2))
        plain = sum(2 * np.real(np.vdot(np.asarray(get_grad(scf, ik, sp, scf.W)), D[ik][sp])) for ik in range(at.kpts.Nk) for sp in range(2))
        # the parameters have an effect at all (otherwise the case shows nothing)
        scf0 = SCF(scf.atoms, xc=xc, verbose="critical")
        scf0.W = [w.copy() for w in W]
        scf0._precompute()
        if abs(get_E(scf0) - E(0.0)) < 1e-8:
            raise RuntimeError(f"harness: xc_params {par} do not change the energy of {xc}")
        worst = max(worst, fd_dev(ana, num, est) / abs(num), fd_dev(plain, num, est) / abs(num))
    return worst


def _register_coarse():
    register(Obligation(name="C01.total_energy.slope_eq_2Re_grad_D.functional_parameters", prop="C01", engine="B", bounded=True,
                        functions=["eminus.dft:get_grad", "eminus.dft:H_precompute", "eminus.xc.utils:get_vxc", "eminus.xc.utils:get_exc", "eminus.energies:get_Exc"],
                        run=BoundedNative(nat_grad_xc_params, 1, tol=2e-6, what="slope of the total energy vs 2 Re<grad, D> with SCF.xc_params set (PBE with PBEsol parameters, GDSMFB at T > 0), with and without pre-computed fields"),
                        budget={"quick": 300, "thorough": 600}, doc="BOUNDED: derivative relation with non-default functional parameters (energy and potential use the same parameters)"))
    for xc, tag in (("lda,vwn", "lda"), ("pbe", "pbe")):
        register(Obligation(name=f"C01.total_energy.slope_eq_2Re_grad_D.coarse_even_grid.{tag}", prop="C01", engine="B", bounded=True,
                            functions=["eminus.dft:get_grad", "eminus.dft:H", "eminus.gga:gradient_correction", "eminus.energies:get_E"],
                            run=BoundedNative(nat_grad_coarse_even_grid(xc), 1, tol=1e-6, what=f"slope of the total energy vs 2 Re<grad, D> on the coarse even sampling s = (6, 6, 8), xc = {xc}"),
                            budget={"quick": 200, "thorough": 400},
                            doc="BOUNDED: derivative relation on a coarse even FFT sampling (orbital products reach the Nyquist planes)"))


def _register_families():
    """The derivative relation per functional family and external potential (odd sampling (7, 7, 9), triclinic LiH, non-orthonormal W)."""
    cases = (("mgga_scan_unpol", ":MGGA_X_SCAN,:MGGA_C_SCAN", "gth", False, None),
             ("mgga_scan_pol", ":MGGA_X_SCAN,:MGGA_C_SCAN", "gth", True, None),
             ("mgga_tpss_pol_2k", ":MGGA_X_TPSS,:MGGA_C_TPSS", "gth", True, (2, 1, 1)),
             ("pbe_coulomb", "pbe", "coulomb", False, None),
             ("lda_harmonic_pol", "lda,chachiyo", "harmonic", True, None),
             ("pbesol_lr", "pbesol", "lr", False, None),
             ("lda_ge_2k", "lda,vwn", "ge", False, (1, 2, 1)))
    wk2 = ([[0.0, 0.0, 0.0], [0.2, 0.1, 0.05]], [0.3, 0.7])
    register(Obligation(name="C01.total_energy.slope_eq_2Re_grad_D.family.mgga_tpss_weighted_k", prop="C01", engine="B", bounded=True,
                        functions=["eminus.dft:get_grad", "eminus.gga:get_tau", "eminus.gga:calc_Vtau", "eminus.energies:get_E"],
                        run=BoundedNative(nat_grad_coarse_even_grid(":MGGA_X_TPSS,:MGGA_C_TPSS", s=(11, 11, 14), unrestricted=True, setk=wk2), 1, tol=1e-6,
                                          what="slope of the total energy vs 2 Re<grad, D>: TPSS, unrestricted, two k-points with weights (0.3, 0.7)"),
                        budget={"quick": 300, "thorough": 600}, doc="BOUNDED: derivative relation for a meta-GGA with unequal k-point weights (tau and its potential carry the same weights); default sampling (11, 11, 14): "
                            "on a coarser one aliasing gives grid points with tau < |grad n|^2 / (8 n) where Libxc clamps its inputs (1e-5 at (7, 7, 9) with unequal weights)"))
    for newpot in ("harmonic", "coulomb"):
        register(Obligation(name=f"C01.total_energy.slope_eq_2Re_grad_D.family.potential_switched_gth_to_{newpot}", prop="C01", engine="B", bounded=True,
                            functions=["eminus.dft:get_grad", "eminus.dft:H", "eminus.energies:get_Enonloc", "eminus.gth:calc_Vnonloc", "eminus.scf:SCF.pot"],
                            run=BoundedNative(nat_grad_coarse_even_grid("lda,vwn", s=(9, 9, 11), pot=newpot, unrestricted=True, species=("Si", "C"), switch_from="gth"), 1, tol=1e-6,
                                              what=f"slope of the total energy vs 2 Re<grad, D>: SCF created with GTH (Si, C: projectors), then pot = {newpot!r}"),
                            budget={"quick": 300, "thorough": 600}, doc="BOUNDED: derivative relation after the potential of an existing SCF object was switched (energy and H use the same set of terms)"))
    register(Obligation(name="C01.total_energy.slope_eq_2Re_grad_D.family.mgga_tpss_one_shifted_kpoint", prop="C01", engine="B", bounded=True,
                        functions=["eminus.dft:get_grad", "eminus.gga:get_tau", "eminus.gga:calc_Vtau", "eminus.energies:get_E"],
                        run=BoundedNative(nat_grad_coarse_even_grid(":MGGA_X_TPSS,:MGGA_C_TPSS", s=(11, 11, 14), unrestricted=False, setk=([[0.2, 0.1, 0.05]], [1.0])), 1, tol=1e-6,
                                          what="slope of the total energy vs 2 Re<grad, D>: TPSS, ONE k-point that is not Gamma"),
                        budget={"quick": 300, "thorough": 600}, doc="BOUNDED: derivative relation for a meta-GGA at a single shifted k-point (tau and its potential use G + k for every k-point set)"))
    # LiH has NO non-local projectors (lmax = 0 for both species): systems of two species that both carry projectors (Si: s, s, p; C: s) exercise the
    # species-dependent non-local term of H against the non-local energy
    for tag, sp, unres, km in (("nonlocal_SiC_pbe", ("Si", "C"), False, None), ("nonlocal_CSiC_lda_pol_2k", ("C", "Si", "C"), True, (2, 1, 1))):
        register(Obligation(name=f"C01.total_energy.slope_eq_2Re_grad_D.family.{tag}", prop="C01", engine="B", bounded=True,
                            functions=["eminus.dft:get_grad", "eminus.dft:H", "eminus.gth:calc_Vnonloc", "eminus.energies:get_Enonloc", "eminus.gth:init_gth_nonloc"],
                            run=BoundedNative(nat_grad_coarse_even_grid("pbe" if "pbe" in tag else "lda,vwn", s=(9, 9, 11), unrestricted=unres, kmesh=km, species=sp), 1, tol=1e-6,
                                              what=f"slope of the total energy vs 2 Re<grad, D>: species {sp} (non-local projectors of two species), unrestricted = {unres}, kmesh = {km}"),
                            budget={"quick": 300, "thorough": 600}, doc="BOUNDED: derivative relation with non-local projectors of two different species (H against the non-local energy)"))
    # channels with l >= 1 AND two or more projectors (Ca: s x 2, p x 2, d; Ge: s x 3, p x 2, d): the projector / m ordering of the stored columns matters
    for tag, sp, unres, xc in (("nonlocal_Ca_lda", ("Ca",), False, "lda,vwn"), ("nonlocal_GeC_pbe_pol", ("Ge", "C"), True, "pbe")):
        register(Obligation(name=f"C01.total_energy.slope_eq_2Re_grad_D.family.{tag}", prop="C01", engine="B", bounded=True,
                            functions=["eminus.dft:get_grad", "eminus.dft:H", "eminus.gth:calc_Vnonloc", "eminus.energies:get_Enonloc", "eminus.gth:init_gth_nonloc"],
                            run=BoundedNative(nat_grad_coarse_even_grid(xc, s=(9, 9, 11), unrestricted=unres, species=sp), 1, tol=1e-6,
                                              what=f"slope of the total energy vs 2 Re<grad, D>: species {sp} (several projectors in channels with l >= 1), unrestricted = {unres}"),
                            budget={"quick": 300, "thorough": 600}, doc="BOUNDED: derivative relation with several projectors per l >= 1 channel (coupled p projectors: ordering of the stored projector columns)"))
    for tag, xc, pot, unres, km in cases:
        # SCAN on the DEFAULT sampling (11, 11, 14): on a coarser one aliasing gives grid points with tau < |grad n|^2 / (8 n), where Libxc
        # clamps sigma to 8 n tau inside the functional (its derivatives are then not those of the clamped function: 2e-2 at (7, 7, 9),
        # 1e-10 at the default sampling; a property of the external library on unphysical input, not of eminus)
        smp = (11, 11, 14) if "SCAN" in xc else (7, 7, 9)
        register(Obligation(name=f"C01.total_energy.slope_eq_2Re_grad_D.family.{tag}", prop="C01", engine="B", bounded=True,
                            functions=["eminus.dft:get_grad", "eminus.dft:H", "eminus.gga:calc_Vtau", "eminus.gga:gradient_correction", "eminus.energies:get_E"],
                            run=BoundedNative(nat_grad_coarse_even_grid(xc, s=smp, pot=pot, unrestricted=unres, kmesh=km), 1, tol=1e-6,
                                              what=f"slope of the total energy vs 2 Re<grad, D>: xc = {xc}, pot = {pot}, unrestricted = {unres}, kmesh = {km}, s = {smp}"),
                            budget={"quick": 300, "thorough": 600},
                            doc="BOUNDED: derivative relation per functional family (meta-GGA through the Libxc bridge of PySCF) and external potential"))


def nat_volume_handedness(rng):
    """The cell volume that weights O (and with it the sign and size of the Hartree energy) is |det a| for right- AND left-handed lattice
    matrices; the Hartree energy is >= 0, equals 1/2 sum n phi_r |det a| / Ns and does not depend on the order of the lattice vectors."""
    import eminus
    from eminus import Atoms
    from eminus.dft import get_phi
    from eminus.energies import get_Ecoul

    eminus.config.backend = "numpy"
    eminus.config.verbose = "critical"
    a0 = np.array([[6.0, 0.4, 0.2], [0.3, 6.5, 0.5], [0.1, 0.6, 7.0]])
    e = 0.0
    ref = None
    for perm, flip in (((0, 1, 2), 1), ((1, 0, 2), 1), ((0, 1, 2), -1), ((2, 1, 0), 1), ((1, 2, 0), 1)):
        a = a0[list(perm)].copy()
        a[2] *= flip
        at = Atoms("He", [[0.1, 0.2, 0.3]], ecut=3, a=a)
        at.s = [8, 8, 8]
        at.build()
        det = abs(np.linalg.det(a))
        e = max(e, abs(float(at.Omega) - det) / det)
        # the same periodic function on every cell: a fixed combination of plane waves of the lattice
        r = np.asarray(at.r)
        b = 2 * np.pi * np.linalg.inv(a).T
        n = 1.5 + np.cos(r @ b[perm.index(0)]) + 0.5 * np.sin(r @ (b[perm.index(1)] * flip if perm.index(1) == 2 else b[perm.index(1)]))
        phi = get_phi(at, n)
        ec = float(get_Ecoul(at, n, phi))
        phir = np.real(np.asarray(at.I(phi)))
        half = 0.5 * float(np.sum(n * phir)) * det / at.Ns
        e = max(e, abs(ec - half) / max(1.0, abs(half)), max(0.0, -ec))
        if flip == 1:
            ref = ec if ref is None else ref
            e = max(e, abs(ec - ref) / max(1.0, abs(ref)))
    return e


register(Obligation(name="C11.cell_volume.abs_det_any_handedness", prop="C11", engine="B", bounded=True,
                    functions=["eminus.atoms:Atoms.a", "eminus.operators:O", "eminus.energies:get_Ecoul"],
                    run=BoundedNative(nat_volume_handedness, 1, tol=1e-10, what="Omega = |det a|, Ecoul >= 0, Ecoul = 1/2 sum n phi |det a| / Ns, for permuted and mirrored lattice vectors"),
                    doc="BOUNDED: the symbolic C11 / C03 obligations take Omega > 0 as given; here the setter of Atoms.a is held to Omega = |det a| for right- and left-handed "
                        "cells and the Hartree energy to its sign, its value and its independence of the order of the lattice vectors"))


def nat_grad_unocc(rng):
    """Empty-band minimisation at fixed Hamiltonian: slope of the band energy of the empty states vs 2 Re<get_grad_unocc, D>; open-shell
    system (Li, unrestricted: the minority channel of scf.Y holds a state with filling 0 that must not count as occupied), two k-points."""
    from eminus.band_minimizer import get_grad_unocc, scf_step_unocc

    scf, at = _native_scf(Nspin=2, xc="lda,pw", atom="Li")
    f = np.asarray(at.occ.f)
    if not (f == 0).any():
        raise RuntimeError("harness: no zero-filled state in scf.Y")
    scf._precompute()
    Z0 = [rnd(rng, 2, len(at.Gk2c[ik]), 2) for ik in range(at.kpts.Nk)]
    D = [rnd(rng, *z.shape) for z in Z0]
    D = [d * np.linalg.norm(z) / np.linalg.norm(d) for z, d in zip(Z0, D)]

    def E(t):
        return scf_step_unocc(scf, [z + t * d for z, d in zip(Z0, D)])

    slope, est = fd_slope(E)
    lin = 0
    for ik in range(at.kpts.Nk):
        for sp in range(2):
            g = get_grad_unocc(scf, ik, sp, Z0, **scf._precomputed)
            lin += 2 * np.real(np.sum(np.asarray(g).conj() * D[ik][sp]))
    return fd_dev(lin, slope, est) / max(1.0, abs(slope))


def nat_grad_without_kwargs(rng):
    """get_grad / H called WITHOUT pre-computed fields build them from the coefficients they are given - whatever the SCF object still
    holds from an earlier energy evaluation at other coefficients."""
    from eminus.dft import get_grad

    e = 0.0
    for xc in ("pbe", ":MGGA_X_TPSS,:MGGA_C_TPSS"):
        e = max(e, _nat_grad_without_kwargs(rng, xc))
    # non-default functional parameters (PBE form with the PBEsol mu / beta; VWN with another A): energy and potential both honour them
    e = max(e, _nat_grad_without_kwargs(rng, "pbe", dict(mu=10 / 81, beta=0.046)))
    return e


def _nat_grad_without_kwargs(rng, xc, xc_params=None):
    from eminus.dft import get_grad

    scf, at = _native_scf(Nspin=2, xc=xc, atom="He")
    if xc_params is not None:
        scf.xc_params = dict(xc_params)
    W0 = [np.asarray(w) for w in scf.W]
    W1 = [w + 0.2 * rnd(rng, *w.shape) for w in W0]
    scf.W = [w.copy() for w in W0]
    scf._precompute()  # the object now holds the fields of W0
    e = 0.0
    for ik in range(at.kpts.Nk):
        for sp in range(2):
            g_plain = np.asarray(get_grad(scf, ik, sp, W1))
            scf2_fields = None
            e = max(e, 0.0)
            keep = scf._precomputed
            scf.W = [w.copy() for w in W1]
            scf._precompute()
            g_ref = np.asarray(get_grad(scf, ik, sp, W1, **scf._precomputed))
            scf.W = [w.copy() for w in W0]
            scf._precompute()
            e = max(e, float(np.abs(g_plain - g_ref).max() / max(1e-12, np.abs(g_ref).max())))
    # the SAME list object that the SCF object holds, changed IN PLACE after the fields were pre-computed (what a user does who perturbs scf.W[ik][spin]):
    # the keyword-less call is handed scf.W itself and still has to build the fields from the coefficients as they are now
    from eminus import backend as xp

    scf.W = [xp.asarray(w.copy()) for w in W0]
    scf._precompute()
    held = scf.W
    for ik in range(at.kpts.Nk):
        held[ik][...] = xp.asarray(W1[ik])
    g_plain = [[np.asarray(get_grad(scf, ik, sp, held)) for sp in range(2)] for ik in range(at.kpts.Nk)]
    scf.W = [xp.asarray(w.copy()) for w in W1]
    scf._precompute()
    for ik in range(at.kpts.Nk):
        for sp in range(2):
            g_ref = np.asarray(get_grad(scf, ik, sp, scf.W, **scf._precomputed))
            e = max(e, float(np.abs(g_plain[ik][sp] - g_ref).max() / max(1e-12, np.abs(g_ref).max())))
    return e


class ReadsFrame:
    """Frame contract (reads): the attributes a function reads from one of its parameters are within an allowed set, and the parameter itself is
    handed on only to callees whose own frame is listed. Decided on the AST of the tree under check (every path: an attribute that is not
    mentioned cannot be read; getattr / vars / __dict__ on the parameter are rejected)."""

    def __init__(self, module, func, param, allowed, callees):
        self.module, self.func, self.param, self.allowed, self.callees = module, func, param, set(allowed), dict(callees)

    def scan(self, module, func, param, allowed, seen):
        import ast
        import os

        path = os.path.join(os.environ.get("EMINUS_REPO", "/repo"), *module.split(".")) + ".py"
        tree = ast.parse(open(path).read())
        fn = next((n for n in ast.walk(tree) if isinstance(n, ast.FunctionDef) and n.name == func), None)
        if fn is None:
            return [f"{module}:{func} not found"]
        bad = []
        for n in ast.walk(fn):
            if isinstance(n, ast.Attribute) and isinstance(n.value, ast.Name) and n.value.id == param and isinstance(n.ctx, ast.Load) and n.attr not in allowed:
                bad.append(f"{func} reads {param}.{n.attr} (line {n.lineno})")
            if isinstance(n, ast.Call):
                nm = ast.unparse(n.func)
                args = list(n.args) + [k.value for k in n.keywords]
                if any(isinstance(a, ast.Name) and a.id == param for a in args):
                    if nm in ("getattr", "vars", "hasattr") or nm.endswith("__dict__"):
                        bad.append(f"{func}: reflective access {nm}({param}, ...) (line {n.lineno})")
                    elif nm in self.callees:
                        cm, cf, cp, ca = self.callees[nm]
                        if (cm, cf) not in seen:
                            seen.add((cm, cf))
                            bad += self.scan(cm, cf, cp, set(ca), seen)
                    else:
                        bad.append(f"{func} hands {param} to {nm}, which has no reads-frame (line {n.lineno})")
            if isinstance(n, ast.Attribute) and n.attr == "__dict__" and isinstance(n.value, ast.Name) and n.value.id == param:
                bad.append(f"{func} reads {param}.__dict__ (line {n.lineno})")
        return bad

    def __call__(self, ob, tier, seed):
        bad = self.scan(self.module, self.func, self.param, self.allowed, {(self.module, self.func)})
        if bad:
            ok, info = self.replay({})
            return Result(REFUTED if ok else UNDECIDED, backend="ast-frame", witness=dict(reads=bad[:5]), replayed=ok, replay_info=info,
                          detail=f"{self.func}: reads outside its frame: {bad[0]}")
        return Result(DISCHARGED, backend="ast-frame", stats=dict(allowed=sorted(self.allowed)))

    def replay(self, wit):
        err = nat_grad_without_kwargs(np.random.default_rng(0))
        return bool(err > 1e-10), dict(check="get_grad without keyword fields after an evaluation at other coefficients", rel_err=float(err))


def _register_bounded3():
    register(Obligation(name="C01.H_precompute.reads_only_inputs", prop="C01", engine="Z", functions=["eminus.dft:H_precompute", "eminus.dft:H"],
                        run=ReadsFrame("eminus.dft", "H_precompute", "scf", ("atoms", "xc", "xc_type", "xc_params"), {}), assumes=("cpython",),
                        doc="frame: H_precompute(scf, W) reads scf.atoms / xc / xc_type / xc_params only - the fields it returns are a function of W and of these inputs, "
                            "never of what an earlier evaluation left in the SCF object"))
    register(Obligation(name="C01.band_energy.slope_eq_2Re_grad_unocc_D", prop="C01", engine="B", bounded=True,
                        functions=["eminus.band_minimizer:get_grad_unocc", "eminus.band_minimizer:scf_step_unocc", "eminus.dft:orth_unocc"],
                        run=BoundedNative(nat_grad_unocc, 2, tol=2e-6, what="slope of the empty-band energy vs 2 Re<get_grad_unocc, D>, open-shell Li (a zero-filled state in scf.Y), two k-points"),
                        budget={"quick": 200, "thorough": 900},
                        doc="BOUNDED stand-in: band-energy derivative relation of the empty-band minimisation (fixed Hamiltonian), occupied states selected by filling"))
    register(Obligation(name="C01.get_grad.fields_from_the_given_coefficients", prop="C01", engine="B", bounded=True,
                        functions=["eminus.dft:get_grad", "eminus.dft:H", "eminus.dft:H_precompute"],
                        run=BoundedNative(nat_grad_without_kwargs, 1, tol=1e-10, what="get_grad(scf, ik, spin, W1) without keyword fields vs the gradient with the fields of W1, after an evaluation at W0"),
                        budget={"quick": 200, "thorough": 600},
                        doc="BOUNDED: the keyword-less call builds the density-dependent fields from its own argument (no stale state of the SCF object enters)"))


def _nat_epsilon_unocc_case(rng, pick):
    """get_epsilon_unocc: ascending eigenvalues of D^H H D for D = orth_unocc(orth(W), Z); unchanged by invertible mixing of Z; never below the
    exact eigenvalues of H in the full cut-off basis (the j-th unoccupied value >= the j-th exact eigenvalue)."""
    from eminus.dft import H as Hn, get_epsilon_unocc, orth, orth_unocc

    # open-shell Li (different fillings per spin) on even seeds, closed-shell He treated unrestricted with DIFFERENT orbitals per spin channel
    # (identical fillings, the channels still are separate eigenvalue problems) on odd ones
    if pick == 0:
        scf, at = _native_scf(Nspin=2, xc="lda,pw", atom="Li")
        W = scf.W
    elif pick == 2:
        # H atom: the second spin channel holds NO occupied state (its unoccupied orbitals only have to be orthonormal among themselves)
        scf, at = _native_scf(Nspin=2, xc="lda,pw", atom="H")
        W = scf.W
    else:
        scf, at = _native_scf(Nspin=2, xc="lda,pw", atom="He")
        W = [rnd(rng, 2, len(at.Gk2c[ik]), at.occ.Nstate) for ik in range(at.kpts.Nk)]
    scf._precompute()
    pre = scf._precomputed
    Z = [rnd(rng, 2, len(at.Gk2c[ik]), 3) for ik in range(at.kpts.Nk)]
    eps = np.asarray(get_epsilon_unocc(scf, W, Z, **pre))
    Zm = [z @ (np.eye(3) + 0.4 * rnd(rng, 3, 3)) for z in Z]
    eps2 = np.asarray(get_epsilon_unocc(scf, W, Zm, **pre))
    err = float(np.abs(eps - eps2).max())
    err = max(err, float(np.abs(eps - np.asarray(get_epsilon_unocc(scf, W, [0.1 * z for z in Zm], **pre))).max()))
    Dm = orth_unocc(at, orth(at, W), Zm)
    for ik in range(at.kpts.Nk):
        for sp in range(2):
            d = np.asarray(Dm[ik][sp])
            err = max(err, float(np.abs(d.conj().T @ np.asarray(at.O(d)) - np.eye(d.shape[-1])).max()))
    err = max(err, float(np.max(np.diff(eps, axis=-1) < -1e-12)))
    D = orth_unocc(at, orth(at, W), Z)
    for ik in range(at.kpts.Nk):
        n = len(at.Gk2c[ik])
        for sp in range(2):
            d = np.asarray(D[ik][sp])
            mu = d.conj().T @ np.asarray(Hn(scf, ik, sp, D, **pre))
            err = max(err, float(np.abs(np.linalg.eigvalsh((mu + mu.conj().T) / 2) - eps[ik, sp]).max()))
            E = [np.stack([np.eye(n, dtype=complex)] * 2)] * at.kpts.Nk
            Hm = np.asarray(Hn(scf, ik, sp, E, **pre)) / at.Omega
            exact = np.linalg.eigvalsh((Hm + Hm.conj().T) / 2)
            err = max(err, float(np.max(exact[:3] - eps[ik, sp] > 1e-10)))
    return err


def nat_epsilon_unocc(rng):
    """All three systems: open-shell Li, closed-shell He with different orbitals per channel, H with an empty spin channel."""
    return max(_nat_epsilon_unocc_case(rng, pick) for pick in (0, 1, 2))


register(Obligation(name="C05.get_epsilon_unocc.ascending_subspace_eigenvalues", prop="C05", engine="B", bounded=True,
                    functions=["eminus.dft:get_epsilon_unocc", "eminus.dft:orth_unocc", "eminus.dft:H"],
                    run=BoundedNative(nat_epsilon_unocc, 2, tol=1e-8, what="eigenvalues of the unoccupied subspace: ascending, those of D^H H D, unchanged by mixing / scaling Z, not below the exact ones; D orthonormal (Li / He / H with an empty channel, unrestricted, 2 k-points)"),
                    budget={"quick": 200, "thorough": 600},
                    doc="BOUNDED: get_epsilon_unocc returns the ascending eigenvalues of the subspace Hamiltonian of the orthonormalised unoccupied orbitals"))


register(Obligation(name="C11.get_phi.native_grids_and_single_kpoint", prop="C11", engine="B", bounded=True, functions=["eminus.dft:get_phi", "eminus.operators:J", "eminus.operators:Linv", "eminus.atoms:Atoms._sample_unit_cell"],
                    run=BoundedNative(nat_phi, 1, tol=1e-10, what="|G|^2 phi_G = 4 pi n_G against an explicit Fourier sum, single cosine, zero mean, linearity: samplings (6,5,4), (4,5,7), (6,8,10) and one shifted k-point"),
                    doc="BOUNDED: the Poisson identity evaluated natively on anisotropic even / odd samplings and for a single shifted k-point (the symbolic proof takes |G|^2 and the transforms by contract)"))


def nat_H_hermitian_ionic_only(rng):
    """Kinetic + local ionic + non-local part of H alone (Hartree field and xc potential set to zero) on a COARSE EVEN sampling of a triclinic cell with
    atoms away from grid points: Hermitian to round-off, for every built-in external potential (the local potential handed to H is real)."""
    import eminus
    from eminus import SCF, Atoms
    from eminus.dft import H as Hn

    eminus.config.backend = "numpy"
    eminus.config.verbose = "critical"
    e = 0.0
    for pot in ("gth", "coulomb", "lr", "harmonic", "ge"):
        at = Atoms(["Li", "H"], [[0.31, 0.17, 0.23], [0.45, 1.1, 2.9]], ecut=4, a=[[6.0, 0.3, 0.1], [0.2, 6.5, 0.4], [0.5, 0.1, 7.0]], unrestricted=True)
        at.s = [6, 6, 8]
        at.kpts.kmesh = [2, 1, 1]
        scf = SCF(at, pot=pot, verbose="critical")
        at = scf.atoms
        e = max(e, float(np.abs(np.imag(np.asarray(scf.Vloc))).max()))
        zero_phi = np.zeros(at.Ns, dtype=complex)
        zero_v = np.zeros((2, at.Ns))
        for ik in range(at.kpts.Nk):
            A_ = [rnd(rng, 2, len(at.Gk2c[k]), 2) for k in range(at.kpts.Nk)]
            B_ = [rnd(rng, 2, len(at.Gk2c[k]), 2) for k in range(at.kpts.Nk)]
            for sp in range(2):
                l = A_[ik][sp].conj().T @ np.asarray(Hn(scf, ik, sp, B_, dn_spin=None, phi=zero_phi, vxc=zero_v, vsigma=None, vtau=None))
                r = np.asarray(Hn(scf, ik, sp, A_, dn_spin=None, phi=zero_phi, vxc=zero_v, vsigma=None, vtau=None)).conj().T @ B_[ik][sp]
                e = max(e, float(np.abs(l - r).max() / max(1.0, np.abs(l).max())))
    return e


register(Obligation(name="C05.H.hermitian_native.ionic_part_coarse_even_grid", prop="C05", engine="B", bounded=True,
                    functions=["eminus.dft:H", "eminus.gth:init_gth_loc", "eminus.potentials:coulomb", "eminus.potentials:coulomb_lr", "eminus.potentials:harmonic", "eminus.gth:calc_Vnonloc"],
                    run=BoundedNative(nat_H_hermitian_ionic_only, 1, tol=1e-10, what="Hermiticity of kinetic + local ionic + non-local terms (phi = vxc = 0) and Im Vloc = 0, five external potentials, coarse even sampling"),
                    doc="BOUNDED: the ionic part of H is Hermitian on a coarse even sampling (the open finding on such samplings concerns the Hartree / xc part only); Vloc is real"))


def nat_hermitian_even_grid_gga(rng):
    """H on the default (even) FFT grid with a GGA: |<a|Hb> - <Ha|b>| relative to |<a|Hb>|."""
    import eminus
    from eminus import SCF, Atoms
    from eminus.dft import H as Hn, H_precompute

    eminus.config.backend = "numpy"
    at = Atoms("He", [[0.0, 0.0, 0.0]], ecut=5, a=6.0)
    scf = SCF(at, xc="pbe", opt={"sd": 2}, verbose="critical")
    scf.run()
    at = scf.atoms
    dn, phi, vxc, vs, vt = H_precompute(scf, scf.W)
    A_ = [rnd(rng, 1, len(at.Gk2c[0]), 1)]
    B_ = [rnd(rng, 1, len(at.Gk2c[0]), 1)]
    l = A_[0][0].conj().T @ Hn(scf, 0, 0, B_, dn, phi, vxc, vs, vt)
    r = Hn(scf, 0, 0, A_, dn, phi, vxc, vs, vt).conj().T @ B_[0][0]
    return float(np.abs(l - r).max() / np.abs(l).max())


def _register_even_grid():
    register(Obligation(name="C05.H.hermitian_native.pbe_default_even_grid", prop="C05", engine="B", bounded=True,
                        functions=["eminus.dft:H", "eminus.gga:gradient_correction"],
                        run=BoundedNative(nat_hermitian_even_grid_gga, 1, tol=1e-9,
                                          what="Hermiticity of H for He/PBE on the default FFT grid (s even)"),
                        doc="BOUNDED stand-in: <a|Hb> = <Ha|b> natively for a GGA on the default (even) grid"))


_register_bounded()
_register_bounded2()
_register_bounded3()
_register_coarse()
_register_families()
_register_even_grid()


# ------------------------------------------------------------------------------------------------
# C11: the Hartree field / energy an SCF object stores belong to the density it stores
# ------------------------------------------------------------------------------------------------


def nat_stored_field(rng):
    """After run() (stopped after a few steps; smeared and fixed fillings, one and two spin channels, one and two k-points, three schemes) the stored
    scf.phi is the Hartree field of the stored scf.n and scf.energies.Ecoul = get_Ecoul(atoms, scf.n) = 1/2 int n phi[n]."""
    import eminus
    from eminus import SCF, Atoms
    from eminus.dft import get_phi
    from eminus.energies import get_Ecoul

    eminus.config.backend = "numpy"
    eminus.config.verbose = "critical"
    worst = 0.0
    for unres, opt, kmesh, smearing in ((False, {"pccg": 3}, [2, 1, 1], 5e-2), (False, {"auto": 4}, [1, 1, 2], 2e-2), (True, {"sd": 3}, [1, 1, 1], 1e-2),
                                        (True, {"pccg": 4}, [2, 1, 1], 5e-2), (False, {"pccg": 3}, [1, 1, 1], 0), (False, {"lm": 2, "pccg": 2}, [1, 1, 1], 3e-2)):
        at = Atoms(["Li", "Li"], [[0.1, 0.2, 0.3], [2.9, 3.1, 3.3]], ecut=4, a=[[6.5, 0.2, 0.0], [0.1, 6.0, 0.3], [0.0, 0.4, 6.2]], unrestricted=unres)
        at.s = [9, 9, 9]
        at.kpts.kmesh = kmesh
        if smearing:
            at.occ.smearing = smearing
            at.occ.bands = 4
        scf = SCF(at, xc="lda,vwn", guess="random", etol=1e-14, opt=opt, verbose="critical")
        scf.run()
        at = scf.atoms
        n = np.asarray(scf.n)
        ref = np.asarray(get_phi(at, scf.n))
        e = float(np.abs(np.asarray(scf.phi) - ref).max() / max(1e-30, np.abs(ref).max()))
        phir = np.real(np.asarray(at.I(get_phi(at, scf.n))))
        E_int = 0.5 * float(np.sum(n * phir)) * float(at.Omega) / len(phir)
        e = max(e, abs(float(scf.energies.Ecoul) - E_int) / abs(E_int), abs(float(get_Ecoul(at, scf.n)) - E_int) / abs(E_int))
        worst = max(worst, e)
    # after SCF.recenter by a vector that is not a grid vector (coarse even sampling: the shifted density is the real part of a shifted field):
    # whatever Hartree field the object holds afterwards is the field of the density it holds
    at = Atoms(["Li", "H"], [[1.0, 1.2, 0.9], [1.3, 1.1, 3.9]], ecut=4, a=[10.0, 9.0, 8.0])
    at.s = [12, 12, 10]
    scf = SCF(at, xc="lda,vwn", opt={"pccg": 4}, etol=1e-14, verbose="critical")
    scf.run()
    scf.recenter(center=[4.1, 3.3, 2.7])
    if scf.phi is not None and scf.n is not None:
        ref = np.asarray(get_phi(scf.atoms, scf.n))
        worst = max(worst, float(np.abs(np.asarray(scf.phi) - ref).max() / np.abs(ref).max()))
    return worst


register(Obligation(name="C11.scf.stored_field_and_energy_belong_to_stored_density", prop="C11", engine="B", bounded=True,
                    functions=["eminus.minimizer:scf_step", "eminus.scf:SCF._precompute", "eminus.dft:get_phi", "eminus.energies:get_Ecoul"],
                    run=BoundedNative(nat_stored_field, 1, tol=1e-10, what="stored scf.phi / Ecoul vs the field and Hartree energy of the stored scf.n after short runs (smeared / fixed fillings, spin, k-points)"),
                    budget={"quick": 300, "thorough": 600},
                    doc="BOUNDED: after run() the stored Hartree field solves the Poisson equation for the stored density and the stored Ecoul is 1/2 <n, phi[n]> (six short runs)"))


def nat_grad_occ_ionic_coarse(rng):
    """Fixed-Hamiltonian band energy with the IONIC Hamiltonian alone (kinetic + local + non-local; Hartree field and xc potential set to zero, so the
    open finding about the complex Hartree / xc image on coarse even samplings does not enter): slope of the band energy at orthonormal W vs
    2 Re<get_grad_occ, D>, coarse even sampling (6, 6, 8), atoms away from grid points, every built-in external potential, two spin channels, two k-points."""
    import eminus
    from eminus import SCF, Atoms
    from eminus.band_minimizer import get_grad_occ, scf_step_occ
    from eminus.dft import orth

    eminus.config.backend = "numpy"
    eminus.config.verbose = "critical"
    worst = 0.0
    for pot in ("gth", "coulomb", "lr", "harmonic", "ge"):
        at = Atoms(["Li", "H"], [[0.31, 0.17, 0.23], [0.45, 1.1, 2.9]], ecut=4, a=[[6.0, 0.3, 0.1], [0.2, 6.5, 0.4], [0.5, 0.1, 7.0]], unrestricted=True)
        at.s = [6, 6, 8]
        at.kpts.kmesh = [2, 1, 1]
        scf = SCF(at, pot=pot, verbose="critical")
        at = scf.atoms
        scf._precomputed = dict(dn_spin=None, phi=np.zeros(at.Ns, dtype=complex), vxc=np.zeros((2, at.Ns)), vsigma=None, vtau=None)
        W0 = [np.asarray(w) for w in orth(at, [rnd(rng, 2, len(at.Gk2c[ik]), at.occ.Nstate) for ik in range(at.kpts.Nk)])]
        D = [rnd(rng, *w.shape) for w in W0]
        D = [d * np.linalg.norm(w) / np.linalg.norm(d) for w, d in zip(W0, D)]

        def E(t, W0=W0, D=D, scf=scf):
            return scf_step_occ(scf, [w + t * d for w, d in zip(W0, D)])

        slope, est = fd_slope(E)
        lin = 0
        for ik in range(at.kpts.Nk):
            for sp in range(2):
                lin += 2 * np.real(np.sum(np.asarray(get_grad_occ(scf, ik, sp, W0, **scf._precomputed)).conj() * D[ik][sp]))
        worst = max(worst, fd_dev(lin, slope, est) / max(1.0, abs(slope)))
    return worst


register(Obligation(name="C01.band_energy.slope_eq_2Re_grad_occ_D.ionic_hamiltonian_coarse_even_grid", prop="C01", engine="B", bounded=True,
                    functions=["eminus.band_minimizer:get_grad_occ", "eminus.dft:H", "eminus.gth:init_gth_loc", "eminus.potentials:coulomb", "eminus.potentials:ge", "eminus.potentials:harmonic"],
                    run=BoundedNative(nat_grad_occ_ionic_coarse, 1, tol=2e-6, what="slope of the band energy vs 2 Re<get_grad_occ, D> with the ionic Hamiltonian alone, coarse even sampling, five external potentials"),
                    budget={"quick": 300, "thorough": 600},
                    doc="BOUNDED: band-energy derivative relation with the ionic part of H on a coarse even sampling with atoms off the grid (a complex local potential breaks it)"))


# ------------------------------------------------------------------------------------------------
# C11 / C05: fields built by H_precompute for slightly changed orbitals; H column by column for many columns
# ------------------------------------------------------------------------------------------------


def nat_precompute_small_change(rng):
    """An SCF object that holds the fields of its converged orbitals; H_precompute for orbitals that differ from them by a relative 1e-8 ... 1e-3: the
    Hartree field it returns is the field of THAT density (to round-off, not to the size of the change) and the difference to the stored field is the
    field of the density difference (linearity)."""
    import eminus
    from eminus import SCF, Atoms
    from eminus.dft import H_precompute, get_n_total, get_phi, orth

    eminus.config.backend = "numpy"
    eminus.config.verbose = "critical"
    at = Atoms("He", [[0.1, 0.2, 0.3]], ecut=4, a=[[8.0, 0.3, 0.0], [0.0, 9.0, 0.2], [0.1, 0.0, 10.0]])
    scf = SCF(at, xc="lda,vwn", opt={"pccg": 25}, etol=1e-10, verbose="critical")
    scf.run()
    at = scf.atoms
    W0 = [np.asarray(w).copy() for w in scf.W]
    phi0 = np.asarray(get_phi(at, get_n_total(at, orth(at, W0))))
    worst = 0.0
    for eps in (1e-8, 1e-6, 1e-4, 1e-3):
        W1 = [w + eps * np.linalg.norm(w) / np.sqrt(w.size) * rnd(rng, *w.shape) for w in W0]
        phi = np.asarray(H_precompute(scf, W1)[1])
        n1 = get_n_total(at, orth(at, W1))
        want = np.asarray(get_phi(at, n1))
        worst = max(worst, float(np.abs(phi - want).max() / np.abs(want).max()))
        dphi = np.asarray(get_phi(at, np.asarray(n1) - np.asarray(get_n_total(at, orth(at, W0)))))
        worst = max(worst, float(np.abs((phi - phi0) - dphi).max() / np.abs(want).max()))
    return worst


register(Obligation(name="C11.H_precompute.field_of_the_given_orbitals_small_changes", prop="C11", engine="B", bounded=True,
                    functions=["eminus.dft:H_precompute", "eminus.dft:get_phi"],
                    run=BoundedNative(nat_precompute_small_change, 1, tol=1e-13, what="Hartree field from H_precompute for orbitals 1e-8 .. 1e-3 away from the ones whose fields the SCF object stores"),
                    budget={"quick": 300, "thorough": 600},
                    doc="BOUNDED: the Hartree field that enters H is the exact field of the density of the GIVEN orbitals also when they nearly coincide with stored ones"))


def nat_H_many_columns(rng):
    """H applied to a block of n orbitals (n = 1 ... 40, not multiples of typical block sizes) equals H applied to every orbital alone, column by column: LDA
    with GTH projectors and (with PySCF) a meta-GGA, two spin channels, two k-points."""
    import eminus
    from eminus import SCF, Atoms
    from eminus.dft import H as Hn, H_precompute

    eminus.config.backend = "numpy"
    eminus.config.verbose = "critical"
    xcs = ["lda,vwn"]
    try:
        import pyscf  # noqa: F401

        xcs.append(":MGGA_X_TPSS,:MGGA_C_TPSS")
    except ImportError:
        pass
    worst = 0.0
    for xc in xcs:
        at = Atoms(["Si", "H"], [[0.5, 0.6, 0.4], [2.9, 3.0, 3.3]], ecut=3, a=[[6.0, 0.3, 0.1], [0.2, 6.5, 0.4], [0.5, 0.1, 7.0]], unrestricted=True)
        at.set_k([[0.0, 0.0, 0.0], [0.2, 0.1, 0.05]], [0.4, 0.6])
        scf = SCF(at, xc=xc, opt={"sd": 1}, verbose="critical")
        scf.run()
        at = scf.atoms
        pre = dict(zip(("dn_spin", "phi", "vxc", "vsigma", "vtau"), H_precompute(scf, scf.W)))
        for n in (1, 7, 9, 12, 17, 20, 33, 40):
            W = [rnd(rng, 2, len(at.Gk2c[ik]), n) for ik in range(at.kpts.Nk)]
            for ik in range(at.kpts.Nk):
                for sp in range(2):
                    full = np.asarray(Hn(scf, ik, sp, W, **pre))
                    for j in sorted({0, n // 2, n - 1}):
                        Wj = [w[:, :, j:j + 1] for w in W]
                        one = np.asarray(Hn(scf, ik, sp, Wj, **pre))
                        worst = max(worst, float(np.abs(full[:, j:j + 1] - one).max() / max(1e-30, np.abs(one).max())))
    return worst


register(Obligation(name="C05.H.column_by_column_for_many_orbitals", prop="C05", engine="B", bounded=True,
                    functions=["eminus.dft:H", "eminus.gga:calc_Vtau", "eminus.gga:gradient_correction", "eminus.gth:calc_Vnonloc"],
                    run=BoundedNative(nat_H_many_columns, 1, tol=1e-10, what="H of a block of 1 ... 40 orbitals vs H of every orbital alone (LDA + GTH, TPSS)"),
                    budget={"quick": 300, "thorough": 600},
                    doc="BOUNDED: H acts column by column (additivity over the orbitals of a block) for blocks of up to 40 orbitals, every term of H"))


def nat_spectrum_left_handed(rng):
    """get_psi / get_epsilon in cells whose lattice vectors form a LEFT-handed set (the same physical lattices): eigenstates are orthonormal in the overlap metric
    (psi^H O psi = +1), diagonalise the Hamiltonian in their span, and the eigenvalues of a random trial set lie above the exact lowest eigenvalues of the same
    Hamiltonian in the full cut-off basis (Rayleigh-Ritz), GTH and harmonic potentials, one shifted k-point."""
    import eminus
    from eminus import SCF, Atoms
    from eminus.dft import H as Hn, get_epsilon, get_psi

    eminus.config.backend = "numpy"
    eminus.config.verbose = "critical"
    err = 0.0
    for a in (np.array([[6.0, 0.0, 0.0], [0.0, 0.0, 6.0], [0.0, 6.0, 0.0]]), np.array([[0.2, 5.5, 0.4], [5.0, 0.3, 0.1], [0.5, 0.1, 6.0]])):
        if np.linalg.det(a) >= 0:
            raise RuntimeError("harness: the cell is not left-handed")
        for atom, pot, unres in (("He", "gth", False), ("H", "harmonic", True)):
            at = Atoms(atom, [[0.4, 0.3, 0.2]], ecut=2, a=a, unrestricted=unres)
            at.set_k([[0.12, -0.05, 0.2]], [1.0])
            scf = SCF(at, xc="lda,vwn", pot=pot, verbose="critical")
            at = scf.atoms
            ns = at.occ.Nspin
            nb = len(at.Gk2c[0])
            W = [rnd(rng, ns, nb, 3)]
            scf.W = W
            scf._precompute()
            pre = scf._precomputed
            psi = get_psi(scf, W, **pre)
            eps = np.asarray(get_epsilon(scf, W, **pre))
            full = [np.stack([np.eye(nb, dtype=complex)] * ns)]
            for s in range(ns):
                p = np.asarray(psi[0][s])
                err = max(err, float(np.abs(p.conj().T @ np.asarray(at.O(p)) - np.eye(3)).max()))
                sub = p.conj().T @ np.asarray(Hn(scf, 0, s, psi, **pre))
                err = max(err, float(np.abs(sub - np.diag(np.diag(sub))).max()), float(np.abs(np.sort(np.diag(sub).real) - eps[0, s]).max()))
                Hm = np.asarray(Hn(scf, 0, s, full, **pre))
                exact = np.linalg.eigvalsh((Hm + Hm.conj().T) / 2)[:3] / abs(np.linalg.det(a))
                err = max(err, float(max(0.0, np.max(exact - eps[0, s]))))
    return err


register(Obligation(name="C05.get_psi_get_epsilon.left_handed_cells", prop="C05", engine="B", bounded=True,
                    functions=["eminus.dft:get_psi", "eminus.dft:get_epsilon", "eminus.dft:orth", "eminus.operators:O", "eminus.atoms:Atoms.a"],
                    run=BoundedNative(nat_spectrum_left_handed, 1, tol=1e-9, what="eigenstates orthonormal, H diagonal in their span, eigenvalues above the exact ones, in left-handed cells (He / GTH, H / harmonic potential)"),
                    budget={"quick": 300, "thorough": 600},
                    doc="BOUNDED: orthonormal eigenstates and the variational bound eps >= exact eigenvalues in cells with a negative determinant of the lattice matrix"))


# ------------------------------------------------------------------------------------------------
# writes-frame of eminus.dft / eminus.gga (AST; shared rule in contracts/frame_common.py)
# ------------------------------------------------------------------------------------------------
from contracts.frame_common import WritesFrame  # noqa: E402

for _prop, _what in (("C01", "the coefficients W, the pre-computed fields and the SCF object handed to get_grad / H / H_precompute / Q are left as they are: the gradient is a function of its arguments"),
                     ("C04", "orth / orth_unocc / get_n_spin / get_n_total / get_n_single / get_tau leave the coefficient arrays and the Atoms object they are handed untouched")):
    register(Obligation(name=f"{_prop}.dft_gga.writes_frame", prop=_prop, engine="Z", run=WritesFrame(("eminus.dft", "eminus.gga")), assumes=("cpython",),
                        functions=["eminus.dft:get_grad", "eminus.dft:H", "eminus.dft:H_precompute", "eminus.dft:Q", "eminus.dft:orth", "eminus.dft:orth_unocc", "eminus.dft:get_n_spin",
                                   "eminus.dft:get_n_total", "eminus.dft:get_n_single", "eminus.gga:get_tau", "eminus.gga:calc_Vtau", "eminus.gga:gradient_correction", "eminus.gga:get_grad_field"],
                        doc="frame (writes): no function of eminus.dft / eminus.gga stores in place into a parameter or a possible view of one: " + _what))
