"""C14 - SCF driver contract (engine Z).

The real minimiser functions (sd, pclm/lm, pccg/cg, auto) and check_convergence are executed symbolically with
  * `cost` a ghost-counting stub (every call increments scf.__evals, returns a fresh energy and records the coefficient
    array it was evaluated for),
  * `grad`, the preconditioner and the dot products uninterpreted,
  * one k-point / one spin channel (the inner loops are unrolled), a symbolic iteration cap Nit >= 1, a loop invariant over
    the outer iteration.
Post-conditions per minimiser:
  evals <= Nit and len(costs) <= Nit;  is_converged set by this call  =>  len(costs) >= 2 and |E[-1] - E[-2]| < etol;
  on the converged exit the stored coefficients are the ones the last energy evaluation saw (nothing was assigned to scf.W
  after the last cost call), so the stored orbitals / density / energies belong to the returned W.
SCF.run: returns energies.Etot; Energy.Etot is the sum of the dataclass fields.
"""

from __future__ import annotations

import ast

import numpy as np
import z3

from contracts.state_common import clone
from pycv.framework import DISCHARGED, REFUTED, UNDECIDED, Obligation, Result, register
from pycv.wp.execute import LoopSpec
from pycv.wp.explore import check_valid, explore, named
from pycv.wp.interp import Obj, OutsideSubset, PyRaise, Sym, Val, World
from pycv.wp.numext import NUM_EXT, AbsList

PROP = "C14"


def make_scf(w, gradtol):
    S = w.module("eminus.scf").get_class("SCF")
    A_ = w.module("eminus.atoms").get_class("Atoms")
    K = w.module("eminus.kpoints").get_class("KPoints")
    O = w.module("eminus.occupations").get_class("Occupations")
    k = Obj(K, dict(_Nk=1))
    o = Obj(O, dict(_Nspin=1, _smearing=0))
    at = Obj(A_, dict(kpts=k, occ=o))
    scf = Obj(S, {})
    f = scf.fields
    f["_atoms"] = at
    f["W"] = named(w, "W0")
    f["is_converged"] = named(w, "conv0", "bool")
    f["etol"] = named(w, "etol", "real")
    f["gradtol"] = named(w, "gradtol", "real") if gradtol else None
    f["_precomputed"] = {}
    f["_log"] = named(w, "log")
    f["__evals"] = 0
    f["__Wcost"] = None
    return scf


def ext_handlers(w):
    ext = dict(NUM_EXT)

    def cost(it, args, kwargs):
        scf = args[0]
        ev = scf.fields["__evals"]
        scf.fields["__evals"] = it.binop(ast.Add, ev, 1)
        scf.fields["__Wcost"] = scf.fields["W"]
        return it.w.fresh("E", "real")

    def grad(it, args, kwargs):
        scf, ik, spin, W = args[:4]
        return it.w.uf("grad", [ik, spin, W], "val")

    ext["func:scf_step"] = cost
    ext["func:get_grad"] = grad
    ext["func:print_scf_step"] = lambda it, a, k: None
    ext["func:SCF._precompute"] = lambda it, a, k: None
    ext["func:SCF.callback"] = lambda it, a, k: None
    ext["func:dotprod"] = lambda it, a, k: it.w.uf("dotprod", a, "real")
    ext["func:K"] = lambda it, a, k: it.w.uf("K", a[1:], "val")
    ext["func:linmin_test"] = lambda it, a, k: it.w.uf("linmin_test", a, "real")
    ext["func:cg_test"] = lambda it, a, k: it.w.uf("cg_test", a[1:], "real")
    ext["copy.deepcopy"] = lambda it, a, k: a[0]
    return ext


def _z(v, kind="int"):
    if isinstance(v, Sym):
        return v.e
    if isinstance(v, bool):
        return z3.BoolVal(v)
    return z3.IntVal(int(v)) if kind == "int" else z3.RealVal(v)


def loop_spec(w, first_eval):
    """Invariant of the outer iteration loop: after idx completed iterations without convergence
         evals == evals0 + first_eval + idx,  len(costs) == first_eval + idx,  is_converged unchanged."""

    def havoc_scf(it, env, tag):
        scf = env["scf"]
        scf.fields["W"] = it.w.fresh(f"W{tag}", "val")
        scf.fields["__evals"] = it.w.fresh(f"evals{tag}", "int")
        scf.fields["__Wcost"] = it.w.fresh(f"Wc{tag}", "val")
        scf.fields["is_converged"] = it.w.fresh(f"conv{tag}", "bool")
        return None

    def havoc_costs(it, env, tag):
        return AbsList.fresh(it.w, f"costs{tag}")

    def havoc_val(name):
        def f(it, env, tag):
            return it.w.fresh(f"{name}{tag}", "val")

        return f

    def inv(it, env, idx):
        scf = env["scf"]
        costs = env["costs"]
        n = costs.n if isinstance(costs, AbsList) else z3.IntVal(len(costs))
        ev = _z(scf.fields["__evals"])
        conv = scf.fields["is_converged"]
        conv = conv.e if isinstance(conv, Sym) else z3.BoolVal(bool(conv))
        return z3.And(ev == first_eval + idx, n == first_eval + idx, conv == z3.Bool("conv0"))

    vars_ = {"scf.state": havoc_scf, "costs": havoc_costs}
    # every other local the loop body assigns is havocked by the engine (independent of the names the code uses for its temporaries)
    return LoopSpec(vars_, inv, havoc_assigned=True)


MINIMISERS = {
    # name: (function, first evaluation before the loop, loop header, kwargs)
    "sd": ("sd", 0, ("for", "range(Nit)", "*"), {}),
    "pclm": ("pclm", 0, ("for", "range(Nit)", "*"), {}),
    "lm": ("lm", 0, ("for", "range(Nit)", "*"), {}),
    "pccg": ("pccg", 1, ("for", "range(1, Nit)", "*"), {}),
    "cg": ("cg", 1, ("for", "range(1, Nit)", "*"), {}),
    "auto": ("auto", 1, ("for", "range(1, Nit)", "*"), {}),
}


class Minimiser:
    def __init__(self, name, gradtol=False, clause="evaluations"):
        self.name, self.gradtol, self.clause = name, gradtol, clause

    def __call__(self, ob, tier, seed):
        try:
            return self.prove(ob, tier, seed)
        except (OutsideSubset, TypeError, AttributeError, KeyError, ValueError, IndexError, z3.Z3Exception) as e:
            wit = dict(minimiser=self.name, gradtol=self.gradtol)
            ok, info = self.replay(wit)
            if ok:
                return Result(REFUTED, backend="native-contract-evaluation", witness=wit, replayed=True, replay_info=info,
                              detail=f"{self.name}: contract violated natively (symbolic run left the subset: {type(e).__name__}: {e})")
            return Result(UNDECIDED, backend="engine-Z", detail=f"outside subset: {type(e).__name__}: {e}")

    def prove(self, ob, tier, seed):
        fname, first, header, kw = MINIMISERS[self.name]
        w = World()
        m = w.module("eminus.minimizer")
        scf0 = make_scf(w, self.gradtol)
        Nit = named(w, "Nit", "int")
        ext = ext_handlers(w)
        specs = {header: loop_spec(w, first)}
        base = [Nit.e >= 1, scf0.fields["etol"].e > 0]

        def run(it):
            scf = clone(scf0)
            f = it.lookup_global(fname, m)
            costs = it.call(f, [scf, Nit], dict(kw))
            return costs, scf

        try:
            res = explore(w, run, assumptions=base, ext=ext, loop_specs=specs, max_paths=4000)
        except (OutsideSubset, TypeError, AttributeError, KeyError, ValueError, IndexError, z3.Z3Exception) as e:
            wit = dict(minimiser=self.name, gradtol=self.gradtol)
            ok, info = self.replay(wit)
            if ok:
                return Result(REFUTED, backend="native-contract-evaluation", witness=wit, replayed=True, replay_info=info,
                              detail=f"{self.name}: contract violated natively (symbolic run left the subset: {type(e).__name__}: {e})")
            return Result(UNDECIDED, backend="engine-Z", detail=f"outside subset: {type(e).__name__}: {e}")
        nobl = 0
        for r in res:
            # loop obligations (invariant entry / preservation) and index obligations
            for label, pc, formula in r.interp.obligations:
                if label == "division by zero":
                    continue  # float division (dotprod never returns zero by construction); not part of this contract
                if self.clause != "evaluations" and "invariant" in label:
                    continue  # the counting invariant belongs to the `evaluations` clause
                v, model = check_valid(w, pc, formula)
                nobl += 1
                if v == "proved":
                    continue
                if v == "unknown":
                    return Result(UNDECIDED, backend="z3", detail=f"{label}: z3 unknown")
                return self.refute(ob, f"obligation `{label}` fails: more than one energy evaluation per iteration or the energy history is "
                                       f"not extended exactly once per evaluation", model, Nit)
            if r.outcome == "cut":
                continue
            if r.outcome != "return":
                return Result(UNDECIDED, backend="engine-Z", detail=f"path ended with {r.outcome}: {r.value}")
            scf, costs = r.state, r.value
            ev = _z(scf.fields["__evals"])
            n = costs.n if isinstance(costs, AbsList) else z3.IntVal(len(costs))
            goals = []
            if self.clause == "evaluations":
                goals = [("energy evaluations <= Nit", ev <= Nit.e), ("len(costs) <= Nit", n <= Nit.e), ("one cost entry per evaluation", n == ev)]
            conv = scf.fields["is_converged"]
            if conv is True and self.clause == "convergence":
                # set by this call (check_convergence): last energy change below etol, W untouched since the last evaluation
                last = costs.z_getitem(r.interp, -1) if isinstance(costs, AbsList) else costs[-1]
                prev = costs.z_getitem(r.interp, -2) if isinstance(costs, AbsList) else (costs[-2] if len(costs) > 1 else None)
                goals.append(("converged => at least two energies", n >= 2))
                if prev is not None:
                    d = _z(last, "real") - _z(prev, "real")
                    goals.append(("converged => |E[-1] - E[-2]| < etol", z3.And(d < scf.fields["etol"].e, -d < scf.fields["etol"].e)))
                wc = scf.fields["__Wcost"]
                goals.append(("converged => W unchanged since the last energy evaluation (stored Y, n, energies belong to W)",
                              w.to_val(scf.fields["W"]) == w.to_val(wc)))
                if self.gradtol:
                    # conjugate-gradient schemes with a gradient tolerance: the path on which convergence is reported has taken the branch
                    # `(sum(norm_g) < gradtol).all()` of the real check_convergence (an energy-only decision is not enough)
                    # the decisive atom of the path condition has the SHAPE all(sum_over_k(norm_g) < gradtol): the gradient norm of a spin channel is the sum over
                    # the k-points (the value the driver prints); all(norm_g < gradtol) - every k-point separately - is weaker
                    import re as _re

                    def _shape(c):
                        t = _re.sub(r"\s+", "", str(c))
                        return (not z3.is_not(c)) and "gradtol" in t and t.startswith(("truthy/1(call/1(attr.all/1(lt/2(xp.sum[axis]/2(", "truthy/1(call/1(attr.all/1(lt/2(call/1(attr.sum/1("))  # xp.sum(norm_g, axis=0) or norm_g.sum(...)

                    tested = any(_shape(c) for c in r.path.pc)
                    import os as _os
                    if _os.environ.get("C14_DEBUG_PC"):
                        print("PC:", [_re.sub(r"\s+", "", str(c))[:160] for c in r.path.pc if "gradtol" in str(c)], flush=True)
                    goals.append(("converged with a gradient tolerance set => the gradient norms were below it", z3.BoolVal(bool(tested))))
            for label, g in goals:
                v, model = check_valid(w, r.path.pc, g)
                nobl += 1
                if v == "proved":
                    continue
                if v == "unknown":
                    return Result(UNDECIDED, backend="z3", detail=f"{label}: z3 unknown")
                return self.refute(ob, f"post-condition `{label}` fails", model, Nit)
        return Result(DISCHARGED, backend="z3", stats=dict(paths=len(res), obligations=nobl))

    def refute(self, ob, msg, model, Nit):
        wit = dict(minimiser=self.name, gradtol=self.gradtol)
        try:
            wit["Nit"] = model.eval(Nit.e, model_completion=True).as_long()
        except Exception:  # noqa: BLE001
            pass
        ok, info = self.replay(wit)
        return Result(REFUTED, backend="z3", witness=wit, replayed=ok, replay_info=info, solver_output=str(model)[:1200],
                      detail=f"{self.name}: {msg} (counter-model Nit={wit.get('Nit')})")

    @staticmethod
    def replay_gradtol_multik(name, SCF, Atoms, M):
        """Four k-points: a gradient tolerance between the largest single-k part and the sum over the k-points at an iteration whose energy change is
        already below etol: convergence may only be reported when the SUM (the printed gradient norm of the spin channel) is below the tolerance."""
        etol = 1e-6

        def make(gradtol, et):
            at = Atoms("He", [[0.0, 0.0, 0.0]], a=5, ecut=5)
            at.kpts.kmesh = (2, 2, 1)
            at.build()
            return SCF(at, etol=et, gradtol=gradtol, opt={name: 60}, verbose="critical")

        def recorded(scf):
            traj = []

            def condition(s_, method, Elist, linmin=None, cg=None, norm_g=None):
                res = M.check_convergence(s_, method, Elist, linmin, cg, norm_g)
                dE = abs(Elist[-1] - Elist[-2]) if len(Elist) > 1 else float("inf")
                traj.append((len(Elist), dE, None if norm_g is None else np.array(np.asarray(norm_g), copy=True), res))
                return res

            try:
                scf.run(condition=condition)
            except Exception:  # noqa: BLE001
                return []
            return traj

        out = []
        cal = recorded(make(1e99, 1e-14))
        tried = 0
        for it, dE, ng, _ in cal:
            if ng is None or dE >= etol or tried >= 4:
                continue
            single, total = float(ng.max()), float(ng.sum(axis=0).max())
            if not (0 < single < 0.8 * total):
                continue
            tol = float(np.sqrt(single * total))
            tried += 1
            scf = make(tol, etol)
            traj = recorded(scf)
            if not traj or not scf.is_converged or traj[-1][2] is None:
                continue
            tot = traj[-1][2].sum(axis=0)
            if (tot >= tol).any():
                out.append(dict(kind="gradient tolerance", scheme=name, system="He, kmesh (2, 2, 1)", etol=etol, gradtol=tol, converged_at_iteration=traj[-1][0],
                                gradient_norm_summed_over_k=[float(x) for x in tot], note="convergence reported although the gradient norm of the spin channel is not below gradtol"))
                break
        return out

    def replay(self, wit):
        """Native runs on He with counting cost: evaluations vs cap, flag vs last energy change, coherence of the stored state."""
        import eminus
        from eminus import SCF, Atoms
        from eminus import minimizer as M
        from eminus.dft import get_n_total, orth
        from eminus.energies import get_E

        eminus.config.backend = "numpy"
        eminus.config.verbose = "critical"
        name = wit["minimiser"]
        findings = []
        if name == "auto" and wit.get("gradtol"):
            # scripted energies that force the steepest-descent fall-back of `auto` and then change by less than etol, with a gradient tolerance that
            # cannot be met (1e-14) at a random start: convergence must not be reported
            from eminus.dft import guess_random

            at = Atoms("He", [[0.0, 0.0, 0.0]], ecut=3, a=7, unrestricted=True)
            scf = SCF(at, etol=1e-3, gradtol=1e-14, verbose="critical")
            scf.W = guess_random(scf)
            script = iter([-1.0, -0.9, -1.0 + 1e-9, -0.95, -1.0 + 2e-9, -0.97, -1.0 + 3e-9, -2.0, -2.0, -2.0, -2.0, -2.0])

            def scripted(s_, step):
                s_._precompute()
                return next(script)

            scf.is_converged = False
            try:
                M.auto(scf, 4, cost=scripted)
            except StopIteration:
                pass
            if scf.is_converged:
                findings.append(dict(kind="gradient tolerance ignored", scheme="auto (steepest-descent fall-back step)", etol=1e-3, gradtol=1e-14,
                                     note="convergence reported after an energy change of 1e-9 although no gradient norm can be below 1e-14"))
        if wit.get("gradtol") and name in ("cg", "pccg", "auto"):
            findings += self.replay_gradtol_multik(name, SCF, Atoms, M)
        caps = sorted({int(wit.get("Nit", 3)), 1, 2, 3, 6, 40})
        for etol, gradtol in ((1.0, None), (1e-1, None), (1e-3, None), (1e-9, 1e-2 if wit.get("gradtol") else None)):
            for Nit in caps:
                at = Atoms("He", [[0.0, 0.0, 0.0]], ecut=5, a=8)
                scf = SCF(at, etol=etol, gradtol=gradtol, opt={name: Nit}, verbose="critical")
                count = [0]

                def cost(s, step, _c=count):
                    _c[0] += 1
                    return M.scf_step(s, step)

                scf.energies.Eewald = 0.0
                scf.W = eminus.dft.guess_random(scf)
                scf.clear()
                scf.is_converged = False
                Elist = M.IMPLEMENTED[name](scf, Nit, cost=cost)
                if count[0] > Nit:
                    findings.append(dict(kind="evaluations", Nit=Nit, evaluations=count[0], etol=etol))
                if scf.is_converged:
                    if len(Elist) < 2 or abs(Elist[-1] - Elist[-2]) >= etol:
                        findings.append(dict(kind="flag", Nit=Nit, etol=etol, gradtol=gradtol, last_dE=float(abs(Elist[-1] - Elist[-2])) if len(Elist) > 1 else None))
                    Y = orth(scf.atoms, scf.W)
                    n = get_n_total(scf.atoms, Y)
                    if np.abs(n - scf.n).max() > 1e-13 * max(1.0, float(np.abs(n).max())):
                        findings.append(dict(kind="coherence", Nit=Nit, etol=etol, max_density_mismatch=float(np.abs(n - scf.n).max())))
        if name == "auto" and not findings:
            # force the steepest-descent fall-back of `auto` (taken whenever the pccg step raises the energy) with a cost
            # function that evaluates the real energy but reports a rising sequence
            for Nit in (2, 3, 6):
                at = Atoms("He", [[0.0, 0.0, 0.0]], ecut=5, a=8)
                scf = SCF(at, etol=1e-12, opt={name: Nit}, verbose="critical")
                count = [0]

                def rising(s, step, _c=count):
                    _c[0] += 1
                    M.scf_step(s, step)
                    return float(_c[0])

                scf.energies.Eewald = 0.0
                scf.W = eminus.dft.guess_random(scf)
                scf.clear()
                M.auto(scf, Nit, cost=rising)
                if count[0] > Nit:
                    findings.append(dict(kind="evaluations", Nit=Nit, evaluations=count[0], note="cost reports a rising energy: every iteration takes the sd fall-back"))
        # only the findings that concern the clause of this obligation count as its replay (the double evaluation of `auto` is a finding of the
        # `evaluations` clause, not of the convergence clauses)
        mine = {"evaluations": ("evaluations",), "convergence": ("flag", "coherence", "gradient tolerance ignored", "gradient tolerance")}.get(self.clause)
        if mine:
            findings = [f for f in findings if f["kind"] in mine]
        return bool(findings), dict(check="He, ecut=5, a=8: counting cost wrapper, caps " + str(caps), violations=findings[:6])


class EtotSum:
    """Energy.Etot == sum of the dataclass fields (engine Z on the real class, fields symbolic)."""

    def __call__(self, ob, tier, seed):
        w = World()
        m = w.module("eminus.energies")
        E = m.get_class("Energy")
        names = [n.target.id for n in E.node.body if isinstance(n, ast.AnnAssign)]
        o = Obj(E, {n: named(w, n, "real") for n in names})

        def fields_handler(it, args, kwargs):
            class F:
                _zplain = True

                def __init__(self, name):
                    self.name = name

            return [F(n) for n in names]

        ext = {"dataclasses.fields": fields_handler}

        def run(it):
            return it.get_attr(o, "Etot"), None

        try:
            res = explore(w, run, ext=ext)
        except OutsideSubset as e:
            return Result(UNDECIDED, backend="engine-Z", detail=str(e))
        want = sum((o.fields[n].e for n in names), z3.RealVal(0))
        for r in res:
            v = r.value
            e = r.interp.as_z3(v, "real")
            if e is None:
                return Result(UNDECIDED, backend="engine-Z", detail="Etot is not numeric")
            verdict, model = check_valid(w, r.path.pc, e == want)
            if verdict != "proved":
                return Result(REFUTED if verdict == "refuted" else UNDECIDED, backend="z3", witness=dict(clause="Etot"),
                              detail=f"Energy.Etot is not the sum of its {len(names)} fields", solver_output=str(model)[:600])
        if len(names) < 5:
            return Result(UNDECIDED, detail="dataclass fields not found")
        return Result(DISCHARGED, backend="z3", stats=dict(fields=names))

    def replay(self, wit):
        import eminus
        from eminus.energies import Energy

        e = Energy(1.0, 2.0, 4.0, 8.0, 16.0, 32.0, 64.0, 128.0, 256.0)
        return bool(e.Etot != 511.0), dict(Etot=e.Etot, expected=511.0)


class RunReturns:
    """SCF.run returns self.energies.Etot evaluated AFTER the SIC / dispersion contributions were stored, and the convergence
    flag it reports was set in this run (it is reset when the minimisation starts)."""

    def __init__(self, clause):
        self.clause = clause

    def __call__(self, ob, tier, seed):
        from pycv.loader import source_of

        src = source_of("eminus.scf")
        tree = ast.parse(src)
        run = None
        for n in ast.walk(tree):
            if isinstance(n, ast.FunctionDef) and n.name == "run":
                run = n
        body = run.body
        if self.clause == "returns_Etot":
            ret = [s for s in ast.walk(run) if isinstance(s, ast.Return)]
            ok = len(ret) == 1 and ast.unparse(ret[0].value) == "self.energies.Etot"
            # every assignment to self.energies.* must precede the return and nothing may be returned from a local
            last_store = max([s.lineno for s in ast.walk(run) if isinstance(s, ast.Assign) and ast.unparse(s.targets[0]).startswith("self.energies.")] + [0])
            ok = ok and ret[0].lineno > last_store
            if ok:
                return Result(DISCHARGED, backend="ast-dataflow", detail="single return of self.energies.Etot after the last store to self.energies")
            wit = dict(clause="returns_Etot")
            r, info = self.replay(wit)
            return Result(REFUTED, backend="ast-dataflow", witness=wit, replayed=r, replay_info=info,
                          detail="run() does not return self.energies.Etot evaluated after all energy contributions were stored")
        if self.clause == "flag_fresh":
            # is_converged must be assigned False in run() (directly or through clear()) before the first minimiser call
            calls = [s.lineno for s in ast.walk(run) if isinstance(s, ast.Subscript) and "ALL_MINIMIZER" in ast.unparse(s)]
            first = min(calls) if calls else 10**9
            resets = [s.lineno for s in ast.walk(run) if isinstance(s, ast.Assign) and ast.unparse(s.targets[0]) == "self.is_converged"
                      and ast.unparse(s.value) == "False" and s.lineno < first]
            clear = None
            for n in ast.walk(tree):
                if isinstance(n, ast.FunctionDef) and n.name == "clear" and any(a.arg == "self" for a in n.args.args):
                    clear = n
            clear_resets = clear is not None and any(isinstance(s, ast.Assign) and ast.unparse(s.targets[0]) == "self.is_converged" for s in ast.walk(clear))
            calls_clear = any(isinstance(s, ast.Call) and ast.unparse(s.func) == "self.clear" and s.lineno < first for s in ast.walk(run))
            if resets or (clear_resets and calls_clear):
                return Result(DISCHARGED, backend="ast-dataflow")
            wit = dict(clause="flag_fresh")
            r, info = self.replay(wit)
            return Result(REFUTED, backend="ast-dataflow", witness=wit, replayed=r, replay_info=info,
                          detail="run() never resets is_converged: a second run reports the convergence of the previous one")
        raise AssertionError

    def replay(self, wit):
        import eminus
        from eminus import SCF, Atoms

        eminus.config.backend = "numpy"
        eminus.config.verbose = "critical"
        at = Atoms("He", [[0.0, 0.0, 0.0]], ecut=5, a=8)
        if wit["clause"] == "returns_Etot":
            scf = SCF(at, sic=True, opt={"sd": 3}, verbose="critical")
            e = scf.run()
            return bool(abs(e - scf.energies.Etot) > 1e-12), dict(returned=float(e), stored_sum=float(scf.energies.Etot))
        scf = SCF(at, etol=1e-2, opt={"pccg": 30}, verbose="critical")
        scf.run()
        first = bool(scf.is_converged)
        scf.W = eminus.dft.guess_random(scf, seed=7)
        scf.opt = {"sd": 1}
        scf.run()
        return bool(first and scf.is_converged), dict(history="run() converged; new random W; opt={'sd': 1}; run()",
                                                       converged_after_one_evaluation=bool(scf.is_converged))


class Canary:
    def __call__(self, ob, tier, seed):
        w = World()
        m = w.module("eminus.minimizer")
        scf0 = make_scf(w, False)
        Nit = named(w, "Nit", "int")
        specs = {MINIMISERS["sd"][2]: loop_spec(w, 0)}

        def run(it):
            scf = clone(scf0)
            return it.call(it.lookup_global("sd", m), [scf, Nit], {}), scf

        res = explore(w, run, assumptions=[Nit.e >= 1], ext=ext_handlers(w), loop_specs=specs)
        for r in res:
            if r.outcome == "return":
                v, _ = check_valid(w, r.path.pc, _z(r.state.fields["__evals"]) < Nit.e)  # false: can be == Nit
                if v == "refuted":
                    return Result(REFUTED, backend="z3", detail="canary")
        return Result(DISCHARGED, detail="canary not refuted")


def _register():
    Z = ("engineZ", "z3", "callee-contract")
    for name in MINIMISERS:
        f = MINIMISERS[name][0]
        funcs = [f"eminus.minimizer:{f}", "eminus.minimizer:check_convergence"] + ([f"eminus.minimizer:{ {'lm': 'pclm', 'cg': 'pccg'}[name] }"] if name in ("lm", "cg") else [])
        register(Obligation(name=f"C14.{name}.evaluations", prop=PROP, engine="Z", functions=funcs, run=Minimiser(name, False, "evaluations"),
                            budget={"quick": 200, "thorough": 900}, assumes=Z,
                            doc=f"{name}: energy evaluations <= Nit, one history entry per evaluation (loop invariant; any Nit >= 1)"))
        for gt in (False, True):
            if gt and name in ("sd", "lm", "pclm"):
                continue
            register(Obligation(name=f"C14.{name}.convergence{'.gradtol' if gt else ''}", prop=PROP, engine="Z", functions=funcs,
                                run=Minimiser(name, gt, "convergence"), budget={"quick": 200, "thorough": 900}, assumes=Z,
                                doc=f"{name}: flag set by this call => >= 2 energies and |E[-1]-E[-2]| < etol, and W untouched after the last "
                                    "evaluation (stored Y, n, energies belong to the returned W)"))
    register(Obligation(name="C14.Etot.sum_fields", prop=PROP, engine="Z", functions=["eminus.energies:Energy"], run=EtotSum(),
                        assumes=("engineZ", "z3"), doc="Energy.Etot is the sum of all dataclass fields"))
    register(Obligation(name="C14.run.returns_Etot", prop=PROP, engine="Z", functions=["eminus.scf:SCF.run"], run=RunReturns("returns_Etot"),
                        assumes=("cpython",), doc="run() returns self.energies.Etot, read after the SIC / dispersion terms were stored"))
    register(Obligation(name="C14.run.flag_fresh", prop=PROP, engine="Z", functions=["eminus.scf:SCF.run", "eminus.scf:SCF.clear"],
                        run=RunReturns("flag_fresh"), assumes=("cpython",), doc="is_converged reported by run() was set in this run"))
    register(Obligation(name="C14.canary.sd_strictly_fewer", prop=PROP, engine="Z", functions=["eminus.minimizer:sd"], run=Canary(),
                        canary=True, doc="'sd performs fewer than Nit evaluations' must be refuted"))


_register()


# ------------------------------------------------------------------------------------------------
# bounded native stand-ins for the whole-calculation clauses
# ------------------------------------------------------------------------------------------------


class SameMinimum:
    """BOUNDED: every minimiser scheme and cg form reaches the same minimum within tolerance; restarting from a converged state converges
    immediately to the same energy with at most the requested evaluations; small perturbations of the coefficients do not lower the energy."""

    def __call__(self, ob, tier, seed):
        import eminus
        from eminus import SCF, Atoms
        from eminus.energies import get_E

        from pycv.framework import BOUNDED_OK

        eminus.config.backend = "numpy"
        eminus.config.verbose = "critical"
        rng = np.random.default_rng(seed)
        results = {}

        def fresh(**kw):
            at = Atoms("He", [0.1, 0.2, 0.3], ecut=4, a=[[6.0, 0.3, 0.1], [0.2, 6.5, 0.4], [0.5, 0.1, 7.0]])
            return SCF(at, etol=1e-8, verbose="critical", **kw)

        for name, opt, kw in (("sd", {"sd": 3000}, {}), ("pclm", {"pclm": 400}, {}), ("lm", {"lm": 1500}, {}), ("pccg", {"pccg": 200}, {}), ("cg", {"cg": 600}, {}), ("auto", {"auto": 200}, {}),
                              ("pccg.cgform2", {"pccg": 200}, {"cgform": 2}), ("pccg.cgform3", {"pccg": 200}, {"cgform": 3}), ("pccg.cgform4", {"pccg": 200}, {"cgform": 4})):
            scf = fresh(opt=opt)
            e = scf.run(**kw)
            results[name] = (float(e), bool(scf.is_converged))
            if name == "pccg":
                ref = scf
        ebest = min(v[0] for v in results.values())
        bad = {k: v for k, v in results.items() if (not v[1]) or abs(v[0] - ebest) > 5e-6}
        if bad:
            return Result(REFUTED, backend="native", witness=dict(seed=seed), replayed=True, replay_info=dict(energies=results),
                          detail=f"minimisers disagree on the minimum (or do not converge): {bad} (lowest {ebest})")
        # two spin channels and two k-points (every scheme loops over both: an index slip in one of the loops shows here, not in the one-channel case)
        res2 = {}
        for name, opt in (("sd", {"sd": 4000}), ("pclm", {"pclm": 600}), ("lm", {"lm": 2500}), ("pccg", {"pccg": 300}), ("cg", {"cg": 900}), ("auto", {"auto": 300})):
            at = Atoms("He", [0.1, 0.2, 0.3], ecut=4, a=[[3.6, 0.3, 0.1], [0.2, 3.9, 0.4], [0.5, 0.1, 4.2]], unrestricted=True)  # small cell: dispersion
            at.kpts.kmesh = [2, 1, 1]
            at.kpts.kshift = [0.11, 0.05, 0.0]  # the two k-points are not each other's time-reversal partners
            scf2 = SCF(at, etol=1e-8, verbose="critical", opt=opt)
            res2[name] = (float(scf2.run()), bool(scf2.is_converged))
        eb2 = min(v[0] for v in res2.values())
        # schemes that did not converge within their cap are not compared (steepest descent and unpreconditioned line minimisation are slow in a small cell)
        bad2 = {k: v for k, v in res2.items() if v[1] and abs(v[0] - eb2) > 2e-5}
        if sum(1 for v in res2.values() if v[1]) < 3:
            bad2 = {k: v for k, v in res2.items() if not v[1]}
        if bad2:
            return Result(REFUTED, backend="native", witness=dict(seed=seed, system="He unrestricted, 2 k-points"), replayed=True, replay_info=dict(energies=res2),
                          detail=f"minimisers disagree on the minimum for two spin channels and two k-points (or do not converge): {bad2} (lowest {eb2})")
        # several occupied states (the trial step of the line-minimising schemes needs the fields of the trial point): every scheme converges within its cap
        res3 = {}
        # (caps: about three times the iteration counts of the unchanged tree - 21 / 27 / 84 for pccg / pclm / lm)
        for sysname, mk in (("LiH", lambda: Atoms("LiH", [[0.0, 0.0, 0.0], [0.0, 0.0, 3.0]], ecut=5, a=12)),
                            ("CH4", lambda: Atoms("CH4", [[0.0, 0.0, 0.0], [1.2, 1.2, 1.2], [-1.2, -1.2, 1.2], [1.2, -1.2, -1.2], [-1.2, 1.2, -1.2]], ecut=5, a=12))):
            for name, opt in (("pccg", {"pccg": 80}), ("pclm", {"pclm": 80}), ("lm", {"lm": 250}), ("auto", {"auto": 80})):
                if sysname == "LiH" and name == "lm":
                    continue  # the unpreconditioned line minimisation needs more than 250 iterations for LiH in a 12 bohr cell on the unchanged tree
                scf3 = SCF(mk(), etol=1e-8, verbose="critical", opt=opt)
                res3[f"{sysname}.{name}"] = (float(scf3.run()), bool(scf3.is_converged), int(scf3._opt_log[name]["iter"]))
        bad3 = {}
        for sysname in ("LiH", "CH4"):
            sub = {k: v for k, v in res3.items() if k.startswith(sysname)}
            eb = min(v[0] for v in sub.values())
            bad3.update({k: v for k, v in sub.items() if (not v[1]) or abs(v[0] - eb) > 5e-6})
        if bad3:
            return Result(REFUTED, backend="native", witness=dict(seed=seed, system="LiH / CH4"), replayed=True, replay_info=dict(energies=res3),
                          detail=f"minimisers disagree on the minimum or do not converge within their cap for several occupied states: {bad3}")
        # restart from the converged state: immediate convergence, same energy
        e0 = ref.energies.Etot
        ref.opt = {"pccg": 5}
        e1 = ref.run()
        n_eval = ref._opt_log["pccg"]["iter"]
        if abs(e1 - e0) > 1e-7 or not ref.is_converged or n_eval > 5:
            return Result(REFUTED, backend="native", witness=dict(seed=seed), replayed=True, replay_info=dict(E=float(e0), restarted=float(e1), evaluations=int(n_eval)),
                          detail=f"restart from a converged state: E {e0} -> {e1}, converged={ref.is_converged}, {n_eval} evaluations")
        # local minimum
        W0 = [np.array(w) for w in ref.W]
        worst = 0.0
        for _ in range(8):
            ref.W = [w + 1e-4 * (rng.standard_normal(w.shape) + 1j * rng.standard_normal(w.shape)) * np.linalg.norm(w) / np.sqrt(w.size) for w in W0]
            ref._precompute()
            worst = min(worst, float(get_E(ref) - e1))
        if worst < -1e-9:
            return Result(REFUTED, backend="native", witness=dict(seed=seed), replayed=True, replay_info=dict(lowering=worst), detail=f"a small perturbation lowers the converged energy by {-worst:.2e}")
        return Result(BOUNDED_OK, backend="native", stats=dict(energies={k: v[0] for k, v in results.items()}),
                      detail=f"bounded: sd / lm / pclm / cg / pccg (cgform 1-4) / auto reach the same minimum within 5e-6 Eh (He, triclinic cell); restart converges at once; no perturbation lowers E (worst {worst:.1e})")

    def replay(self, wit):
        r = self(None, "quick", wit.get("seed", 0))
        return r.verdict == REFUTED, dict(detail=r.detail)


register(Obligation(name="C14.minimisers.same_minimum_restart_local_minimum", prop=PROP, engine="B", bounded=True, run=SameMinimum(), budget={"quick": 600, "thorough": 1200},
                    functions=["eminus.minimizer:sd", "eminus.minimizer:lm", "eminus.minimizer:pclm", "eminus.minimizer:cg", "eminus.minimizer:pccg", "eminus.minimizer:auto", "eminus.scf:SCF.run"],
                    doc="BOUNDED: all schemes / cg forms reach the same minimum; a restart from the converged state converges immediately; the minimum is local (He, triclinic cell)"))


# ------------------------------------------------------------------------------------------------
# the unpreconditioned wrappers (lm, cg) run the same scheme on the SAME cost / gradient / condition
# ------------------------------------------------------------------------------------------------


class SchemeWrapper:
    """lm = pclm(..., precondition=False), cg = pccg(..., precondition=False) in eminus.minimizer and eminus.band_minimizer: symbolic execution of
    the wrapper with the wrapped scheme as an uninterpreted callee that records its bound arguments: every argument (cost, gradient, condition,
    step size, cg form, coefficients) arrives in its own slot and preconditioning is switched off; the wrapper returns what the scheme returns."""

    def __init__(self, module, wrapper, target):
        self.module, self.wrapper, self.target = module, wrapper, target

    def __call__(self, ob, tier, seed):
        import ast
        import inspect

        try:
            w = World()
            mod = w.module(self.module)
            fn = mod.funcs[self.wrapper]
            tgt = mod.funcs[self.target]
            wnames = [a.arg for a in fn.node.args.args]
            tnames = [a.arg for a in tgt.node.args.args]
            vals = {n: named(w, f"arg:{n}", "val") for n in wnames}
            seen = {}
            ret = named(w, "out:costs", "val")

            def callee(it, a, k):
                bound = dict(zip(tnames, a))
                bound.update(k)
                seen.update(bound)
                return ret

            ext = dict(NUM_EXT)
            ext[f"func:{self.target}"] = callee

            def run(it):
                f = it.lookup_global(self.wrapper, mod)
                return it.call(f, [vals[n] for n in wnames], {}), None

            res = explore(w, run, assumptions=[], ext=ext, max_paths=4)
            if len(res) != 1 or res[0].outcome != "return":
                raise OutsideSubset(f"{self.wrapper}: {[(r.outcome, str(r.value)[:60]) for r in res]}")
            bad = [n for n in wnames if n in tnames and seen.get(n) is not vals[n]]
            pre = seen.get("precondition")
            if pre is not False:
                bad.append(f"precondition={pre!r}")
            if res[0].value is not ret:
                bad.append("return value")
            if bad:
                wit = dict(wrapper=f"{self.module}:{self.wrapper}", wrong=bad)
                ok, info = self.replay(wit)
                return Result(REFUTED if ok else UNDECIDED, backend="symbolic-execution", witness=wit, replayed=ok, replay_info=info,
                              detail=f"{self.module}.{self.wrapper} does not hand {bad} on to {self.target}")
            return Result(DISCHARGED, backend="symbolic-execution", stats=dict(forwarded=[n for n in wnames if n in tnames]))
        except (OutsideSubset, PyRaise, TypeError, AttributeError, KeyError, ValueError, IndexError) as e:
            ok, info = self.replay({})
            if ok:
                return Result(REFUTED, backend="native-contract-evaluation", witness=dict(wrapper=self.wrapper), replayed=True, replay_info=info,
                              detail=f"{self.wrapper}: wrapped scheme does not receive the wrapper's arguments ({type(e).__name__}: {e})")
            return Result(UNDECIDED, backend="engine-Z", detail=f"outside subset: {type(e).__name__}: {e}")

    def replay(self, wit):
        """Native: the wrapper is called with recording cost / gradient / condition callables; the wrapped scheme has to use exactly those."""
        import importlib

        import eminus
        from eminus import SCF, Atoms
        from eminus.dft import guess_random

        eminus.config.backend = "numpy"
        eminus.config.verbose = "critical"
        M = importlib.import_module(self.module)
        at = Atoms("He", [[0.0, 0.0, 0.0]], ecut=2, a=6)
        scf = SCF(at, opt={"sd": 1}, verbose="critical")
        scf.run()
        used = dict(cost=0, grad=0, condition=0)
        band = self.module.endswith("band_minimizer")
        base_cost = M.scf_step_unocc if band else M.scf_step
        base_grad = M.get_grad_unocc if band else M.get_grad

        def cost(*a, **k):
            used["cost"] += 1
            return base_cost(*a, **k)

        def grad(*a, **k):
            used["grad"] += 1
            return base_grad(*a, **k)

        def condition(*a, **k):
            used["condition"] += 1
            return M.check_convergence(*a, **k)

        try:
            if band:
                Z = guess_random(scf, Nstate=2)
                getattr(M, self.wrapper)(scf, Z, 3, cost=cost, grad=grad, condition=condition)
            else:
                getattr(M, self.wrapper)(scf, 3, cost=cost, grad=grad, condition=condition)
        except Exception as e:  # noqa: BLE001
            return True, dict(raised=f"{type(e).__name__}: {e}", calls=used)
        bad = [k for k, v in used.items() if v == 0]
        return bool(bad), dict(check=f"{self.module}.{self.wrapper} with recording cost / gradient / condition callables", calls=used, never_called=bad)


for _mod in ("eminus.minimizer", "eminus.band_minimizer"):
    for _wr, _tg in (("lm", "pclm"), ("cg", "pccg")):
        register(Obligation(name=f"C14.{_mod.split('.')[1]}.{_wr}.wraps_{_tg}_unpreconditioned", prop=PROP, engine="Z", functions=[f"{_mod}:{_wr}", f"{_mod}:{_tg}"],
                            run=SchemeWrapper(_mod, _wr, _tg), assumes=("engineZ",),
                            doc=f"{_mod}.{_wr} = {_tg} with preconditioning switched off and every other argument (cost, gradient, condition, step, cg form) handed on unchanged"))


class AutoFallback:
    """BOUNDED: `auto` from the `pseudo` start on a small unrestricted cell with two k-points: when it reports convergence its energy is the minimum the
    line-minimisation scheme finds (OPEN FINDING on the pinned tree: its steepest-descent fall-back step changes the energy by less than etol far from
    the minimum and convergence is reported 2e-5 Eh above it; pccg from the same start does not converge in 1500 iterations)."""

    def energies(self):
        import eminus
        from eminus import SCF, Atoms

        eminus.config.backend = "numpy"
        eminus.config.verbose = "critical"
        out = {}
        for name, opt in (("pclm", {"pclm": 400}), ("auto", {"auto": 400})):
            at = Atoms("He", [0.1, 0.2, 0.3], ecut=4, a=[[3.6, 0.3, 0.1], [0.2, 3.9, 0.4], [0.5, 0.1, 4.2]], unrestricted=True)
            at.kpts.kmesh = [2, 1, 1]
            at.kpts.kshift = [0.11, 0.05, 0.0]
            scf = SCF(at, etol=1e-8, verbose="critical", opt=opt, guess="pseudo")
            out[name] = (float(scf.run()), bool(scf.is_converged), int(scf._opt_log[name]["iter"]))
        return out

    def __call__(self, ob, tier, seed):
        from pycv.framework import BOUNDED_OK

        r = self.energies()
        gap = r["auto"][0] - r["pclm"][0]
        if r["auto"][1] and r["pclm"][1] and gap > 5e-6:
            return Result(REFUTED, backend="native", witness=dict(system="He unrestricted, 3.6-4.2 bohr cell, kmesh [2,1,1] shifted, guess pseudo"), replayed=True, replay_info=dict(energies=r),
                          detail=f"auto reports convergence {gap:.1e} Eh above the minimum found by pclm (etol 1e-8): premature convergence in the steepest-descent fall-back")
        if not (r["auto"][1] and r["pclm"][1]):
            return Result(UNDECIDED, backend="native", detail=f"not converged within the caps: {r}")
        return Result(BOUNDED_OK, backend="native", detail=f"bounded: auto and pclm agree to {abs(gap):.1e} Eh")

    def replay(self, wit):
        r = self.energies()
        return bool(r["auto"][1] and r["auto"][0] - r["pclm"][0] > 5e-6), dict(energies=r)


register(Obligation(name="C14.auto.converged_energy_is_the_minimum.pseudo_start", prop=PROP, engine="B", bounded=True, run=AutoFallback(), budget={"quick": 300, "thorough": 600},
                    functions=["eminus.minimizer:auto", "eminus.minimizer:check_convergence"],
                    doc="BOUNDED: the energy at which auto reports convergence is the minimum (small unrestricted cell, two k-points, pseudo start)"))


class SchemeEquivariance:
    """BOUNDED: a few iterations of every scheme on a system with two k-points (unequal weights) and two spin channels give the same energies when the
    k-points (with weights and start coefficients) are listed in the other order, and when the two spin channels of the start coefficients are
    exchanged: the loops over k-points and spin channels treat every channel alike (an index slip in one loop breaks this after the first step)."""

    def __init__(self, fresh_object=False):
        # fresh_object = True: the scheme starts on an SCF object without pre-computed fields (the state SCF.run leaves it in before the first iteration)
        self.fresh_object = fresh_object

    def run_case(self, scheme, order, swap, W0=None):
        import eminus
        from eminus import SCF, Atoms
        from eminus.dft import guess_random

        eminus.config.backend = "numpy"
        eminus.config.verbose = "critical"
        ks = np.array([[0.05, 0.1, -0.02], [0.31, -0.13, 0.17]])
        wk = np.array([0.35, 0.65])
        at = Atoms("He", [0.1, 0.2, 0.3], ecut=4, a=[[3.6, 0.3, 0.1], [0.2, 3.9, 0.4], [0.5, 0.1, 4.2]], unrestricted=True)
        at.set_k(ks[list(order)], wk[list(order)])
        scf = SCF(at, etol=1e-14, verbose="critical", opt={scheme: 4})
        if W0 is None:
            W0 = [np.asarray(w).copy() for w in guess_random(scf, seed=7)]
            # different start coefficients in the two spin channels
            W0 = [w * np.array([1.0, 0.7])[:, None, None] + 0.1 * np.roll(w, 1, axis=1) * np.array([0.0, 1.0])[:, None, None] for w in W0]
        W = [W0[i] for i in order]
        if swap:
            W = [w[::-1].copy() for w in W]
        scf.W = [w.copy() for w in W]
        from eminus import minimizer as M

        scf.clear()
        scf.energies.Eewald = 0.0
        if not self.fresh_object:
            scf._precompute()  # fields of the start coefficients (what every later iteration has from the preceding energy evaluation)
        e = float(M.IMPLEMENTED[scheme](scf, 4)[-1])
        return e, W0

    def __call__(self, ob, tier, seed):
        from pycv.framework import BOUNDED_OK

        worst, info = 0.0, {}
        for scheme in ("sd", "lm", "pclm", "cg", "pccg", "auto"):
            try:
                e0, W0 = self.run_case(scheme, (0, 1), False)
                e1, _ = self.run_case(scheme, (1, 0), False, W0)
                e2, _ = self.run_case(scheme, (0, 1), True, W0)
            except Exception as e:  # noqa: BLE001
                return Result(REFUTED, backend="native", witness=dict(scheme=scheme), replayed=True, replay_info=dict(raised=f"{type(e).__name__}: {e}"), detail=f"{scheme}: raises {type(e).__name__}: {e}")
            d = max(abs(e1 - e0), abs(e2 - e0))
            info[scheme] = dict(E=e0, k_order_swapped=e1 - e0, spin_channels_swapped=e2 - e0)
            worst = max(worst, d)
            if d > 1e-8:
                return Result(REFUTED, backend="native", witness=dict(scheme=scheme), replayed=True, replay_info=info,
                              detail=f"{scheme}: four iterations give another energy when the k-points are listed in the other order ({e1 - e0:.2e}) / the spin channels are exchanged ({e2 - e0:.2e})")
        return Result(BOUNDED_OK, backend="native", stats=info, detail=f"bounded: six schemes, four iterations, He unrestricted, two weighted k-points: energies independent of k-point order and spin labelling to {worst:.1e}")

    def replay(self, wit):
        r = self(None, "quick", 0)
        return r.verdict == REFUTED, dict(detail=r.detail)


register(Obligation(name="C14.minimisers.kpoint_and_spin_channel_equivariance.fresh_object", prop=PROP, engine="B", bounded=True, run=SchemeEquivariance(fresh_object=True),
                    budget={"quick": 300, "thorough": 600}, functions=["eminus.minimizer:pclm", "eminus.minimizer:pccg", "eminus.minimizer:auto", "eminus.dft:H_precompute"],
                    doc="BOUNDED: the same on an SCF object that holds no pre-computed fields yet (first iteration of the line-minimising schemes)"))
register(Obligation(name="C14.minimisers.kpoint_and_spin_channel_equivariance", prop=PROP, engine="B", bounded=True, run=SchemeEquivariance(), budget={"quick": 300, "thorough": 600},
                    functions=["eminus.minimizer:sd", "eminus.minimizer:lm", "eminus.minimizer:pclm", "eminus.minimizer:cg", "eminus.minimizer:pccg", "eminus.minimizer:auto"],
                    doc="BOUNDED: every scheme treats all k-points and both spin channels alike (energies after four iterations do not depend on their order)"))


# ------------------------------------------------------------------------------------------------
# bounded: restart of a converged run (with Fermi smearing); stored energies after the potential was changed
# ------------------------------------------------------------------------------------------------


class RestartAndStoredEnergies:
    """BOUNDED: (a) a converged run with Fermi smearing restarted from its own coefficients with every scheme converges within three iterations to the same
    energy (20 etol), and every stored contribution (entropy term included) is the one of the first run to 1e-3 (first order in the residual change of the orbitals); (b) after the external potential of an SCF object was
    changed (GTH with non-local projectors -> harmonic / Coulomb) and the object was run again, every stored energy contribution equals the one a FRESH object
    computes at the returned coefficients (no contribution of the earlier potential survives) and run() returns their sum."""

    def problems(self):
        import dataclasses

        import eminus
        from eminus import SCF, Atoms, Cell
        from eminus.energies import get_E
        from eminus.minimizer import scf_step

        eminus.config.backend = "numpy"
        eminus.config.verbose = "critical"
        bad = []
        etol = 1e-7

        def fields(scf):
            return {f.name: float(getattr(scf.energies, f.name)) for f in dataclasses.fields(scf.energies)}

        # (a) smeared, restart with each scheme
        cell = Cell("Li", "bcc", ecut=5, a=3.44, smearing=5e-3, bands=3, unrestricted=False)  # spin-paired with an odd electron count: a half-filled band, entropy term != 0
        scf = SCF(cell, etol=etol, opt={"auto": 100}, verbose="critical")
        e_first = float(scf.run())
        f_first = fields(scf)
        if not scf.is_converged or abs(f_first["Eentropy"]) < 1e-4:
            raise RuntimeError("harness: the smeared reference run did not converge or has no entropy term")
        for m in ("pccg", "auto", "cg", "pclm", "sd"):
            scf.opt = {m: 50}
            e = float(scf.run())
            it = int(scf._opt_log[m]["iter"])
            f = fields(scf)
            # the total energy is stationary at the minimum (second order in the change of the orbitals), its contributions are first order: 1e-3
            d = {k: f[k] - f_first[k] for k in f if abs(f[k] - f_first[k]) > 1e-3}
            if abs(e - e_first) > 20 * etol or d or not scf.is_converged or it > 3 or abs(e - sum(f.values())) > 1e-12:
                bad.append(dict(case=f"bcc Li, smearing 5e-3, converged with auto, restarted with {m}", first=e_first, restart=e, iterations=it, converged=bool(scf.is_converged),
                                contributions_that_moved=d, returned_minus_sum_of_stored=e - sum(f.values())))
        # (b) potential changed on an existing object
        for newpot in ("harmonic", "coulomb"):
            at = Atoms("Ne", [[0.1, 0.2, 0.3]], ecut=5, a=6)
            scf = SCF(at, opt={"pccg": 4}, verbose="critical")
            scf.run()
            scf.pot = newpot
            e = float(scf.run())
            f = fields(scf)
            ref = SCF(Atoms("Ne", [[0.1, 0.2, 0.3]], ecut=5, a=6), pot=newpot, verbose="critical")
            ref.W = [np.asarray(w).copy() for w in scf.W]
            ref.energies.Eewald = scf.energies.Eewald
            scf_step(ref, 0)
            g = fields(ref)
            d = {k: (f[k], g[k]) for k in f if abs(f[k] - g[k]) > 1e-9}
            if d or abs(e - sum(f.values())) > 1e-12:
                bad.append(dict(case=f"Ne: run() with GTH; pot = {newpot!r}; run()", stored_vs_fresh_object_at_the_returned_coefficients=d, returned_minus_sum_of_stored=e - sum(f.values())))
        # (c) the band minimisation of empty states after a converged run: its own convergence flag, chained minimisers
        at = Atoms("LiH", [[0.0, 0.0, 0.0], [0.0, 0.0, 3.0]], ecut=4, a=8)
        eps = {}
        for tag, opt in (("pccg alone", {"pccg": 300}), ("capped", {"pccg": 3}), ("chain", {"sd": 3, "pccg": 300})):
            scf = SCF(at, etol=1e-8, opt={"pccg": 100}, verbose="critical")
            scf.run()
            if not scf.is_converged:
                raise RuntimeError("harness: the reference run did not converge")
            scf.opt = opt
            scf.converge_empty_bands(Nempty=2)
            from eminus.dft import get_epsilon_unocc

            eps[tag] = (np.asarray(get_epsilon_unocc(scf, scf.W, scf.Z)).copy(), bool(scf.is_converged), {k: int(v["iter"]) for k, v in scf._opt_log.items() if k in opt})
        if eps["capped"][1]:
            bad.append(dict(case="LiH: run(); opt = {'pccg': 3}; converge_empty_bands(Nempty=2)", reports_converged_after=eps["capped"][2],
                            eigenvalue_distance_from_the_converged_ones=float(np.abs(eps["capped"][0] - eps["pccg alone"][0]).max())))
        if not eps["chain"][1] or np.abs(eps["chain"][0] - eps["pccg alone"][0]).max() > 1e-3 or "pccg" not in eps["chain"][2]:  # eigenvalues are first order in the residual
            bad.append(dict(case="LiH: run(); opt = {'sd': 3, 'pccg': 300}; converge_empty_bands(Nempty=2)", converged=eps["chain"][1], minimisers_run=eps["chain"][2],
                            eigenvalue_distance_from_pccg_alone=float(np.abs(eps["chain"][0] - eps["pccg alone"][0]).max())))
        # (d) empty bands of open-shell systems (a spin channel that stores a zero-occupation orbital): the converged band minimisation is a local minimum of
        # the band energy it reports - no small perturbation of the converged unoccupied orbitals, in either direction, lowers it
        from eminus.band_minimizer import scf_step_unocc

        rng = np.random.default_rng(7)
        for sym in ("H", "Li"):
            at = Atoms(sym, [[0.0, 0.0, 0.0]], ecut=3, a=6, unrestricted=True)
            scf = SCF(at, etol=1e-10, opt={"pccg": 150}, verbose="critical")
            scf.run()
            scf.opt = {"pccg": 400}
            scf.converge_empty_bands(Nempty=1)
            Z0 = [np.asarray(z).copy() for z in scf.Z]
            e0 = float(scf_step_unocc(scf, [z.copy() for z in Z0]))
            lowest = 0.0
            for _ in range(6):
                d = [(rng.standard_normal(z.shape) + 1j * rng.standard_normal(z.shape)) for z in Z0]
                d = [1e-3 * x * np.linalg.norm(z) / np.linalg.norm(x) for x, z in zip(d, Z0)]
                for sgn in (1.0, -1.0):
                    lowest = min(lowest, float(scf_step_unocc(scf, [z + sgn * x for z, x in zip(Z0, d)])) - e0)
            if not scf.is_converged or lowest < -1e-7:
                bad.append(dict(case=f"{sym} atom, unrestricted: run(); converge_empty_bands(Nempty=1); perturbation of relative size 1e-3", converged=bool(scf.is_converged),
                                largest_lowering_of_the_band_energy=lowest))
        # (e) weights assigned on the k-point object of an SCF object (scf.kpts.wk = ...) before the run: every k-weighted contribution follows THOSE weights -
        # the stored kinetic energy is sum_k wk f <psi| -1/2 nabla^2 |psi> of the returned orbitals (explicit sum over the plane waves), run() returns the sum of
        # the stored contributions, and the reported minimum is a stationary point (directional derivative along a random direction within 1e-3)
        from eminus.dft import orth

        cell = Cell("He", "fcc", ecut=5, a=5.5)
        cell.kpts.kmesh = [2, 1, 1]
        scf = SCF(cell, etol=1e-8, opt={"pccg": 100}, verbose="critical")
        scf.kpts.wk = [0.25, 0.75]
        e = float(scf.run())
        at = scf.atoms
        f = fields(scf)
        Y = orth(at, scf.W)
        wk = np.asarray(at.kpts.wk)
        ekin = 0.0
        for ik in range(at.kpts.Nk):
            for sp in range(at.occ.Nspin):
                y = np.asarray(Y[ik][sp])
                ekin += 0.5 * wk[ik] * float(np.sum(np.asarray(at.occ.f)[ik, sp][None, :] * float(at.Omega) * np.asarray(at.Gk2c[ik])[:, None] * np.abs(y) ** 2))
        rng = np.random.default_rng(5)
        D = [rng.standard_normal(np.shape(w)) + 1j * rng.standard_normal(np.shape(w)) for w in scf.W]
        nrm = np.sqrt(sum(np.linalg.norm(d) ** 2 for d in D))
        W0 = [np.asarray(w).copy() for w in scf.W]

        def E(t):
            scf.W = [w + t * d / nrm for w, d in zip(W0, D)]
            scf._precompute()
            return float(get_E(scf))

        slope = (E(1e-4) - E(-1e-4)) / 2e-4
        scf.W = W0
        if not scf.is_converged or abs(f["Ekin"] - ekin) > 1e-8 or abs(e - sum(f.values())) > 1e-12 or abs(slope) > 1e-3 or not np.allclose(wk, [0.25, 0.75]):
            bad.append(dict(case="fcc He, 2x1x1 mesh, scf.kpts.wk = [0.25, 0.75]; run()", converged=bool(scf.is_converged), stored_Ekin=f["Ekin"], Ekin_of_the_returned_orbitals=ekin,
                            returned_minus_sum_of_stored=e - sum(f.values()), slope_at_the_reported_minimum=slope, weights=wk.tolist()))
        return bad

    def __call__(self, ob, tier, seed):
        from pycv.framework import BOUNDED_OK

        bad = self.problems()
        if bad:
            return Result(REFUTED, backend="native", witness=dict(case=bad[0]["case"]), replayed=True, replay_info=dict(failing=bad[:4]), detail=f"restart / stored energies: {bad[0]}")
        return Result(BOUNDED_OK, backend="native", detail="bounded: smeared bcc Li restarted with five schemes (same energy and contributions, <= 3 iterations); Ne after a change of the potential: stored energies are those of a fresh object at the returned coefficients")

    def replay(self, wit):
        bad = self.problems()
        return bool(bad), dict(failing=bad[:4])


register(Obligation(name="C14.run.restart_and_stored_energies", prop=PROP, engine="B", bounded=True, run=RestartAndStoredEnergies(), budget={"quick": 400, "thorough": 900},
                    functions=["eminus.scf:SCF.run", "eminus.minimizer:scf_step", "eminus.energies:get_E", "eminus.energies:get_Eentropy", "eminus.scf:SCF.converge_empty_bands"],
                    doc="BOUNDED: restart of a converged smeared run keeps energy and contributions; after a change of the potential the stored energies are those of the returned coefficients; "
                        "converge_empty_bands reports its own convergence (capped run: not converged; chained minimisers all run)"))
